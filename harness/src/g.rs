//! Genome reader: a total, monotone decoder over a byte string.
//!
//! Every random choice a check makes is read from the genome, so proptest (or
//! libFuzzer) owns all randomness and shrinking the bytes shrinks the case:
//! byte 0 always selects the first (simplest) alternative, indices are mapped
//! monotonically (`(b * n) >> 8`, never `%`) and an exhausted genome yields 0.

pub struct G<'a> {
    d: &'a [u8],
    i: usize,
}

impl<'a> G<'a> {
    pub fn new(d: &'a [u8]) -> Self {
        G { d, i: 0 }
    }

    pub fn exhausted(&self) -> bool {
        self.i >= self.d.len()
    }

    pub fn used(&self) -> usize {
        self.i.min(self.d.len())
    }

    pub fn byte(&mut self) -> u8 {
        let b = self.d.get(self.i).copied().unwrap_or(0);
        self.i += 1;
        b
    }

    /// Uniform-ish index in 0..n (n >= 1), monotone in the genome bytes.
    pub fn below(&mut self, n: usize) -> usize {
        if n <= 1 {
            return 0;
        }
        if n <= 256 {
            (self.byte() as usize * n) >> 8
        } else {
            let v = ((self.byte() as usize) << 8) | self.byte() as usize;
            ((v as u64 * n as u64) >> 16) as usize
        }
    }

    /// Inclusive range lo..=hi.
    pub fn range(&mut self, lo: i64, hi: i64) -> i64 {
        if hi <= lo {
            return lo;
        }
        lo + self.below((hi - lo + 1) as usize) as i64
    }

    pub fn flag(&mut self) -> bool {
        self.byte() >= 128
    }

    /// True with probability num/256; byte 0 => false (the simple choice).
    pub fn chance(&mut self, num: u32) -> bool {
        (self.byte() as u32) >= 256 - num.min(256)
    }

    pub fn pick<'b, T>(&mut self, xs: &'b [T]) -> &'b T {
        let i = self.below(xs.len());
        &xs[i]
    }

    pub fn pick_str(&mut self, xs: &[&'static str]) -> &'static str {
        let i = self.below(xs.len());
        xs[i]
    }

    pub fn u64(&mut self) -> u64 {
        let mut v = 0u64;
        for _ in 0..8 {
            v = (v << 8) | self.byte() as u64;
        }
        v
    }

    pub fn u32(&mut self) -> u32 {
        let mut v = 0u32;
        for _ in 0..4 {
            v = (v << 8) | self.byte() as u32;
        }
        v
    }
}
