//! Expression trees `E`, an rscel-independent renderer (precedence table, parenthesisation
//! and whitespace styles), the span-free `Shape` vocabulary, and free-variable analysis.

use crate::g::G;
use crate::val::{bytes_lit, str_lit, V};
use std::collections::BTreeSet;

#[derive(Clone, Copy, Debug, PartialEq, Eq, Hash)]
pub enum Op {
    Or,
    And,
    Lt,
    Le,
    Gt,
    Ge,
    Eq,
    Ne,
    In,
    Add,
    Sub,
    Mul,
    Div,
    Rem,
}

pub const ALL_OPS: &[Op] = &[
    Op::Or,
    Op::And,
    Op::Lt,
    Op::Le,
    Op::Gt,
    Op::Ge,
    Op::Eq,
    Op::Ne,
    Op::In,
    Op::Add,
    Op::Sub,
    Op::Mul,
    Op::Div,
    Op::Rem,
];

impl Op {
    pub fn sym(self) -> &'static str {
        match self {
            Op::Or => "||",
            Op::And => "&&",
            Op::Lt => "<",
            Op::Le => "<=",
            Op::Gt => ">",
            Op::Ge => ">=",
            Op::Eq => "==",
            Op::Ne => "!=",
            Op::In => "in",
            Op::Add => "+",
            Op::Sub => "-",
            Op::Mul => "*",
            Op::Div => "/",
            Op::Rem => "%",
        }
    }
    /// CEL precedence levels: ?: 0 < || 1 < && 2 < relations 3 < + - 4 < * / % 5 < unary 6 < postfix 7
    pub fn prec(self) -> u8 {
        match self {
            Op::Or => 1,
            Op::And => 2,
            Op::Lt | Op::Le | Op::Gt | Op::Ge | Op::Eq | Op::Ne | Op::In => 3,
            Op::Add | Op::Sub => 4,
            Op::Mul | Op::Div | Op::Rem => 5,
        }
    }
    pub fn from_sym(s: &str) -> Option<Op> {
        ALL_OPS.iter().copied().find(|o| o.sym() == s)
    }
}

#[derive(Clone, Debug, PartialEq)]
pub enum FSeg {
    Lit(String),
    Expr(E),
}

#[derive(Clone, Debug, PartialEq)]
pub enum Pat {
    Any,
    Type(String),
    /// optional comparison operator (== != < <= > >=) and a `||`-level expression
    Cmp(Option<Op>, E),
}

#[derive(Clone, Debug, PartialEq)]
pub enum E {
    /// atomic literal: non-negative int, uint, non-negative finite double, bool, string,
    /// bytes, null (negative and non-finite numbers are built with Neg / Bin nodes)
    Lit(V),
    Var(String),
    Not(u8, Box<E>),
    Neg(u8, Box<E>),
    Bin(Op, Box<E>, Box<E>),
    Tern(Box<E>, Box<E>, Box<E>),
    List(Vec<E>),
    Map(Vec<(E, E)>),
    Index(Box<E>, Box<E>),
    Field(Box<E>, String),
    /// callee expression and arguments: `f(a)` has callee Var(f); `x.f(a)` has callee Field(x, f)
    Call(Box<E>, Vec<E>),
    FStr(Vec<FSeg>),
    Match(Box<E>, Vec<(Pat, E)>),
}

pub fn var(n: &str) -> E {
    E::Var(n.to_string())
}
pub fn bin(op: Op, a: E, b: E) -> E {
    E::Bin(op, Box::new(a), Box::new(b))
}
pub fn call(name: &str, args: Vec<E>) -> E {
    E::Call(Box::new(var(name)), args)
}
pub fn method(recv: E, name: &str, args: Vec<E>) -> E {
    E::Call(Box::new(E::Field(Box::new(recv), name.to_string())), args)
}
pub fn ilit(i: i64) -> E {
    E::from_value(&V::Int(i))
}
pub fn slit(s: &str) -> E {
    E::Lit(V::s(s))
}

impl E {
    /// Build a constant expression that denotes `v` exactly, using only atomic literals.
    pub fn from_value(v: &V) -> E {
        match v {
            V::Int(i) => {
                if *i == i64::MIN {
                    bin(
                        Op::Sub,
                        E::Neg(1, Box::new(E::Lit(V::Int(i64::MAX)))),
                        E::Lit(V::Int(1)),
                    )
                } else if *i < 0 {
                    E::Neg(1, Box::new(E::Lit(V::Int(-*i))))
                } else {
                    E::Lit(V::Int(*i))
                }
            }
            V::F(f) => {
                if f.is_nan() {
                    bin(Op::Div, E::Lit(V::F(0.0)), E::Lit(V::F(0.0)))
                } else if *f == f64::INFINITY {
                    bin(Op::Div, E::Lit(V::F(1.0)), E::Lit(V::F(0.0)))
                } else if *f == f64::NEG_INFINITY {
                    bin(
                        Op::Div,
                        E::Neg(1, Box::new(E::Lit(V::F(1.0)))),
                        E::Lit(V::F(0.0)),
                    )
                } else if f.is_sign_negative() {
                    E::Neg(1, Box::new(E::Lit(V::F(-*f))))
                } else {
                    E::Lit(V::F(*f))
                }
            }
            V::UInt(_) | V::Bool(_) | V::Str(_) | V::Bytes(_) | V::Null => E::Lit(v.clone()),
            V::List(l) => E::List(l.iter().map(E::from_value).collect()),
            V::Map(m) => E::Map(
                m.iter()
                    .map(|(k, x)| (E::Lit(V::Str(k.clone())), E::from_value(x)))
                    .collect(),
            ),
            V::Type(t) => match t.as_str() {
                "null" => var("null_type"),
                "list" => call("type", vec![E::List(vec![])]),
                "map" => call("type", vec![E::Map(vec![])]),
                other => var(other),
            },
            V::Ts(s, n) => {
                let base = call("timestamp", vec![E::from_value(&V::Int(*s))]);
                if *n == 0 {
                    base
                } else {
                    bin(
                        Op::Add,
                        base,
                        call("duration", vec![ilit(0), ilit(*n as i64)]),
                    )
                }
            }
            V::Dur(n) => {
                let secs = n.div_euclid(1_000_000_000) as i64;
                let nanos = n.rem_euclid(1_000_000_000) as i64;
                if nanos == 0 {
                    call("duration", vec![E::from_value(&V::Int(secs))])
                } else {
                    call("duration", vec![E::from_value(&V::Int(secs)), ilit(nanos)])
                }
            }
        }
    }

    pub fn prec(&self) -> u8 {
        match self {
            E::Tern(..) | E::Match(..) => 0,
            E::Bin(op, ..) => op.prec(),
            E::Not(..) | E::Neg(..) => 6,
            _ => 7,
        }
    }

    pub fn size(&self) -> usize {
        let mut n = 0;
        self.walk(&mut |_| n += 1);
        n
    }

    pub fn depth(&self) -> usize {
        let mut d = 0;
        for c in self.children() {
            d = d.max(c.depth());
        }
        d + 1
    }

    pub fn children(&self) -> Vec<&E> {
        match self {
            E::Lit(_) | E::Var(_) => vec![],
            E::Not(_, e) | E::Neg(_, e) => vec![e],
            E::Bin(_, a, b) => vec![a, b],
            E::Tern(a, b, c) => vec![a, b, c],
            E::List(l) => l.iter().collect(),
            E::Map(m) => m.iter().flat_map(|(k, v)| [k, v]).collect(),
            E::Index(a, b) => vec![a, b],
            E::Field(a, _) => vec![a],
            E::Call(f, args) => {
                let mut v: Vec<&E> = vec![f];
                v.extend(args.iter());
                v
            }
            E::FStr(segs) => segs
                .iter()
                .filter_map(|s| match s {
                    FSeg::Expr(e) => Some(e),
                    _ => None,
                })
                .collect(),
            E::Match(s, cases) => {
                let mut v: Vec<&E> = vec![s];
                for (p, e) in cases {
                    if let Pat::Cmp(_, pe) = p {
                        v.push(pe);
                    }
                    v.push(e);
                }
                v
            }
        }
    }

    pub fn walk(&self, f: &mut impl FnMut(&E)) {
        f(self);
        for c in self.children() {
            c.walk(f);
        }
    }

    /// constructs present, for class histograms
    pub fn constructs(&self) -> BTreeSet<&'static str> {
        let mut s = BTreeSet::new();
        self.walk(&mut |e| {
            s.insert(match e {
                E::Lit(_) => "lit",
                E::Var(_) => "var",
                E::Not(..) => "not",
                E::Neg(..) => "neg",
                E::Bin(Op::Or, ..) => "or",
                E::Bin(Op::And, ..) => "and",
                E::Bin(Op::In, ..) => "in",
                E::Bin(op, ..) if op.prec() == 3 => "rel",
                E::Bin(..) => "arith",
                E::Tern(..) => "ternary",
                E::List(_) => "list",
                E::Map(_) => "map",
                E::Index(..) => "index",
                E::Field(..) => "field",
                E::Call(..) => "call",
                E::FStr(_) => "fstring",
                E::Match(..) => "match",
            });
        });
        s
    }
}

// ---------------------------------------------------------------------------
// Rendering

#[derive(Clone, Copy, Debug, PartialEq, Eq)]
pub enum Parens {
    Minimal,
    Full,
    Random,
}

#[derive(Clone, Copy, Debug, PartialEq, Eq)]
pub enum Space {
    Tight,
    Single,
    Random,
}

pub fn atom_text(v: &V) -> String {
    match v {
        V::Int(i) => format!("{}", i),
        V::UInt(u) => format!("{}u", u),
        V::F(f) => {
            let s = format!("{:?}", f);
            if s.contains('.') || s.contains('e') || s.contains("inf") || s.contains("NaN") {
                s
            } else {
                format!("{}.0", s)
            }
        }
        V::Bool(b) => format!("{}", b),
        V::Str(s) => str_lit(s),
        V::Bytes(b) => bytes_lit(b),
        V::Null => "null".to_string(),
        other => other.lit().unwrap_or_else(|| "null".to_string()),
    }
}

pub struct Renderer<'a, 'g> {
    pub parens: Parens,
    pub g: Option<&'a mut G<'g>>,
    pub toks: Vec<String>,
}

impl<'a, 'g> Renderer<'a, 'g> {
    fn extra(&mut self) -> bool {
        match self.parens {
            Parens::Minimal => false,
            Parens::Full => true,
            Parens::Random => self.g.as_mut().map(|g| g.chance(64)).unwrap_or(false),
        }
    }

    fn t(&mut self, s: &str) {
        self.toks.push(s.to_string());
    }

    /// render `e` where the grammar requires at least precedence `min`
    pub fn expr(&mut self, e: &E, min: u8) {
        let compound = !matches!(e, E::Lit(_) | E::Var(_));
        let need = e.prec() < min;
        let wrap = need || (compound && self.extra()) || (!compound && self.parens == Parens::Random && self.extra() && self.extra());
        if wrap {
            self.t("(");
            self.inner(e);
            self.t(")");
        } else {
            self.inner(e);
        }
    }

    fn list(&mut self, items: &[E]) {
        for (i, x) in items.iter().enumerate() {
            if i > 0 {
                self.t(",");
            }
            self.expr(x, 0);
        }
    }

    fn inner(&mut self, e: &E) {
        match e {
            E::Lit(v) => {
                let s = atom_text(v);
                self.t(&s);
            }
            E::Var(n) => self.t(n),
            E::Not(n, x) => {
                for _ in 0..*n {
                    self.t("!");
                }
                self.expr(x, 7);
            }
            E::Neg(n, x) => {
                for _ in 0..*n {
                    self.t("-");
                }
                self.expr(x, 7);
            }
            E::Bin(op, a, b) => {
                let p = op.prec();
                self.expr(a, p);
                self.t(op.sym());
                self.expr(b, p + 1);
            }
            E::Tern(c, a, b) => {
                self.expr(c, 1);
                self.t("?");
                self.expr(a, 1);
                self.t(":");
                self.expr(b, 0);
            }
            E::List(l) => {
                self.t("[");
                self.list(l);
                self.t("]");
            }
            E::Map(m) => {
                self.t("{");
                for (i, (k, v)) in m.iter().enumerate() {
                    if i > 0 {
                        self.t(",");
                    }
                    self.expr(k, 0);
                    self.t(":");
                    self.expr(v, 0);
                }
                self.t("}");
            }
            E::Index(a, i) => {
                self.postfix_base(a);
                self.t("[");
                self.expr(i, 0);
                self.t("]");
            }
            E::Field(a, f) => {
                self.postfix_base(a);
                self.t(".");
                self.t(f);
            }
            E::Call(f, args) => {
                self.postfix_base(f);
                self.t("(");
                self.list(args);
                self.t(")");
            }
            E::FStr(segs) => {
                let mut s = String::from("f\"");
                for seg in segs {
                    match seg {
                        FSeg::Lit(l) => {
                            let q = str_lit(l);
                            let body = &q[1..q.len() - 1];
                            s.push_str(&body.replace('{', "{{").replace('}', "}}"));
                        }
                        FSeg::Expr(x) => {
                            s.push('{');
                            s.push_str(&render_min(x));
                            s.push('}');
                        }
                    }
                }
                s.push('"');
                self.t(&s);
            }
            E::Match(s, cases) => {
                self.t("match");
                self.expr(s, 0);
                self.t("{");
                for (i, (p, x)) in cases.iter().enumerate() {
                    if i > 0 {
                        self.t(",");
                    }
                    self.t("case");
                    match p {
                        Pat::Any => self.t("_"),
                        Pat::Type(t) => self.t(t),
                        Pat::Cmp(op, pe) => {
                            if let Some(op) = op {
                                self.t(op.sym());
                            }
                            self.expr(pe, 1);
                        }
                    }
                    self.t(":");
                    self.expr(x, 0);
                }
                self.t("}");
            }
        }
    }

    /// receiver of a postfix operator: numeric literals are always parenthesised so that
    /// `1.f` / `1.0[0]` cannot merge into a different token
    fn postfix_base(&mut self, a: &E) {
        let numeric = matches!(a, E::Lit(V::Int(_)) | E::Lit(V::UInt(_)) | E::Lit(V::F(_)));
        if numeric {
            self.t("(");
            self.inner(a);
            self.t(")");
        } else {
            self.expr(a, 7);
        }
    }
}

fn wordy(c: char) -> bool {
    c.is_ascii_alphanumeric() || c == '_'
}

/// two adjacent tokens would merge into a different token sequence without a separator
pub fn needs_sep(a: &str, b: &str) -> bool {
    let (Some(l), Some(r)) = (a.chars().last(), b.chars().next()) else {
        return false;
    };
    if wordy(l) && wordy(r) {
        return true;
    }
    // `x` then a quoted literal could read as a b'..' / r'..' / f'..' prefix
    if wordy(l) && (r == '"' || r == '\'') {
        return true;
    }
    // `1` `.5`, `a` `.5`
    if (wordy(l) || l == '.') && r == '.' && b.chars().nth(1).map_or(false, |c| c.is_ascii_digit()) {
        return true;
    }
    if l == '.' && r.is_ascii_digit() {
        return true;
    }
    // operator characters that would fuse: `<` `=`, `!` `=`, `=`/`&`/`|` pairs
    matches!((l, r), ('<', '=') | ('>', '=') | ('!', '=') | ('=', '=') | ('&', '&') | ('|', '|'))
}

pub fn join_tokens(toks: &[String], space: Space, mut g: Option<&mut G>) -> String {
    const WS: &[&str] = &["", " ", "  ", "\t", "\n", " \n ", "\n\n", "\t "];
    let mut out = String::new();
    if space == Space::Random {
        if let Some(g) = g.as_mut() {
            out.push_str(g.pick_str(WS));
        }
    }
    for (i, t) in toks.iter().enumerate() {
        if i > 0 {
            let need = needs_sep(&toks[i - 1], t);
            let ws: &str = match space {
                Space::Tight => {
                    if need {
                        " "
                    } else {
                        ""
                    }
                }
                Space::Single => {
                    let p = toks[i - 1].as_str();
                    if need {
                        " "
                    } else if t == "," || t == ")" || t == "]" || t == "." || p == "(" || p == "[" || p == "." || p == "!" || t == "(" || t == "[" {
                        ""
                    } else {
                        " "
                    }
                }
                Space::Random => {
                    let w = g.as_mut().map(|g| g.pick_str(WS)).unwrap_or(" ");
                    if need && w.is_empty() {
                        " "
                    } else {
                        w
                    }
                }
            };
            out.push_str(ws);
        }
        out.push_str(t);
    }
    if space == Space::Random {
        if let Some(g) = g.as_mut() {
            out.push_str(g.pick_str(WS));
        }
    }
    out
}

pub fn tokens_of(e: &E, parens: Parens, g: Option<&mut G>) -> Vec<String> {
    let mut r = Renderer {
        parens,
        g,
        toks: Vec::new(),
    };
    r.expr(e, 0);
    r.toks
}

pub fn render_min(e: &E) -> String {
    join_tokens(&tokens_of(e, Parens::Minimal, None), Space::Single, None)
}

pub fn render(e: &E, parens: Parens, space: Space, g: &mut G) -> String {
    let toks = tokens_of(e, parens, Some(g));
    join_tokens(&toks, space, Some(g))
}

// ---------------------------------------------------------------------------
// Shape: the span-free vocabulary both the expected tree and rscel's AST are mapped to

#[derive(Clone, Debug, PartialEq)]
pub enum SPat {
    Any,
    Type(String),
    Cmp(String, Shape),
}

#[derive(Clone, Debug, PartialEq)]
pub enum SSeg {
    Lit(String),
    Expr(String),
}

#[derive(Clone, Debug, PartialEq)]
pub enum Shape {
    Tern(Box<Shape>, Box<Shape>, Box<Shape>),
    Match(Box<Shape>, Vec<(SPat, Shape)>),
    Bin(String, Box<Shape>, Box<Shape>),
    Not(usize, Box<Shape>),
    Neg(usize, Box<Shape>),
    Ident(String),
    /// canonical text of the literal value
    Lit(String),
    List(Vec<Shape>),
    Map(Vec<(Shape, Shape)>),
    Field(Box<Shape>, String),
    Index(Box<Shape>, Box<Shape>),
    Call(Box<Shape>, Vec<Shape>),
    FStr(Vec<SSeg>),
}

impl Shape {
    pub fn show(&self) -> String {
        match self {
            Shape::Tern(c, a, b) => format!("(?: {} {} {})", c.show(), a.show(), b.show()),
            Shape::Match(s, cases) => {
                let cs: Vec<String> = cases
                    .iter()
                    .map(|(p, e)| {
                        let ps = match p {
                            SPat::Any => "_".to_string(),
                            SPat::Type(t) => format!("type:{}", t),
                            SPat::Cmp(op, x) => format!("{} {}", op, x.show()),
                        };
                        format!("[{} => {}]", ps, e.show())
                    })
                    .collect();
                format!("(match {} {})", s.show(), cs.join(" "))
            }
            Shape::Bin(op, a, b) => format!("({} {} {})", op, a.show(), b.show()),
            Shape::Not(n, x) => format!("(not*{} {})", n, x.show()),
            Shape::Neg(n, x) => format!("(neg*{} {})", n, x.show()),
            Shape::Ident(n) => n.clone(),
            Shape::Lit(s) => s.clone(),
            Shape::List(l) => format!("[{}]", l.iter().map(|x| x.show()).collect::<Vec<_>>().join(" ")),
            Shape::Map(m) => format!(
                "{{{}}}",
                m.iter()
                    .map(|(k, v)| format!("{}: {}", k.show(), v.show()))
                    .collect::<Vec<_>>()
                    .join(", ")
            ),
            Shape::Field(a, f) => format!("(. {} {})", a.show(), f),
            Shape::Index(a, i) => format!("(idx {} {})", a.show(), i.show()),
            Shape::Call(f, args) => format!(
                "(call {} {})",
                f.show(),
                args.iter().map(|x| x.show()).collect::<Vec<_>>().join(" ")
            ),
            Shape::FStr(segs) => format!("(fstr {:?})", segs),
        }
    }
}

pub fn to_shape(e: &E) -> Shape {
    match e {
        E::Lit(v) => Shape::Lit(v.canon()),
        E::Var(n) => Shape::Ident(n.clone()),
        E::Not(n, x) => Shape::Not(*n as usize, Box::new(to_shape(x))),
        E::Neg(n, x) => Shape::Neg(*n as usize, Box::new(to_shape(x))),
        E::Bin(op, a, b) => Shape::Bin(op.sym().to_string(), Box::new(to_shape(a)), Box::new(to_shape(b))),
        E::Tern(c, a, b) => Shape::Tern(Box::new(to_shape(c)), Box::new(to_shape(a)), Box::new(to_shape(b))),
        E::List(l) => Shape::List(l.iter().map(to_shape).collect()),
        E::Map(m) => Shape::Map(m.iter().map(|(k, v)| (to_shape(k), to_shape(v))).collect()),
        E::Index(a, i) => Shape::Index(Box::new(to_shape(a)), Box::new(to_shape(i))),
        E::Field(a, f) => Shape::Field(Box::new(to_shape(a)), f.clone()),
        E::Call(f, args) => Shape::Call(Box::new(to_shape(f)), args.iter().map(to_shape).collect()),
        E::FStr(segs) => Shape::FStr(
            segs.iter()
                .map(|s| match s {
                    FSeg::Lit(l) => SSeg::Lit(l.clone()),
                    FSeg::Expr(x) => SSeg::Expr(render_min(x)),
                })
                .collect(),
        ),
        E::Match(s, cases) => Shape::Match(
            Box::new(to_shape(s)),
            cases
                .iter()
                .map(|(p, x)| {
                    let sp = match p {
                        Pat::Any => SPat::Any,
                        Pat::Type(t) => SPat::Type(t.clone()),
                        Pat::Cmp(op, pe) => SPat::Cmp(op.map(|o| o.sym()).unwrap_or("==").to_string(), to_shape(pe)),
                    };
                    (sp, to_shape(x))
                })
                .collect(),
        ),
    }
}

// ---------------------------------------------------------------------------
// Free identifiers

pub const MACROS_WITH_VAR: &[(&str, usize)] = &[
    ("all", 1),
    ("exists", 1),
    ("exists_one", 1),
    ("filter", 1),
    ("map", 1),
    ("reduce", 2),
];

/// Identifiers the expression may read as variables: every `Var` occurrence that is not a
/// macro's loop-variable declaration and is not bound by an enclosing macro body, excluding
/// callee names in call position (`f(..)`) and member names.
pub fn free_vars(e: &E) -> BTreeSet<String> {
    let mut out = BTreeSet::new();
    fv(e, &mut Vec::new(), &mut out);
    out
}

fn fv(e: &E, bound: &mut Vec<String>, out: &mut BTreeSet<String>) {
    match e {
        E::Var(n) => {
            if !bound.contains(n) {
                out.insert(n.clone());
            }
        }
        E::Call(f, args) => {
            // macro method call with loop variables?
            if let E::Field(recv, name) = f.as_ref() {
                if let Some((_, nvars)) = MACROS_WITH_VAR.iter().find(|(m, _)| m == name) {
                    fv(recv, bound, out);
                    let mut names = Vec::new();
                    for a in args.iter().take(*nvars) {
                        if let E::Var(v) = a {
                            names.push(v.clone());
                        }
                    }
                    if names.len() == *nvars && args.len() > *nvars {
                        if name == "reduce" {
                            // reduce(acc, x, step, seed): seed is evaluated outside the loop scope
                            let n0 = bound.len();
                            bound.extend(names);
                            if let Some(step) = args.get(2) {
                                fv(step, bound, out);
                            }
                            bound.truncate(n0);
                            for a in args.iter().skip(3) {
                                fv(a, bound, out);
                            }
                        } else {
                            let n0 = bound.len();
                            bound.extend(names);
                            for a in args.iter().skip(*nvars) {
                                fv(a, bound, out);
                            }
                            bound.truncate(n0);
                        }
                        return;
                    }
                }
                fv(recv, bound, out);
            } else if let E::Var(_) = f.as_ref() {
                // free call: the callee name is a function/macro/type, not a variable
            } else {
                fv(f, bound, out);
            }
            for a in args {
                fv(a, bound, out);
            }
        }
        other => {
            for c in other.children() {
                fv(c, bound, out);
            }
        }
    }
}
