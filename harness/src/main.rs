//! rscel-verif: property-based checks for 1BADragon/rscel.
//!
//!   rscel-verif check <ID> [--tier quick|thorough] [--seed N] [--replay FILE]
//!   rscel-verif part  <ID> --tier T --seed N --profile dbg      (internal)
//!   rscel-verif child <json>                                      (internal, isolated runs)
//!   rscel-verif list


use rscel_verif::{child, engine, props};
use rscel_verif::engine::{Acc, Opts, Report, Tier};
use std::time::{Duration, Instant};

fn arg_val(args: &[String], name: &str) -> Option<String> {
    args.iter()
        .position(|a| a == name)
        .and_then(|i| args.get(i + 1).cloned())
}

fn parse_opts(id: &str, args: &[String]) -> Opts {
    let tier = arg_val(args, "--tier")
        .or_else(|| std::env::var("VERIF_TIER").ok())
        .unwrap_or_else(|| "quick".to_string());
    let tier = if tier == "thorough" {
        Tier::Thorough
    } else {
        Tier::Quick
    };
    let seed = arg_val(args, "--seed")
        .or_else(|| std::env::var("VERIF_SEED").ok())
        .and_then(|s| s.trim().parse::<i64>().ok())
        .map(|v| v as u64)
        .unwrap_or(0);
    let profile = arg_val(args, "--profile").unwrap_or_else(|| {
        if cfg!(debug_assertions) {
            "dbg".to_string()
        } else {
            "release".to_string()
        }
    });
    let threads = std::env::var("VERIF_THREADS")
        .ok()
        .and_then(|s| s.parse().ok())
        .unwrap_or_else(|| {
            std::thread::available_parallelism()
                .map(|n| n.get())
                .unwrap_or(4)
                .min(16)
        });
    Opts {
        id: id.to_string(),
        tier,
        seed,
        profile,
        threads,
    }
}

/// Run `f` on a big-stack worker and watch for progress; a stall is "inconclusive" (exit 2).
fn with_watchdog<T: Send + 'static>(
    label: &str,
    stall_s: u64,
    total_s: u64,
    f: impl FnOnce() -> T + Send + 'static,
) -> T {
    let h = std::thread::Builder::new()
        .stack_size(engine::BIG_STACK)
        .spawn(f)
        .expect("spawn worker");
    let start = Instant::now();
    let mut last_tick = engine::progress_ticks();
    let mut last_change = Instant::now();
    loop {
        if h.is_finished() {
            return match h.join() {
                Ok(v) => v,
                Err(_) => {
                    println!("INCONCLUSIVE: {} worker panicked outside a guarded region", label);
                    std::process::exit(2);
                }
            };
        }
        std::thread::sleep(Duration::from_millis(20));
        let t = engine::progress_ticks();
        if t != last_tick {
            last_tick = t;
            last_change = Instant::now();
        }
        if last_change.elapsed().as_secs() > stall_s || start.elapsed().as_secs() > total_s {
            println!(
                "INCONCLUSIVE: {} watchdog (no progress for {}s / total {}s)",
                label,
                last_change.elapsed().as_secs(),
                start.elapsed().as_secs()
            );
            std::process::exit(2);
        }
    }
}

fn main() {
    let args: Vec<String> = std::env::args().collect();
    if args.len() < 2 {
        eprintln!("usage: rscel-verif check|part|child|list ...");
        std::process::exit(2);
    }
    engine::install_panic_hook();
    match args[1].as_str() {
        "list" => {
            for p in props::all() {
                println!("{}", p.id);
            }
        }
        "child" => {
            let spec = args.get(2).cloned().unwrap_or_default();
            child::child_main(&spec);
        }
        "part" => {
            let id = args.get(2).cloned().unwrap_or_default();
            let opts = parse_opts(&id, &args);
            let prop = props::find(&id).unwrap_or_else(|| {
                eprintln!("unknown property {}", id);
                std::process::exit(2);
            });
            let o2 = opts.clone();
            let acc = with_watchdog(&id, 600, 6 * 3600, move || {
                let mut acc = Acc::new(&o2.id);
                (prop.run)(&o2, &mut acc);
                acc
            });
            println!("<<<ACC{}ACC>>>", serde_json::to_string(&acc).unwrap());
        }
        "check" => {
            let id = args.get(2).cloned().unwrap_or_default();
            let opts = parse_opts(&id, &args);
            let prop = props::find(&id).unwrap_or_else(|| {
                eprintln!("unknown property {}", id);
                std::process::exit(2);
            });
            let start = Instant::now();
            if let Some(path) = arg_val(&args, "--replay") {
                let body = std::fs::read_to_string(&path).unwrap_or_else(|e| {
                    eprintln!("cannot read {}: {}", path, e);
                    std::process::exit(2);
                });
                let v: serde_json::Value = serde_json::from_str(&body).unwrap_or_else(|e| {
                    eprintln!("cannot parse {}: {}", path, e);
                    std::process::exit(2);
                });
                let o2 = opts.clone();
                // replay and regression files wrap the case in a `detail` object
                let detail = v.get("detail").cloned().unwrap_or(v);
                let acc = with_watchdog(&id, 300, 3600, move || {
                    let mut acc = Acc::new(&o2.id);
                    (prop.replay)(&o2, &detail, &mut acc);
                    acc
                });
                if !acc.inconclusive.is_empty() || acc.evaluations == 0 {
                    for i in &acc.inconclusive {
                        println!("INCONCLUSIVE: {}", i);
                    }
                    if acc.evaluations == 0 {
                        println!("INCONCLUSIVE: the replay file did not lead to any evaluation");
                    }
                    std::process::exit(2);
                }
                // replay is strict: known findings are reported as such, everything else
                // as a violation pointing back at the same file
                let mut code = 0;
                for (sig, _) in &acc.known_hits {
                    if let Some(k) = engine::known_open(&id, sig) {
                        println!("KNOWN-FINDING: property={} {} [{}]", id, k.what, k.key);
                    }
                }
                for f in &acc.fails {
                    println!("VIOLATION property={} replay={}", id, path);
                    println!("  sig={} :: {}", f.sig, f.what);
                    println!("  {}", f.detail);
                    code = 1;
                }
                if code == 0 {
                    println!("{} replay: property held on {}", id, path);
                }
                std::process::exit(code);
            }
            let o2 = opts.clone();
            let both = (prop.both_profiles)(&opts);
            let acc = with_watchdog(&id, 600, 8 * 3600, move || {
                let mut acc = Acc::new(&o2.id);
                // regressions first: saved minimal cases, bypassing the generators
                props::replay_regressions(prop, &o2, &mut acc);
                (prop.run)(&o2, &mut acc);
                if both {
                    engine::merge_profile_part(&mut acc, &o2, "dbg", 4 * 3600);
                }
                acc
            });
            let report = Report {
                rule: prop.rule,
                assumptions: prop.assumptions.iter().map(|s| s.to_string()).collect(),
                exhaustive: false,
            };
            let code = engine::finish(&acc, &opts, &report, start.elapsed().as_secs_f64());
            std::process::exit(code);
        }
        other => {
            eprintln!("unknown command {}", other);
            std::process::exit(2);
        }
    }
}
