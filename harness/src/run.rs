//! Thin wrappers around the public rscel API: compile, bind, execute, classify.

use crate::engine::{guard, PanicInfo};
use crate::val::V;
use rscel::{BindContext, CelContext, CelError, CelValue, Program};

#[derive(Clone, Debug)]
pub enum Res {
    Ok(CelValue),
    Err(CelError),
    Panic(PanicInfo),
}

#[derive(Clone, Copy, Debug, PartialEq, Eq)]
pub enum Stage {
    Compile,
    Exec,
}

#[derive(Clone, Debug)]
pub struct RunOut {
    pub stage: Stage,
    pub res: Res,
}

pub fn err_class(e: &CelError) -> &'static str {
    match e {
        CelError::Misc(_) => "Misc",
        CelError::Syntax(_) => "Syntax",
        CelError::Value(_) => "Value",
        CelError::Argument(_) => "Argument",
        CelError::InvalidOp(_) => "InvalidOp",
        CelError::Runtime(_) => "Runtime",
        CelError::Binding { .. } => "Binding",
        CelError::Attribute { .. } => "Attribute",
        CelError::DivideByZero => "DivideByZero",
        CelError::Internal(_) => "Internal",
        #[allow(unreachable_patterns)]
        _ => "Other",
    }
}

/// What a result looks like to a caller: a value (canonical text), an error class or a panic.
#[derive(Clone, Debug, PartialEq, Eq)]
pub enum Sum {
    Val(String),
    /// a value that is not part of the language's value domain (error nested in a list,
    /// identifier, bytecode); printed with Debug
    Odd(String),
    Err(String),
    Panic(String),
}

impl Sum {
    pub fn is_fail(&self) -> bool {
        matches!(self, Sum::Err(_))
    }
    pub fn is_panic(&self) -> bool {
        matches!(self, Sum::Panic(_))
    }
    pub fn show(&self) -> String {
        match self {
            Sum::Val(s) => s.clone(),
            Sum::Odd(s) => format!("ODD {}", s),
            Sum::Err(c) => format!("Err({})", c),
            Sum::Panic(p) => format!("PANIC {}", p),
        }
    }
    /// value / failure / panic, ignoring the error class
    pub fn coarse(&self) -> String {
        match self {
            Sum::Err(_) => "Err".to_string(),
            other => other.show(),
        }
    }
}

impl Res {
    pub fn sum(&self) -> Sum {
        match self {
            Res::Ok(v) => match V::from_cel(v) {
                Some(x) => Sum::Val(x.canon()),
                None => Sum::Odd(canon_cel(v)),
            },
            Res::Err(e) => Sum::Err(err_class(e).to_string()),
            Res::Panic(p) => Sum::Panic(format!("{}@{}: {}", p.kind(), p.site(), p.msg)),
        }
    }
    pub fn value(&self) -> Option<V> {
        match self {
            Res::Ok(v) => V::from_cel(v),
            _ => None,
        }
    }
    pub fn panic(&self) -> Option<&PanicInfo> {
        match self {
            Res::Panic(p) => Some(p),
            _ => None,
        }
    }
}

pub fn compile(src: &str) -> Res2<Program> {
    match guard(|| Program::from_source(src)) {
        Ok(Ok(p)) => Res2::Ok(p),
        Ok(Err(e)) => Res2::Err(e),
        Err(p) => Res2::Panic(p),
    }
}

pub enum Res2<T> {
    Ok(T),
    Err(CelError),
    Panic(PanicInfo),
}

pub fn bind_all<'a>(b: &mut BindContext<'a>, binds: &[(String, V)]) {
    for (k, v) in binds {
        b.bind_param(k, v.to_cel());
    }
}

/// Compile `src` as program "main" in a fresh context, bind `binds`, execute.
pub fn eval(src: &str, binds: &[(String, V)]) -> RunOut {
    eval_with(src, binds, &[])
}

/// Same, with additional named programs stored in the context first.
pub fn eval_with(src: &str, binds: &[(String, V)], progs: &[(String, String)]) -> RunOut {
    let mut ctx = CelContext::new();
    for (name, psrc) in progs {
        match guard(|| ctx.add_program_str(name, psrc)) {
            Ok(Ok(())) => {}
            Ok(Err(e)) => {
                return RunOut {
                    stage: Stage::Compile,
                    res: Res::Err(e),
                }
            }
            Err(p) => {
                return RunOut {
                    stage: Stage::Compile,
                    res: Res::Panic(p),
                }
            }
        }
    }
    match guard(|| ctx.add_program_str("main", src)) {
        Ok(Ok(())) => {}
        Ok(Err(e)) => {
            return RunOut {
                stage: Stage::Compile,
                res: Res::Err(e),
            }
        }
        Err(p) => {
            return RunOut {
                stage: Stage::Compile,
                res: Res::Panic(p),
            }
        }
    }
    let mut b = BindContext::new();
    bind_all(&mut b, binds);
    let res = match guard(|| ctx.exec("main", &b)) {
        Ok(Ok(v)) => Res::Ok(v),
        Ok(Err(e)) => Res::Err(e),
        Err(p) => Res::Panic(p),
    };
    RunOut {
        stage: Stage::Exec,
        res,
    }
}

pub fn exec_prog(prog: &Program, binds: &[(String, V)]) -> Res {
    let mut ctx = CelContext::new();
    ctx.add_program("main", prog.clone());
    let mut b = BindContext::new();
    bind_all(&mut b, binds);
    match guard(|| ctx.exec("main", &b)) {
        Ok(Ok(v)) => Res::Ok(v),
        Ok(Err(e)) => Res::Err(e),
        Err(p) => Res::Panic(p),
    }
}

pub fn binds_json(binds: &[(String, V)]) -> serde_json::Value {
    let mut m = serde_json::Map::new();
    for (k, v) in binds {
        m.insert(k.clone(), serde_json::Value::String(v.canon()));
    }
    serde_json::Value::Object(m)
}

/// Canonical text of any CelValue, including the ones outside the language's value domain
/// (error values nested in containers, identifiers, bytecode): map keys sorted, errors by
/// variant only.
pub fn canon_cel(v: &CelValue) -> String {
    match v {
        CelValue::List(l) => format!("[{}]", l.iter().map(canon_cel).collect::<Vec<_>>().join(", ")),
        CelValue::Map(m) => {
            let mut ks: Vec<&String> = m.keys().collect();
            ks.sort();
            format!(
                "{{{}}}",
                ks.iter().map(|k| format!("{:?}: {}", k, canon_cel(&m[*k]))).collect::<Vec<_>>().join(", ")
            )
        }
        CelValue::Err(e) => format!("Err({})", err_class(e)),
        other => match V::from_cel(other) {
            Some(x) => x.canon(),
            None => format!("{:?}", other),
        },
    }
}
