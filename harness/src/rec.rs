//! Execution with call-recording bound functions (laziness is observed through the log).

use crate::engine::guard;
use crate::model::FnResult;
use crate::run::{bind_all, Res, RunOut, Stage};
use crate::val::V;
use rscel::{BindContext, CelContext, CelError, CelValue};
use std::cell::RefCell;
use std::rc::Rc;
use std::collections::BTreeMap;

pub struct Recorded {
    pub out: RunOut,
    /// names of the recording functions in the order they were called
    pub log: Vec<String>,
    /// the caller's bindings after execution: name -> canonical value (None = unbound),
    /// for every bound name and the usual loop-variable names
    pub params_after: BTreeMap<String, Option<String>>,
}

/// Compile `src` (plus stored programs), bind values and recording functions, execute once.
pub fn run_recorded(
    src: &str,
    binds: &[(String, V)],
    progs: &[(String, String)],
    funcs: &BTreeMap<String, FnResult>,
) -> Recorded {
    let log: Rc<RefCell<Vec<String>>> = Rc::new(RefCell::new(Vec::new()));
    let mut ctx = CelContext::new();
    for (name, psrc) in progs.iter().map(|(a, b)| (a.as_str(), b.as_str())).chain([("main", src)]) {
        match guard(|| ctx.add_program_str(name, psrc)) {
            Ok(Ok(())) => {}
            Ok(Err(e)) => {
                return Recorded {
                    out: RunOut { stage: Stage::Compile, res: Res::Err(e) },
                    log: vec![],
                    params_after: BTreeMap::new(),
                }
            }
            Err(p) => {
                return Recorded {
                    out: RunOut { stage: Stage::Compile, res: Res::Panic(p) },
                    log: vec![],
                    params_after: BTreeMap::new(),
                }
            }
        }
    }
    let closures: Vec<(String, Box<dyn Fn(CelValue, Vec<CelValue>) -> CelValue>)> = funcs
        .iter()
        .map(|(name, r)| {
            let n = name.clone();
            let r = r.clone();
            let log = log.clone();
            let f: Box<dyn Fn(CelValue, Vec<CelValue>) -> CelValue> = Box::new(move |_this, args| {
                let texts: Vec<String> = args.iter().map(crate::run::canon_cel).collect();
                log.borrow_mut().push(crate::model::log_entry(&n, &texts));
                match &r {
                    FnResult::Val(v) => v.to_cel(),
                    FnResult::Fail => CelValue::from_err(CelError::Value("recording function fails".into())),
                    FnResult::Echo => args.into_iter().next().unwrap_or(CelValue::Null),
                }
            });
            (name.clone(), f)
        })
        .collect();
    let mut params_after = BTreeMap::new();
    let res = {
        let mut b = BindContext::new();
        bind_all(&mut b, binds);
        for (name, f) in &closures {
            b.bind_func(name, f.as_ref());
        }
        let r = match guard(|| ctx.exec("main", &b)) {
            Ok(Ok(v)) => Res::Ok(v),
            Ok(Err(e)) => Res::Err(e),
            Err(p) => Res::Panic(p),
        };
        for name in binds.iter().map(|(k, _)| k.as_str()).chain(["x", "e", "it", "acc", "k", "v"]) {
            params_after.insert(name.to_string(), b.get_param(name).map(crate::run::canon_cel));
        }
        r
    };
    drop(closures);
    let calls: Vec<String> = log.borrow().clone();
    Recorded {
        out: RunOut { stage: Stage::Exec, res },
        log: calls,
        params_after,
    }
}
