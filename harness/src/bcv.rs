//! Static well-formedness verifier for emitted bytecode (C10): abstract interpretation of
//! one block over stack heights, all successor edges followed, recursive on nested blocks.

use rscel::{ByteCode, CelValue};

#[derive(Default, Debug, Clone)]
pub struct Stats {
    pub blocks: usize,
    pub instructions: usize,
    pub jumps: usize,
    pub max_height: i64,
    pub nested_depth: usize,
}

/// prefix of the error returned for an instruction the verifier does not know: callers skip the
/// program instead of reporting it
pub const UNKNOWN_OPCODE: &str = "unknown-opcode ";

/// (values required on the stack, net effect)
fn effect(b: &ByteCode) -> (i64, i64) {
    use ByteCode::*;
    match b {
        Push(_) => (0, 1),
        Pop => (1, -1),
        Test => (1, 0),
        Dup => (1, 1),
        Not | Neg => (1, 0),
        Or | And | Add | Sub | Mul | Div | Mod | Lt | Le | Eq | Ne | Ge | Gt | In => (2, -1),
        Jmp(_) => (0, 0),
        JmpCond { .. } => (1, -1),
        MkList(n) => (*n as i64, 1 - *n as i64),
        MkDict(n) => (2 * *n as i64, 1 - 2 * *n as i64),
        Index | Access => (2, -1),
        Call(n) => (*n as i64 + 1, -(*n as i64)),
        FmtString(n) => (*n as i64, 1 - *n as i64),
        // an instruction this verifier does not know (added later): nothing can be said
        #[allow(unreachable_patterns)]
        _ => (i64::MIN, 0),
    }
}

pub fn verify(block: &[ByteCode]) -> Result<Stats, String> {
    let mut st = Stats::default();
    verify_block(block, 0, &mut st, "top")?;
    Ok(st)
}

fn verify_block(block: &[ByteCode], depth: usize, st: &mut Stats, path: &str) -> Result<(), String> {
    st.blocks += 1;
    st.instructions += block.len();
    st.nested_depth = st.nested_depth.max(depth);
    let len = block.len();
    if len == 0 {
        return Err(format!("{}: empty block leaves no value", path));
    }
    // height[pc] = stack height on entry to pc (pc == len is the exit)
    let mut height: Vec<Option<i64>> = vec![None; len + 1];
    height[0] = Some(0);
    let mut work = vec![0usize];
    let set = |height: &mut Vec<Option<i64>>, work: &mut Vec<usize>, pc: usize, h: i64, from: usize| -> Result<(), String> {
        match height[pc] {
            None => {
                height[pc] = Some(h);
                work.push(pc);
                Ok(())
            }
            Some(old) if old == h => Ok(()),
            Some(old) => Err(format!(
                "{}: paths meeting at pc {} disagree on the stack height ({} vs {} coming from pc {})",
                path, pc, old, h, from
            )),
        }
    };
    while let Some(pc) = work.pop() {
        if pc == len {
            continue;
        }
        let h = height[pc].unwrap();
        let ins = &block[pc];
        let (need, eff) = effect(ins);
        if need == i64::MIN {
            return Err(format!("{}{}: pc {} ({:?})", UNKNOWN_OPCODE, path, pc, ins));
        }
        if h < need {
            return Err(format!(
                "{}: pc {} ({:?}) needs {} value(s) but a path arrives with {}",
                path, pc, ins, need, h
            ));
        }
        let nh = h + eff;
        st.max_height = st.max_height.max(nh);
        let next = pc + 1;
        let target = |dist: i32| -> Result<usize, String> {
            if dist < 0 {
                return Err(format!("{}: pc {} jumps backwards ({}); control flow must be loop-free", path, pc, dist));
            }
            let t = next as i64 + dist as i64;
            if t > len as i64 {
                return Err(format!("{}: pc {} jumps to {} beyond the end of the block ({})", path, pc, t, len));
            }
            Ok(t as usize)
        };
        match ins {
            ByteCode::Jmp(d) => {
                st.jumps += 1;
                let t = target(*d)?;
                set(&mut height, &mut work, t, nh, pc)?;
            }
            ByteCode::JmpCond { dist, .. } => {
                st.jumps += 1;
                let t = target(*dist)?;
                set(&mut height, &mut work, t, nh, pc)?;
                set(&mut height, &mut work, next, nh, pc)?;
            }
            ByteCode::Push(CelValue::ByteCode(inner)) => {
                let v: Vec<ByteCode> = inner.iter().cloned().collect();
                verify_block(&v, depth + 1, st, &format!("{}/pc{}", path, pc))?;
                set(&mut height, &mut work, next, nh, pc)?;
            }
            _ => set(&mut height, &mut work, next, nh, pc)?,
        }
    }
    match height[len] {
        Some(1) => Ok(()),
        Some(h) => Err(format!("{}: block ends with {} values on the stack instead of exactly one", path, h)),
        None => Err(format!("{}: the end of the block is unreachable", path)),
    }
}

pub fn count_jumps(block: &[ByteCode]) -> usize {
    block
        .iter()
        .map(|b| match b {
            ByteCode::Jmp(_) | ByteCode::JmpCond { .. } => 1,
            ByteCode::Push(CelValue::ByteCode(inner)) => {
                let v: Vec<ByteCode> = inner.iter().cloned().collect();
                count_jumps(&v)
            }
            _ => 0,
        })
        .sum()
}

pub fn has_nested(block: &[ByteCode]) -> bool {
    block.iter().any(|b| matches!(b, ByteCode::Push(CelValue::ByteCode(_))))
}
