//! Harness-side value domain `V`, boundary pools, conversion to/from `CelValue`,
//! canonical printing and rendering as CEL source.

use crate::g::G;
use chrono::{DateTime, TimeZone, Utc};
use rscel::CelValue;
use std::collections::{BTreeMap, HashMap};

#[derive(Clone, Debug)]
pub enum V {
    Int(i64),
    UInt(u64),
    F(f64),
    Bool(bool),
    Str(String),
    Bytes(Vec<u8>),
    List(Vec<V>),
    Map(BTreeMap<String, V>),
    Null,
    Type(String),
    /// seconds since the epoch and sub-second nanoseconds (0..1e9)
    Ts(i64, u32),
    /// total nanoseconds
    Dur(i128),
}

pub const TS_MIN_S: i64 = -8334601228800; // chrono DateTime::<Utc>::MIN_UTC
pub const TS_MAX_S: i64 = 8210266876799; // chrono DateTime::<Utc>::MAX_UTC
pub const DUR_MAX_MS: i128 = i64::MAX as i128; // chrono::Duration::MAX is i64::MAX milliseconds

impl V {
    pub fn s(x: &str) -> V {
        V::Str(x.to_string())
    }

    pub fn type_name(&self) -> &'static str {
        match self {
            V::Int(_) => "int",
            V::UInt(_) => "uint",
            V::F(_) => "float",
            V::Bool(_) => "bool",
            V::Str(_) => "string",
            V::Bytes(_) => "bytes",
            V::List(_) => "list",
            V::Map(_) => "map",
            V::Null => "null",
            V::Type(_) => "type",
            V::Ts(..) => "timestamp",
            V::Dur(_) => "duration",
        }
    }

    pub fn is_numeric(&self) -> bool {
        matches!(self, V::Int(_) | V::UInt(_) | V::F(_))
    }

    pub fn has_nan(&self) -> bool {
        match self {
            V::F(f) => f.is_nan(),
            V::List(l) => l.iter().any(|x| x.has_nan()),
            V::Map(m) => m.values().any(|x| x.has_nan()),
            _ => false,
        }
    }

    pub fn to_cel(&self) -> CelValue {
        match self {
            V::Int(i) => CelValue::Int(*i),
            V::UInt(u) => CelValue::UInt(*u),
            V::F(f) => CelValue::Float(*f),
            V::Bool(b) => CelValue::Bool(*b),
            V::Str(s) => CelValue::String(s.clone()),
            V::Bytes(b) => CelValue::from_bytes(b.clone()),
            V::List(l) => CelValue::List(l.iter().map(|x| x.to_cel()).collect()),
            V::Map(m) => {
                let mut h = HashMap::new();
                for (k, v) in m {
                    h.insert(k.clone(), v.to_cel());
                }
                CelValue::Map(h)
            }
            V::Null => CelValue::Null,
            V::Type(t) => CelValue::Type(t.clone()),
            V::Ts(s, n) => CelValue::TimeStamp(ts_to_chrono(*s, *n).expect("ts in range")),
            V::Dur(n) => CelValue::Duration(dur_to_chrono(*n).expect("dur in range")),
        }
    }

    pub fn from_cel(c: &CelValue) -> Option<V> {
        Some(match c {
            CelValue::Int(i) => V::Int(*i),
            CelValue::UInt(u) => V::UInt(*u),
            CelValue::Float(f) => V::F(*f),
            CelValue::Bool(b) => V::Bool(*b),
            CelValue::String(s) => V::Str(s.clone()),
            CelValue::Bytes(b) => V::Bytes(b.as_slice().to_vec()),
            CelValue::List(l) => {
                let mut v = Vec::new();
                for x in l {
                    v.push(V::from_cel(x)?);
                }
                V::List(v)
            }
            CelValue::Map(m) => {
                let mut b = BTreeMap::new();
                for (k, x) in m {
                    b.insert(k.clone(), V::from_cel(x)?);
                }
                V::Map(b)
            }
            CelValue::Null => V::Null,
            CelValue::Type(t) => V::Type(t.clone()),
            CelValue::TimeStamp(t) => V::Ts(t.timestamp(), t.timestamp_subsec_nanos()),
            CelValue::Duration(d) => V::Dur(chrono_dur_nanos(d)),
            _ => return None,
        })
    }

    /// Canonical text: map keys sorted, all NaNs one value, -0.0 distinct from 0.0.
    pub fn canon(&self) -> String {
        let mut s = String::new();
        self.canon_into(&mut s);
        s
    }

    fn canon_into(&self, o: &mut String) {
        use std::fmt::Write;
        match self {
            V::Int(i) => {
                let _ = write!(o, "{}", i);
            }
            V::UInt(u) => {
                let _ = write!(o, "{}u", u);
            }
            V::F(f) => o.push_str(&canon_f64(*f)),
            V::Bool(b) => {
                let _ = write!(o, "{}", b);
            }
            V::Str(s) => {
                let _ = write!(o, "{:?}", s);
            }
            V::Bytes(b) => {
                o.push_str("b[");
                for x in b {
                    let _ = write!(o, "{:02x}", x);
                }
                o.push(']');
            }
            V::List(l) => {
                o.push('[');
                for (i, x) in l.iter().enumerate() {
                    if i > 0 {
                        o.push_str(", ");
                    }
                    x.canon_into(o);
                }
                o.push(']');
            }
            V::Map(m) => {
                o.push('{');
                for (i, (k, x)) in m.iter().enumerate() {
                    if i > 0 {
                        o.push_str(", ");
                    }
                    let _ = write!(o, "{:?}: ", k);
                    x.canon_into(o);
                }
                o.push('}');
            }
            V::Null => o.push_str("null"),
            V::Type(t) => {
                let _ = write!(o, "type({})", t);
            }
            V::Ts(s, n) => {
                let _ = write!(o, "ts({}.{:09})", s, n);
            }
            V::Dur(n) => {
                let _ = write!(o, "dur({}ns)", n);
            }
        }
    }

    pub fn same(&self, o: &V) -> bool {
        self.canon() == o.canon()
    }

    /// Render as a constant CEL expression that evaluates to exactly this value, or None
    /// when the value is not expressible (out-of-range time values).
    pub fn lit(&self) -> Option<String> {
        Some(match self {
            V::Int(i) => {
                if *i == i64::MIN {
                    "(-9223372036854775807 - 1)".to_string()
                } else if *i < 0 {
                    format!("(-{})", i.unsigned_abs())
                } else {
                    format!("{}", i)
                }
            }
            V::UInt(u) => format!("{}u", u),
            V::F(f) => f64_lit(*f),
            V::Bool(b) => format!("{}", b),
            V::Str(s) => str_lit(s),
            V::Bytes(b) => bytes_lit(b),
            V::List(l) => {
                let mut parts = Vec::new();
                for x in l {
                    parts.push(x.lit()?);
                }
                format!("[{}]", parts.join(", "))
            }
            V::Map(m) => {
                let mut parts = Vec::new();
                for (k, x) in m {
                    parts.push(format!("{}: {}", str_lit(k), x.lit()?));
                }
                format!("{{{}}}", parts.join(", "))
            }
            V::Null => "null".to_string(),
            V::Type(t) => match t.as_str() {
                "int" | "uint" | "float" | "bool" | "string" | "bytes" | "type" | "timestamp"
                | "duration" | "dyn" => t.clone(),
                "null" => "null_type".to_string(),
                "list" => "type([])".to_string(),
                "map" => "type({})".to_string(),
                _ => return None,
            },
            V::Ts(s, n) => {
                if *n == 0 {
                    format!("timestamp({})", V::Int(*s).lit()?)
                } else {
                    format!("(timestamp({}) + duration(0, {}))", V::Int(*s).lit()?, n)
                }
            }
            V::Dur(n) => {
                let secs = n.div_euclid(1_000_000_000);
                let nanos = n.rem_euclid(1_000_000_000);
                if secs < i64::MIN as i128 || secs > i64::MAX as i128 {
                    return None;
                }
                if nanos == 0 {
                    format!("duration({})", V::Int(secs as i64).lit()?)
                } else {
                    format!("duration({}, {})", V::Int(secs as i64).lit()?, nanos)
                }
            }
        })
    }
}

pub fn canon_f64(f: f64) -> String {
    if f.is_nan() {
        "NaN".to_string()
    } else {
        format!("{:?}", f)
    }
}

pub fn f64_lit(f: f64) -> String {
    if f.is_nan() {
        "(0.0 / 0.0)".to_string()
    } else if f == f64::INFINITY {
        "(1.0 / 0.0)".to_string()
    } else if f == f64::NEG_INFINITY {
        "(-1.0 / 0.0)".to_string()
    } else if f.is_sign_negative() {
        format!("(-{})", pos_f64_lit(-f))
    } else {
        pos_f64_lit(f)
    }
}

fn pos_f64_lit(f: f64) -> String {
    // {:?} is the shortest round-trip form and always contains '.' or 'e'
    let s = format!("{:?}", f);
    if s.contains('.') || s.contains('e') {
        s
    } else {
        format!("{}.0", s)
    }
}

pub fn str_lit(s: &str) -> String {
    let mut o = String::from("\"");
    for c in s.chars() {
        match c {
            '\\' => o.push_str("\\\\"),
            '"' => o.push_str("\\\""),
            '\n' => o.push_str("\\n"),
            '\r' => o.push_str("\\r"),
            '\t' => o.push_str("\\t"),
            c if (c as u32) < 0x20 || c as u32 == 0x7f => o.push_str(&format!("\\x{:02x}", c as u32)),
            c => o.push(c),
        }
    }
    o.push('"');
    o
}

pub fn bytes_lit(b: &[u8]) -> String {
    let mut o = String::from("b\"");
    for x in b {
        if x.is_ascii_alphanumeric() || *x == b' ' {
            o.push(*x as char);
        } else {
            o.push_str(&format!("\\x{:02x}", x));
        }
    }
    o.push('"');
    o
}

pub fn ts_to_chrono(secs: i64, nanos: u32) -> Option<DateTime<Utc>> {
    match Utc.timestamp_opt(secs, nanos) {
        chrono::LocalResult::Single(t) => Some(t),
        _ => None,
    }
}

pub fn dur_to_chrono(nanos: i128) -> Option<chrono::Duration> {
    let secs = nanos.div_euclid(1_000_000_000);
    let n = nanos.rem_euclid(1_000_000_000) as u32;
    if secs < i64::MIN as i128 || secs > i64::MAX as i128 {
        return None;
    }
    chrono::Duration::new(secs as i64, n)
}

pub fn chrono_dur_nanos(d: &chrono::Duration) -> i128 {
    d.num_seconds() as i128 * 1_000_000_000 + d.subsec_nanos() as i128
}

// ---------------------------------------------------------------------------
// Boundary pools

pub fn int_pool() -> Vec<i64> {
    let mut v = vec![
        0,
        1,
        -1,
        2,
        -2,
        3,
        7,
        10,
        -10,
        100,
        (1 << 31) - 1,
        1 << 31,
        (1 << 31) + 1,
        -(1 << 31) - 1,
        -(1 << 31),
        -(1 << 31) + 1,
        (1 << 32) - 1,
        1 << 32,
        (1 << 53) - 1,
        1 << 53,
        (1 << 53) + 1,
        -(1 << 53) - 1,
        -(1 << 53),
        3037000499,
        3037000500,
        -3037000500,
        i64::MAX / 2,
        i64::MAX / 2 + 1,
        i64::MIN / 2,
        i64::MIN / 2 - 1,
        i64::MIN,
        i64::MIN + 1,
        i64::MAX - 1,
        i64::MAX,
    ];
    v.dedup();
    v
}

pub fn uint_pool() -> Vec<u64> {
    vec![
        0,
        1,
        2,
        3,
        10,
        (1 << 31) - 1,
        1 << 31,
        1 << 32,
        (1 << 32) + 1,
        4294967295,
        4294967296,
        (1 << 53) + 1,
        (1 << 63) - 1,
        1 << 63,
        (1 << 63) + 1,
        u64::MAX / 2,
        u64::MAX - 1,
        u64::MAX,
    ]
}

pub fn f64_pool() -> Vec<f64> {
    let mut v = vec![
        0.0,
        f64::from_bits(1), // min subnormal
        f64::MIN_POSITIVE,
        0.49999999999999994,
        0.5,
        1.0,
        1.5,
        2.0,
        2.5,
        3.0,
        10.0,
        0.1,
        1e-7,
        123456.789,
        2147483648.0,
        9007199254740991.0,
        9007199254740992.0,
        9007199254740994.0,
        9223372036854774784.0, // largest double below 2^63
        9223372036854775808.0, // 2^63
        18446744073709549568.0, // largest double below 2^64
        18446744073709551616.0, // 2^64
        1e300,
        f64::MAX,
        f64::INFINITY,
    ];
    let neg: Vec<f64> = v.iter().map(|x| -x).collect();
    v.extend(neg);
    v.push(f64::NAN);
    v
}

pub const STR_ALPHABET: &[&str] = &[
    "a", "b", "A", "B", "z", "0", "9", " ", "\t", "\n", "_", "-", ".", ",", "'", "\"", "\\", "{",
    "}", "(", ")", "$", "é", "ü", "ß", "İ", "ı", "ǅ", "Σ", "ς", "σ", "→", "日", "😀", "\u{0301}",
    "\u{00a0}", "\u{2003}", "aa", "ab",
];

pub fn str_pool() -> Vec<String> {
    [
        "", "a", "b", "ab", "abc", "aaa", "A", "hello world", " ", "  x  ", "é", "héllo", "ß",
        "İ", "Σας", "日本語", "😀", "a😀b", "'", "\"", "\\", "a'b", "{}", "0", "1", "true", "-1",
        "1.5", "\u{0301}", "a\tb\nc", "\u{00a0}x\u{2003}",
    ]
    .iter()
    .map(|s| s.to_string())
    .collect()
}

pub fn bytes_pool() -> Vec<Vec<u8>> {
    vec![
        vec![],
        vec![0],
        vec![0x61],
        vec![0x61, 0x62],
        vec![0x61, 0x62, 0x63],
        vec![0x7f],
        vec![0x80],
        vec![0xff],
        vec![0xff, 0xfe],
        vec![0xc3, 0xa9],
        vec![0xc3],
        vec![0xe2, 0x82],
        vec![0x00, 0xff, 0x00],
    ]
}

pub fn ts_pool() -> Vec<(i64, u32)> {
    vec![
        (0, 0),
        (0, 1),
        (-1, 999_999_999),
        (1, 0),
        (-1, 0),
        (951782400, 0),      // 2000-02-29
        (1704067199, 0),     // 2023-12-31T23:59:59
        (1704067200, 0),     // 2024-01-01
        (1704877065, 123_000_000), // the suite's instant
        (1709164800, 0),     // 2024-02-29
        (1710064799, 0),     // just before US DST start 2024-03-10 (PST)
        (1710064800, 0),
        (1730624399, 0),     // around US DST end 2024-11-03
        (1730624400, 0),
        (-2208988800, 0),    // 1900-01-01
        (253402300799, 0),   // 9999-12-31T23:59:59
        (253402300800, 0),   // year 10000
        (-62135596800, 0),   // 0001-01-01
        (-62167219200, 0),   // 0000-01-01
        (TS_MIN_S, 0),
        (TS_MAX_S, 999_999_999),
        (TS_MAX_S, 0),
    ]
}

pub fn dur_pool() -> Vec<i128> {
    let ms = 1_000_000i128;
    let s = 1_000_000_000i128;
    vec![
        0,
        1,
        -1,
        ms,
        -ms,
        999_999_999,
        s,
        -s,
        s + 500 * ms,
        -(s + 500 * ms),
        60 * s,
        3600 * s,
        -3600 * s,
        86400 * s,
        90061 * s + 123 * ms,
        9223372036854775 * s,       // MAX whole seconds
        -9223372036854775 * s,
        DUR_MAX_MS * ms,            // chrono::Duration::MAX
        -DUR_MAX_MS * ms,
    ]
}

pub const TYPE_NAMES: &[&str] = &[
    "int", "uint", "float", "bool", "string", "bytes", "list", "map", "null", "type", "timestamp",
    "duration",
];

/// One representative of every non-numeric type (for "must fail" clauses).
pub fn misc_pool() -> Vec<V> {
    let mut m = BTreeMap::new();
    m.insert("k".to_string(), V::Int(1));
    vec![
        V::s(""),
        V::s("a"),
        V::Bytes(vec![]),
        V::Bytes(vec![1]),
        V::List(vec![]),
        V::List(vec![V::Int(1)]),
        V::Map(BTreeMap::new()),
        V::Map(m),
        V::Null,
        V::Type("int".into()),
        V::Ts(0, 0),
        V::Dur(1_000_000_000),
    ]
}

// ---------------------------------------------------------------------------
// Random values from a genome (boundary-heavy)

pub fn gen_int(g: &mut G) -> i64 {
    match g.below(4) {
        0 | 1 => {
            let p = int_pool();
            *g.pick(&p)
        }
        2 => g.range(-20, 20),
        _ => g.u64() as i64,
    }
}

pub fn gen_uint(g: &mut G) -> u64 {
    match g.below(4) {
        0 | 1 => {
            let p = uint_pool();
            *g.pick(&p)
        }
        2 => g.below(20) as u64,
        _ => g.u64(),
    }
}

pub fn gen_f64(g: &mut G) -> f64 {
    match g.below(4) {
        0 | 1 => {
            let p = f64_pool();
            *g.pick(&p)
        }
        2 => g.range(-40, 40) as f64 / 4.0,
        _ => f64::from_bits(g.u64()),
    }
}

pub fn gen_string(g: &mut G, max_len: usize) -> String {
    if g.below(3) == 0 {
        let p = str_pool();
        return g.pick(&p).clone();
    }
    let n = g.below(max_len + 1);
    let mut s = String::new();
    for _ in 0..n {
        let p: &&str = g.pick(STR_ALPHABET);
        s.push_str(p);
    }
    s
}

pub fn gen_bytes(g: &mut G, max_len: usize) -> Vec<u8> {
    if g.below(3) == 0 {
        let p = bytes_pool();
        return g.pick(&p).clone();
    }
    let n = g.below(max_len + 1);
    (0..n).map(|_| g.byte()).collect()
}

pub fn gen_ts(g: &mut G) -> (i64, u32) {
    match g.below(3) {
        0 => {
            let p = ts_pool();
            *g.pick(&p)
        }
        1 => {
            // 1900..2100
            let s = -2208988800i64 + (g.u64() % 6311520000) as i64;
            (s, if g.flag() { g.u32() % 1_000_000_000 } else { 0 })
        }
        _ => {
            let span = (TS_MAX_S - TS_MIN_S) as u64;
            let s = TS_MIN_S + (g.u64() % span) as i64;
            (s, g.u32() % 1_000_000_000)
        }
    }
}

pub fn gen_dur(g: &mut G) -> i128 {
    match g.below(3) {
        0 => {
            let p = dur_pool();
            *g.pick(&p)
        }
        1 => g.range(-100_000, 100_000) as i128 * 1_000_000,
        _ => {
            let ms = (g.u64() as i64) as i128;
            ms * 1_000_000 + (g.u32() % 1_000_000) as i128 * if ms < 0 { -1 } else { 1 }
        }
    }
}

pub const KEY_ALPHABET: &[&str] = &["a", "b", "c", "k", "key", "x y", "é", "", "size", "A"];

/// A value of any type; `depth` bounds nesting of lists and maps.
pub fn gen_value(g: &mut G, depth: u32) -> V {
    let kinds = if depth == 0 { 10 } else { 12 };
    match g.below(kinds) {
        0 => V::Int(gen_int(g)),
        1 => V::UInt(gen_uint(g)),
        2 => V::F(gen_f64(g)),
        3 => V::Bool(g.flag()),
        4 => V::Str(gen_string(g, 6)),
        5 => V::Bytes(gen_bytes(g, 6)),
        6 => V::Null,
        7 => V::Type(g.pick(TYPE_NAMES).to_string()),
        8 => {
            let (s, n) = gen_ts(g);
            V::Ts(s, n)
        }
        9 => V::Dur(clamp_dur(gen_dur(g))),
        10 => {
            let n = g.below(4);
            V::List((0..n).map(|_| gen_value(g, depth - 1)).collect())
        }
        _ => {
            let n = g.below(4);
            let mut m = BTreeMap::new();
            for _ in 0..n {
                let k = g.pick(KEY_ALPHABET).to_string();
                m.insert(k, gen_value(g, depth - 1));
            }
            V::Map(m)
        }
    }
}

pub fn clamp_dur(n: i128) -> i128 {
    let max = DUR_MAX_MS * 1_000_000;
    n.clamp(-max, max)
}

impl PartialEq for V {
    fn eq(&self, o: &V) -> bool {
        self.same(o)
    }
}
