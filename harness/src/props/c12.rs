//! C12 — names resolve in a fixed order; program references compose and are depth-bounded.

use super::Prop;
use crate::child::{run_spec, ChildVerdict};
use crate::engine::{guard, par_chunks, random_genomes, Acc, Failure, Opts, Tier};
use crate::g::G;
use crate::run::{canon_cel, err_class};
use crate::val::*;
use rscel::{BindContext, CelContext, CelError, CelValue, RsCelFunction, RsCelMacro};
use serde_json::{json, Value};

pub static PROP: Prop = Prop {
    id: "C12",
    rule: "(A) exhaustive name-collision configurations: a name that is any subset of {built-in type, bound variable, stored \
           program, bound function, bound macro} used in value position and in call position (with a non-constant argument so \
           the call is not folded), and a map field that collides with a method name in member position; each candidate yields \
           a distinguishable value so the winner is visible. (B) rebinding a variable / re-adding a program then re-executing. \
           (C) values bound from JSON vs bound directly (ints, uints above i64::MAX, doubles, strings, nested arrays/objects; \
           grid + random). (D) reference graphs: every directed graph on <= 3 named programs (with self-loops) and sampled \
           4-node graphs, every edge realised through one of 14 referencing constructs (plain identifier, operand, list/map \
           element, call argument, macro range, macro body, has, coalesce, f-string, ?: arm, match arm, index, receiver); \
           acyclic graphs are evaluated in-process against the harness's own substitution value, graphs with a reachable \
           cycle run in an isolated child process and must end in an error; plain chains of length 1..64 (<=16 exact, beyond \
           exact-or-error); a 64-element macro whose body references a program; self and mutual cycles through 1..8 nested \
           macro bodies and through every macro over a map receiver, in children of the unoptimised and the release build \
           on both stack sizes. Non-trivial = >= 2 roles collide on one \
           name, or the graph has a cycle or depth >= 8, or an edge passes through a macro/call/f-string; distinct by \
           configuration.",
    assumptions: &[
        "resolution order as stated: value position type > variable > program; call position function > macro > type constructor; member position field > method",
        "chains longer than 16 may fail (depth bound) but must not produce a different value or abort",
    ],
    run,
    replay,
    both_profiles: super::thorough_both,
};

fn show(r: &Result<Result<CelValue, CelError>, crate::engine::PanicInfo>) -> String {
    match r {
        Ok(Ok(v)) => canon_cel(v),
        Ok(Err(e)) => format!("Err({})", err_class(e)),
        Err(p) => format!("PANIC {}", p.msg),
    }
}

// ---------------------------------------------------------------------------
// (A) name collisions

/// roles a name can have: bit 0 type (only for names that are types), 1 variable, 2 program,
/// 3 function, 4 macro
fn collision_case(name: &str, roles: u32, position: &str) -> (String, String, String) {
    // returns (expected, actual, source)
    let is_type = crate::gen::is_type_name(name);
    let f = |_this: CelValue, _args: Vec<CelValue>| CelValue::from_string("function".into());
    let fref: &RsCelFunction = &f;
    let m: &RsCelMacro = &|_i, _this, _args| CelValue::from_string("macro".into());
    let src = match position {
        "value" => name.to_string(),
        // receiver syntax on a non-map and on a map that has no such field
        "method" => format!("arg.{}()", name),
        "method-map" => format!("mm.{}()", name),
        _ => format!("{}(arg)", name),
    };
    let r = guard(|| {
        let mut ctx = CelContext::new();
        if roles & 4 != 0 {
            ctx.add_program_str(name, "'program'")?;
        }
        ctx.add_program_str("main", &src)?;
        let mut b = BindContext::new();
        b.bind_param("arg", CelValue::from_int(5));
        let mut mm = std::collections::HashMap::new();
        mm.insert("other".to_string(), CelValue::from_int(1));
        b.bind_param("mm", CelValue::Map(mm));
        if roles & 2 != 0 {
            b.bind_param(name, CelValue::from_string("variable".into()));
        }
        if roles & 8 != 0 {
            b.bind_func(name, fref);
        }
        if roles & 16 != 0 {
            b.bind_macro(name, m);
        }
        ctx.exec("main", &b)
    });
    let has_type = is_type;
    let expected = match position {
        "value" => {
            // "a built-in type name, a bound variable, or another program ..., otherwise unbound"
            if has_type {
                match name {
                    "double" | "float" => "type(float)".to_string(),
                    "null_type" => "type(null)".to_string(),
                    n => format!("type({})", n),
                }
            } else if roles & 2 != 0 {
                "\"variable\"".to_string()
            } else if roles & 4 != 0 {
                "\"program\"".to_string()
            } else {
                "Err(Binding)".to_string()
            }
        }
        _ => {
            // "in call position a bound function wins over a macro and a type constructor"
            if roles & 8 != 0 {
                "\"function\"".to_string()
            } else if roles & 16 != 0 {
                "\"macro\"".to_string()
            } else if has_type {
                // the statement orders the constructor only for the plain call form
                if position == "call" { "constructor".to_string() } else { "any".to_string() }
            } else {
                "Err".to_string()
            }
        }
    };
    (expected, show(&r), src)
}

fn constructor_result(name: &str) -> Option<&'static str> {
    // T(5) for the built-in type names, where defined
    Some(match name {
        "int" => "5",
        "uint" => "5u",
        "double" | "float" => "5.0",
        "string" => "\"5\"",
        "dyn" => "5",
        "type" => "type(int)",
        _ => return None,
    })
}

fn check_collisions(acc: &mut Acc) {
    let names = ["int", "uint", "double", "string", "dyn", "type", "bool", "v", "size", "has", "map", "coalesce", "zz"];
    for name in names {
        for roles in 0..32u32 {
            // bit 0 is implied by the name itself
            if roles & 1 != 0 {
                continue;
            }
            for position in ["value", "call", "method", "method-map"] {
                let (expected, actual, src) = collision_case(name, roles, position);
                let nroles = (roles >> 1).count_ones() + crate::gen::is_type_name(name) as u32 + crate::model::is_builtin_name(name) as u32;
                let canon = format!("{} roles={:05b} {}", name, roles, position);
                acc.case("collisions", &canon, nroles >= 2, &format!("collision:{}", position));
                acc.sample(&format!("{}:{}", position, nroles.min(3)), || json!({"name": name, "roles(var,prog,func,macro)": format!("{:04b}", roles >> 1), "source": src, "expected": expected, "actual": actual}));
                let builtin_callable = crate::model::is_builtin_name(name);
                let ok = match expected.as_str() {
                    "Err" => {
                        // not callable at all -- unless the name is a default function/macro, which then
                        // legitimately handles the call
                        builtin_callable || actual.starts_with("Err")
                    }
                    "any" => !actual.starts_with("PANIC"),
                    "constructor" => match constructor_result(name) {
                        Some(c) => actual == c,
                        None => !actual.starts_with("PANIC"),
                    },
                    "\"macro\"" if builtin_callable && crate::props::c17::DEFAULT_FUNCS.contains(&name) => {
                        // a default *function* of that name is a bound function too: it wins over the macro
                        !actual.starts_with("PANIC")
                    }
                    e => actual == e,
                };
                if !ok {
                    acc.fail(Failure::new(
                        format!("c12:collision:{}:{}", position, if crate::gen::is_type_name(name) { "type-name" } else { "plain-name" }),
                        format!("{} with {} bound as [var,prog,func,macro]={:04b}: got {} but the resolution order gives {}", src, name, roles >> 1, actual, expected),
                        json!({"kind": "collision", "name": name, "roles": roles, "position": position}),
                    ));
                }
            }
        }
    }
    acc.mark_exhaustive("collisions", "13 names x all subsets of {variable, program, function, macro} x {value, call, method on a non-map, method on a map} position");
    // member position: a map field wins over a method of the same name
    for field in ["size", "map", "contains", "has", "plain"] {
        let r = guard(|| {
            let mut ctx = CelContext::new();
            ctx.add_program_str("main", &format!("m.{}", field))?;
            let mut b = BindContext::new();
            let mut h = std::collections::HashMap::new();
            h.insert(field.to_string(), CelValue::from_string("field".into()));
            h.insert("other".to_string(), CelValue::from_int(1));
            b.bind_param("m", CelValue::Map(h));
            ctx.exec("main", &b)
        });
        let actual = show(&r);
        // call position: the field still wins, and its value (a string) is not callable
        let rc = guard(|| {
            let mut ctx = CelContext::new();
            let src = match field {
                "size" => "m.size()".to_string(),
                "contains" => "m.contains('x')".to_string(),
                "map" | "has" => format!("m.{}(k, k)", field),
                _ => format!("m.{}()", field),
            };
            ctx.add_program_str("main", &src)?;
            let mut b = BindContext::new();
            let mut h = std::collections::HashMap::new();
            h.insert(field.to_string(), CelValue::from_string("field".into()));
            h.insert("other".to_string(), CelValue::from_int(1));
            b.bind_param("m", CelValue::Map(h));
            ctx.exec("main", &b)
        });
        let called = show(&rc);
        acc.case("collisions", &format!("member call m.{}(..)", field), field != "plain", "collision:member-call");
        if !called.starts_with("Err") {
            acc.fail(Failure::new(
                "c12:collision:member-call:method-wins-over-field",
                format!("m.{}(..) with m = {{'{}': 'field', 'other': 1}} gave {} - the field wins over the method, and a string is not callable", field, field, called),
                json!({"kind": "member", "field": field}),
            ));
        }
        acc.case("collisions", &format!("member m.{}", field), field != "plain", "collision:member");
        if actual != "\"field\"" {
            acc.fail(Failure::new(
                "c12:collision:member:field-does-not-win",
                format!("m.{} with m = {{'{}': 'field'}} gave {} instead of the field", field, field, actual),
                json!({"kind": "member", "field": field}),
            ));
        }
    }
}

// ---------------------------------------------------------------------------
// (B) rebinding and re-adding

fn check_rebinding(acc: &mut Acc) {
    let r = guard(|| -> Result<Vec<String>, CelError> {
        let mut out = Vec::new();
        let mut ctx = CelContext::new();
        ctx.add_program_str("p", "1")?;
        ctx.add_program_str("main", "p + x")?;
        let mut b = BindContext::new();
        b.bind_param("x", CelValue::from_int(10));
        out.push(canon_cel(&ctx.exec("main", &b)?));
        b.bind_param("x", CelValue::from_int(20));
        out.push(canon_cel(&ctx.exec("main", &b)?));
        ctx.add_program_str("p", "2")?;
        out.push(canon_cel(&ctx.exec("main", &b)?));
        ctx.add_program_str("main", "p * x")?;
        out.push(canon_cel(&ctx.exec("main", &b)?));
        b.bind_param("p", CelValue::from_int(100)); // a variable now shadows the program
        out.push(canon_cel(&ctx.exec("main", &b)?));
        Ok(out)
    });
    let got = match &r {
        Ok(Ok(v)) => v.clone(),
        Ok(Err(e)) => vec![format!("Err({})", err_class(e))],
        Err(p) => vec![format!("PANIC {}", p.msg)],
    };
    let want = vec!["11", "21", "22", "40", "2000"];
    acc.case("rebinding", "p + x history", true, "rebinding");
    acc.sample("rebinding", || json!({"history": "add p=1, main=p+x; bind x=10; exec; rebind x=20; exec; re-add p=2; exec; re-add main=p*x; exec; bind p=100; exec", "expected": want, "actual": got}));
    if got != want {
        acc.fail(Failure::new(
            "c12:rebinding:stale-value",
            format!("history gave {:?}, expected {:?}", got, want),
            json!({"kind": "rebinding"}),
        ));
    }
}

// ---------------------------------------------------------------------------
// (C) JSON binding vs direct binding

fn v_to_json(v: &V) -> Option<Value> {
    Some(match v {
        V::Int(i) => json!(i),
        V::UInt(u) => json!(u),
        V::F(f) => {
            if !f.is_finite() {
                return None;
            }
            Value::Number(serde_json::Number::from_f64(*f)?)
        }
        V::Bool(b) => json!(b),
        V::Str(s) => json!(s),
        V::Null => Value::Null,
        V::List(l) => Value::Array(l.iter().map(v_to_json).collect::<Option<Vec<_>>>()?),
        V::Map(m) => {
            let mut o = serde_json::Map::new();
            for (k, x) in m {
                o.insert(k.clone(), v_to_json(x)?);
            }
            Value::Object(o)
        }
        _ => return None,
    })
}

/// what a JSON value denotes: integers in the int range are ints, above it uints, the rest doubles
fn json_normal(v: &V) -> V {
    match v {
        V::UInt(u) if *u <= i64::MAX as u64 => V::Int(*u as i64),
        V::List(l) => V::List(l.iter().map(json_normal).collect()),
        V::Map(m) => V::Map(m.iter().map(|(k, x)| (k.clone(), json_normal(x))).collect()),
        o => o.clone(),
    }
}

fn gen_jsonable(g: &mut G, depth: u32) -> V {
    match g.below(if depth == 0 { 6 } else { 8 }) {
        0 => V::Int(gen_int(g)),
        1 => V::UInt(gen_uint(g)),
        2 => {
            let f = gen_f64(g);
            V::F(if f.is_finite() { f } else { 1.5 })
        }
        3 => V::Bool(g.flag()),
        4 => V::Str(gen_string(g, 6)),
        5 => V::Null,
        6 => V::List((0..g.below(4)).map(|_| gen_jsonable(g, depth - 1)).collect()),
        _ => {
            let mut m = std::collections::BTreeMap::new();
            for _ in 0..g.below(4) {
                m.insert(g.pick_str(KEY_ALPHABET).to_string(), gen_jsonable(g, depth - 1));
            }
            V::Map(m)
        }
    }
}

fn check_json_binding(v: &V, sub: &str, acc: &mut Acc) -> Vec<Failure> {
    let Some(j) = v_to_json(v) else { return vec![] };
    let direct = json_normal(v);
    let canon = format!("json {}", j);
    let nontrivial = matches!(v, V::UInt(u) if *u > i64::MAX as u64) || matches!(v, V::List(_) | V::Map(_) | V::F(_));
    acc.case(sub, &canon, nontrivial, &format!("json:{}", v.type_name()));
    let mut results = Vec::new();
    for (how, src) in [("value", "x"), ("equal-to-direct", "x == y"), ("type", "type(x) == type(y)")] {
        let r = guard(|| {
            let mut ctx = CelContext::new();
            ctx.add_program_str("main", src)?;
            let mut b = BindContext::new();
            b.bind_params_from_json_obj(json!({"x": j.clone()}))?;
            b.bind_param("y", direct.to_cel());
            ctx.exec("main", &b)
        });
        results.push((how, show(&r)));
    }
    acc.sample(&format!("json:{}", v.type_name()), || json!({"json": j, "direct": direct.canon(), "results": results}));
    let mut out = Vec::new();
    let want = [direct.canon(), "true".to_string(), "true".to_string()];
    for (i, (how, got)) in results.iter().enumerate() {
        // NaN never occurs (JSON has none); x == y on maps/lists is structural
        if *got != want[i] {
            out.push(Failure::new(
                format!("c12:json-binding:{}:{}", v.type_name(), how),
                format!("x bound from JSON {} : {} gave {} but the directly bound {} gives {}", j, how, got, direct.canon(), want[i]),
                json!({"kind": "json", "value": super::c03::vjson(v)}),
            ));
            break;
        }
    }
    out
}

// ---------------------------------------------------------------------------
// (D) reference graphs

pub const EDGE_CONSTRUCTS: &[(&str, &str)] = &[
    ("ident", "{}"),
    ("operand", "(0 + {})"),
    ("list-element", "[{}][0]"),
    ("map-value", "{'k': {}}.k"),
    ("call-arg", "dyn({})"),
    ("macro-range", "[{}].map(e, e)[0]"),
    ("macro-body", "[0].map(e, {})[0]"),
    ("macro-pred", "[{}].filter(e, {} > 0)[0]"),
    ("has", "(has({}) ? {} : 0)"),
    ("coalesce", "coalesce(null, {})"),
    ("fstring", "int(f'{{}}')"),
    ("ternary-arm", "(true ? {} : 0)"),
    ("match-arm", "(match 1 { case _: {} })"),
    ("reduce-seed", "[0].reduce(a, e, a + e, {})"),
    // the macro body is the FIRST mention, so that in a cycle it is the body that carries the recursion
    ("reduce-step", "[0].reduce(a, e, a + {}, 0)"),
    ("map3-body", "[0].map(e, true, {})[0]"),
    ("map3-pred", "([0].map(e, {} > 0, 7).size() * {})"),
    ("filter-pred", "([0].filter(e, {} > 0).size() * {})"),
    ("all-body", "([0].all(e, {} > 0) ? {} : 0)"),
    ("exists-body", "([0].exists(e, {} > 0) ? {} : 0)"),
    ("exists_one-body", "([0].exists_one(e, {} > 0) ? {} : 0)"),
    ("map-over-map-body", "{'k': 0}.map(e, {})[0]"),
    ("map3-over-map-body", "{'k': 0}.map(e, true, {})[0]"),
    ("map3-over-map-pred", "({'k': 0}.map(e, {} > 0, 7).size() * {})"),
    ("filter-over-map-pred", "({'k': 0}.filter(e, {} > 0).size() * {})"),
    ("nested-macro-body", "[0].map(e, [0].map(f, {})[0])[0]"),
    ("match-scrutinee", "((match {} { case _: 0 }) + {})"),
    ("method-receiver", "[{}].size() * {}"),
    // a fallback after the reference: an error raised below must not be mistaken for absence
    ("coalesce-fallback", "coalesce({}, 0)"),
    ("coalesce-fallback-in-macro", "[0].map(e, coalesce({}, 0))[0]"),
    ("or-absorb", "(({} > 0) || true ? {} : 0)"),
];

fn edge_expr(construct: usize, target: &str) -> String {
    let (_, tpl) = EDGE_CONSTRUCTS[construct % EDGE_CONSTRUCTS.len()];
    if tpl.contains("{{}}") {
        tpl.replace("{{}}", &format!("{{{}}}", target))
    } else {
        tpl.replace("{}", target)
    }
}

#[derive(Clone, Debug)]
struct Graph {
    n: usize,
    /// adjacency with the construct index used for the edge
    edges: Vec<(usize, usize, usize)>,
}

impl Graph {
    fn sources(&self) -> Vec<(String, String)> {
        (0..self.n)
            .map(|i| {
                let mut s = String::from("1");
                for (a, b, c) in &self.edges {
                    if *a == i {
                        s.push_str(" + ");
                        s.push_str(&edge_expr(*c, &format!("p{}", b)));
                    }
                }
                (format!("p{}", i), s)
            })
            .collect()
    }

    /// value of node i when acyclic from i; None when a cycle is reachable
    fn value(&self, i: usize, stack: &mut Vec<usize>) -> Option<i128> {
        if stack.contains(&i) {
            return None;
        }
        stack.push(i);
        let mut v = 1i128;
        for (a, b, c) in &self.edges {
            if *a == i {
                let t = self.value(*b, stack)?;
                // macro-pred and has mention the target twice but contribute its value once
                let _ = c;
                v += t;
            }
        }
        stack.pop();
        Some(v)
    }

    /// number of program evaluations started below node i at reference depth d, with the
    /// interpreter's depth bound of 32 (saturating)
    fn cost(&self, i: usize, d: usize, memo: &mut std::collections::HashMap<(usize, usize), u64>) -> u64 {
        if d > 34 {
            return 1;
        }
        if let Some(c) = memo.get(&(i, d)) {
            return *c;
        }
        let mut total = 1u64;
        for (a, b, c) in &self.edges {
            if *a == i {
                // has(..) ? .. and the filter predicate evaluate the target twice
                let mult = EDGE_CONSTRUCTS[*c % EDGE_CONSTRUCTS.len()].1.matches("{}").count().max(1) as u64;
                total = total.saturating_add(self.cost(*b, d + 1, memo).saturating_mul(mult));
            }
        }
        let total = total.min(u64::MAX / 8);
        memo.insert((i, d), total);
        total
    }

    fn depth(&self, i: usize, seen: &mut Vec<usize>) -> usize {
        if seen.contains(&i) {
            return 99;
        }
        seen.push(i);
        let d = self.edges.iter().filter(|(a, _, _)| *a == i).map(|(_, b, _)| self.depth(*b, seen)).max().unwrap_or(0);
        seen.pop();
        d + 1
    }
}

fn check_graph(gr: &Graph, sub: &str, acc: &mut Acc) -> Vec<Failure> {
    let progs = gr.sources();
    let expected = gr.value(0, &mut Vec::new());
    let through_complex = gr.edges.iter().any(|(_, _, c)| !matches!(EDGE_CONSTRUCTS[*c % EDGE_CONSTRUCTS.len()].0, "ident" | "operand"));
    let canon = format!("{:?}", progs);
    let class = if expected.is_some() { "graph:acyclic" } else { "graph:cyclic" };
    acc.case(sub, &canon, expected.is_none() || through_complex || gr.depth(0, &mut Vec::new()) >= 8, class);
    for (_, _, c) in &gr.edges {
        acc.class(&format!("edge:{}", EDGE_CONSTRUCTS[*c % EDGE_CONSTRUCTS.len()].0));
    }
    let detail = json!({"kind": "graph", "n": gr.n, "edges": gr.edges, "programs": progs});
    match expected {
        Some(v) => {
            let r = guard(|| {
                let mut ctx = CelContext::new();
                for (n, s) in &progs {
                    ctx.add_program_str(n, s)?;
                }
                let b = BindContext::new();
                ctx.exec("p0", &b)
            });
            let got = show(&r);
            acc.sample(class, || json!({"programs": progs, "expected": v.to_string(), "actual": got}));
            if got != v.to_string() {
                return vec![Failure::new(
                    "c12:graph:acyclic:wrong-value",
                    format!("programs {:?}: p0 evaluated to {} but substitution gives {}", progs, got, v),
                    detail,
                )];
            }
            vec![]
        }
        None => {
            // The depth guard bounds the recursion at 32 levels, so a cycle whose programs hold
            // several references costs (fan-out)^32 steps before the error surfaces: time, not
            // stack, runs out. The statement is about ending in an error instead of exhausting
            // the stack; such cases are counted and left out (see DESIGN.md, limits).
            if gr.cost(0, 0, &mut std::collections::HashMap::new()) > 200_000 {
                acc.skip("cyclic graph with fan-out: evaluation cost is exponential in the depth limit (time, not stack)");
                return vec![];
            }
            let spec = json!({"kind": "programs", "entry": "p0", "stack": "thread2m",
                              "programs": progs.iter().map(|(n, s)| json!([n, s])).collect::<Vec<_>>()});
            let verdict = run_spec("release", &spec, 60);
            acc.sample(class, || json!({"programs": progs, "expected": "an error", "actual": format!("{:?}", verdict)}));
            match verdict {
                ChildVerdict::Returned(t) if t.starts_with("ERR") => vec![],
                ChildVerdict::Returned(t) => vec![Failure::new(
                    "c12:graph:cyclic:value-instead-of-error",
                    format!("cyclic programs {:?}: p0 returned {} instead of an error", progs, t),
                    detail,
                )],
                ChildVerdict::Panicked(p) => vec![Failure::new("c12:graph:cyclic:panic", format!("cyclic programs {:?} panicked: {}", progs, p), detail)],
                ChildVerdict::Died(d) => vec![Failure::new(
                    "c12:graph:cyclic:process-died",
                    format!("cyclic programs {:?}: the process died ({}) instead of reporting an error", progs, d),
                    detail,
                )],
                ChildVerdict::Timeout => {
                    acc.inconclusive.push(format!("child time-out on cyclic graph {:?}", progs));
                    vec![]
                }
                ChildVerdict::Broken(b) => {
                    acc.inconclusive.push(format!("child protocol error: {}", b));
                    vec![]
                }
            }
        }
    }
}

fn all_graphs(n: usize, seed: u64) -> Vec<Graph> {
    // every subset of the n*n possible edges (self-loops included); constructs rotate with the
    // graph number so that every construct appears on every edge position over the enumeration
    let m = n * n;
    let mut out = Vec::new();
    for mask in 0..(1u32 << m) {
        let mut edges = Vec::new();
        let mut k = (mask as u64).wrapping_mul(2654435761).wrapping_add(seed) as usize;
        for e in 0..m {
            if mask & (1 << e) != 0 {
                edges.push((e / n, e % n, k % EDGE_CONSTRUCTS.len()));
                k = k / 3 + 7;
            }
        }
        out.push(Graph { n, edges });
    }
    out
}

fn check_chain(len: usize, acc: &mut Acc) {
    // p0 := p1 + 1, ..., p(len-1) := 1   => value len
    let mut progs: Vec<(String, String)> = Vec::new();
    for i in 0..len {
        if i + 1 < len {
            progs.push((format!("p{}", i), format!("p{} + 1", i + 1)));
        } else {
            progs.push((format!("p{}", i), "1".to_string()));
        }
    }
    let r = guard(|| {
        let mut ctx = CelContext::new();
        for (n, s) in &progs {
            ctx.add_program_str(n, s)?;
        }
        ctx.exec("p0", &BindContext::new())
    });
    let got = show(&r);
    acc.case("chains", &format!("chain {}", len), len >= 8, "chain");
    acc.sample(&format!("chain:{}", len.min(17)), || json!({"length": len, "result": got}));
    let exact = got == len.to_string();
    let ok = if len <= 16 { exact } else { exact || got.starts_with("Err") };
    if !ok {
        acc.fail(Failure::new(
            if len <= 16 { "c12:chain:short:wrong-result" } else { "c12:chain:long:wrong-result" },
            format!("a chain of {} programs evaluated to {} (expected {}{})", len, got, len, if len > 16 { " or an error" } else { "" }),
            json!({"kind": "chain", "len": len}),
        ));
    }
}

fn check_loop_budget(acc: &mut Acc) {
    // "loop iterations do not consume the depth budget"
    for (name, src) in [
        ("map", "l.map(e, p1 + e).size()"),
        ("filter", "l.filter(e, p1 > 0).size()"),
        ("all", "l.all(e, p1 == 7) ? 64 : 0"),
        ("reduce", "l.reduce(a, e, a + p1 - 6, 0)"),
        ("nested", "l.map(e, [1, 2].map(f, p1 + f)[0]).size()"),
    ] {
        let r = guard(|| {
            let mut ctx = CelContext::new();
            ctx.add_program_str("p1", "p2")?;
            ctx.add_program_str("p2", "7")?;
            ctx.add_program_str("main", src)?;
            let mut b = BindContext::new();
            b.bind_param("l", CelValue::List((0..64).map(CelValue::from_int).collect()));
            ctx.exec("main", &b)
        });
        let got = show(&r);
        acc.case("loop-budget", src, true, "loop-budget");
        acc.sample(&format!("loop:{}", name), || json!({"source": src, "result": got}));
        if got != "64" && got != "64u" {
            acc.fail(Failure::new(
                format!("c12:loop-budget:{}", name),
                format!("{} over 64 elements with p1 := p2, p2 := 7 gave {} instead of 64", src, got),
                json!({"kind": "loop", "source": src}),
            ));
        }
    }
}

/// "another program ... (evaluated under the same bindings)": a reference that stands in a macro
/// body is evaluated under the bindings in effect there, for every element anew
fn check_program_under_loop(acc: &mut Acc) {
    for (name, main, progs, want) in [
        ("map", "[1, 2, 3].map(x, twice)", vec![("twice", "x * 2")], "[2, 4, 6]"),
        ("filter", "[1, 2, 3].filter(x, big)", vec![("big", "x > 1")], "[2, 3]"),
        ("reduce", "[1, 2, 3].reduce(a, x, step, 0)", vec![("step", "a + x")], "6"),
        ("all", "[[2, 4].all(x, even), [2, 3].all(x, even)]", vec![("even", "x % 2 == 0")], "[true, false]"),
        ("outside-then-inside", "[twice, [5].map(x, twice)[0], twice]", vec![("twice", "x * 2")], "[2, 10, 2]"),
        ("two-loops", "[[1, 2].map(x, twice), [3].map(x, twice)]", vec![("twice", "x * 2")], "[[2, 4], [6]]"),
        ("nested-loops", "[1, 2].map(x, [10, 20].map(y, sum))", vec![("sum", "x + y")], "[[11, 21], [12, 22]]"),
        ("chain", "[1, 2].map(x, p1)", vec![("p1", "p2 + 1"), ("p2", "x * 10")], "[11, 21]"),
    ] {
        let r = guard(|| {
            let mut ctx = CelContext::new();
            for (n, s) in &progs {
                ctx.add_program_str(n, s)?;
            }
            ctx.add_program_str("main", main)?;
            let mut b = BindContext::new();
            b.bind_param("x", CelValue::from_int(1));
            ctx.exec("main", &b)
        });
        let got = show(&r);
        acc.case("program-under-loop", main, true, "program-under-loop");
        acc.sample(&format!("program-under-loop:{}", name), || json!({"main": main, "programs": progs, "expected": want, "actual": got}));
        if got != want {
            acc.fail(Failure::new(
                format!("c12:program-under-loop:{}", name),
                format!("{} with {:?} (x = 1 outside) gave {} instead of {}", main, progs, got, want),
                json!({"kind": "program-under-loop", "name": name}),
            ));
        }
    }
}

/// cycles whose links pass through several nested macro bodies, in the unoptimised build where
/// frames are largest: "end in an error instead of exhausting the stack ... on default-size stacks"
fn check_nested_body_cycles(acc: &mut Acc) {
    let nest = |k: usize, target: &str| format!("{}{}{}", "[1].map(e, ".repeat(k), target, ")".repeat(k));
    let mut cases: Vec<(String, Vec<(String, String)>)> = Vec::new();
    for k in [1usize, 2, 3, 4, 8] {
        cases.push((format!("self-through-{}-bodies", k), vec![("p0".to_string(), nest(k, "p0"))]));
        cases.push((
            format!("mutual-through-{}-bodies", k),
            vec![("p0".to_string(), nest(k, "p1")), ("p1".to_string(), format!("[1].filter(e, {})", nest(k.saturating_sub(1), "p0")))],
        ));
    }
    // the same through every macro over a map receiver (a separate code path per receiver kind;
    // round 5, C01-m9: filter over a map restarted the depth budget in its body interpreter)
    for (nm, tpl) in [
        ("filter-over-map", "{'k': 0}.filter(e, size(@) >= 0)"),
        ("filter-over-bound-map", "m.filter(e, size(@) >= 0)"),
        ("map-over-map", "{'k': 0}.map(e, @)"),
        ("map3-body-over-map", "{'k': 0}.map(e, true, @)"),
        ("map3-pred-over-map", "{'k': 0}.map(e, size(@) >= 0, e)"),
        ("all-over-map", "{'k': 0}.all(e, size(@) >= 0)"),
        ("exists-over-map", "{'k': 0}.exists(e, size(@) < 0)"),
        ("exists_one-over-map", "{'k': 0}.exists_one(e, size(@) >= 0)"),
        ("reduce-over-map", "{'k': 0}.reduce(a, e, @, 0)"),
    ] {
        cases.push((format!("self-through-{}", nm), vec![("p0".to_string(), tpl.replace('@', "p0"))]));
        cases.push((
            format!("mutual-through-{}", nm),
            vec![("p0".to_string(), tpl.replace('@', "p1")), ("p1".to_string(), "[p0]".to_string())],
        ));
    }
    for (name, progs) in cases {
        for profile in ["opt0", "release"] {
            for stack in ["thread2m", "main"] {
                let spec = json!({"kind": "programs", "entry": "p0", "stack": stack,
                                  "programs": progs.iter().map(|(n, s)| json!([n, s])).collect::<Vec<_>>()});
                let verdict = run_spec(profile, &spec, 120);
                let canon = format!("{} {} {}", name, profile, stack);
                acc.case("nested-body-cycles", &canon, true, "cycle:nested-bodies");
                acc.sample(&format!("nested-bodies:{}", profile), || json!({"programs": progs, "profile": profile, "stack": stack, "outcome": format!("{:?}", verdict)}));
                let detail = json!({"kind": "nested-body-cycle", "programs": progs, "profile": profile, "stack": stack});
                match verdict {
                    ChildVerdict::Returned(t) if t.starts_with("ERR") => {}
                    ChildVerdict::Returned(t) => acc.fail(Failure::new(
                        "c12:nested-body-cycle:value-instead-of-error",
                        format!("cyclic programs {:?} ({} build, {}): returned {} instead of an error", progs, profile, stack, t),
                        detail,
                    )),
                    ChildVerdict::Panicked(p) => acc.fail(Failure::new("c12:nested-body-cycle:panic", format!("cyclic programs {:?} panicked: {}", progs, p), detail)),
                    ChildVerdict::Died(d) => acc.fail(Failure::new(
                        format!("c12:nested-body-cycle:{}:process-died", profile),
                        format!("cyclic programs {:?} ({} build, {} stack): the process died ({}) instead of reporting an error", progs, profile, stack, d),
                        detail,
                    )),
                    ChildVerdict::Timeout => acc.inconclusive.push(format!("child time-out on nested-body cycle {}", canon)),
                    ChildVerdict::Broken(b) => acc.inconclusive.push(format!("child protocol error ({}): {}", canon, b)),
                }
            }
        }
    }
    acc.mark_exhaustive("nested-body-cycles", "self and mutual cycles through 1, 2, 3, 4, 8 nested macro bodies x {unoptimised, release} build x {2 MiB thread, 8 MiB main stack}");
}

fn run(opts: &Opts, acc: &mut Acc) {
    if opts.is_dbg() {
        // resolution does not depend on the profile; the dbg part repeats the graph sample only
        let gs = all_graphs(2, opts.seed);
        par_chunks(acc, opts.threads, &gs, |g, a| {
            for f in check_graph(g, "graphs-2", a) {
                a.fail(f);
            }
        });
        return;
    }
    check_collisions(acc);
    check_rebinding(acc);
    // JSON grid
    let mut grid: Vec<V> = Vec::new();
    grid.extend(int_pool().into_iter().map(V::Int));
    grid.extend(uint_pool().into_iter().map(V::UInt));
    grid.extend(f64_pool().into_iter().filter(|f| f.is_finite()).map(V::F));
    grid.extend(str_pool().into_iter().map(V::Str));
    grid.extend([V::Null, V::Bool(true), V::Bool(false)]);
    grid.push(V::List(vec![V::UInt(u64::MAX), V::Int(-1), V::F(0.5), V::Null]));
    let mut m = std::collections::BTreeMap::new();
    m.insert("a".to_string(), V::List(vec![V::UInt(1 << 63)]));
    m.insert("b".to_string(), V::Map(Default::default()));
    grid.push(V::Map(m));
    par_chunks(acc, opts.threads, &grid, |v, a| {
        for f in check_json_binding(v, "json-grid", a) {
            a.fail(f);
        }
    });
    acc.mark_exhaustive("json-grid", "int/uint/double/string boundary pools, null, bools, nested array and object");
    let n = opts.tier.pick(20_000, 1_000_000);
    random_genomes(acc, opts, "json-random", n, 96, |gn, a| {
        let mut g = G::new(gn);
        let v = gen_jsonable(&mut g, 3);
        check_json_binding(&v, "json-random", a)
    });
    // graphs
    for n in 1..=3usize {
        let gs = all_graphs(n, opts.seed);
        let sub = format!("graphs-{}", n);
        par_chunks(acc, opts.threads, &gs, |g, a| {
            for f in check_graph(g, &sub, a) {
                a.fail(f);
            }
        });
        acc.mark_exhaustive(&sub, &format!("all 2^{} directed graphs (self-loops included) on {} programs", n * n, n));
    }
    let n4 = opts.tier.pick(2_000, 50_000);
    random_genomes(acc, opts, "graphs-4", n4, 40, |gn, a| {
        let mut g = G::new(gn);
        let mut edges = Vec::new();
        for e in 0..16 {
            if g.chance(56) {
                edges.push((e / 4, e % 4, g.below(EDGE_CONSTRUCTS.len())));
            }
        }
        check_graph(&Graph { n: 4, edges }, "graphs-4", a)
    });
    // every construct on a single edge, acyclic and as a self-loop / 2-cycle
    for c in 0..EDGE_CONSTRUCTS.len() {
        for g in [
            Graph { n: 2, edges: vec![(0, 1, c)] },
            Graph { n: 1, edges: vec![(0, 0, c)] },
            Graph { n: 2, edges: vec![(0, 1, c), (1, 0, c)] },
            Graph { n: 3, edges: vec![(0, 1, c), (1, 2, c), (2, 0, 0)] },
            Graph { n: 3, edges: vec![(0, 1, c), (0, 2, c), (1, 2, c)] },
        ] {
            for f in check_graph(&g, "edge-constructs", acc) {
                acc.fail(f);
            }
        }
    }
    acc.mark_exhaustive("edge-constructs", "each of the 32 referencing constructs on a single edge, a self-loop, a 2-cycle, a 3-cycle and a diamond");
    let lens: Vec<usize> = if opts.tier == Tier::Thorough { (1..=64).collect() } else { vec![1, 2, 3, 8, 15, 16, 17, 24, 31, 32, 33, 48, 64] };
    for l in lens {
        check_chain(l, acc);
    }
    check_loop_budget(acc);
    check_program_under_loop(acc);
    check_nested_body_cycles(acc);
}

fn replay(opts: &Opts, d: &Value, acc: &mut Acc) {
    match d.get("kind").and_then(|k| k.as_str()).unwrap_or("") {
        "graph" => {
            let n = d.get("n").and_then(|n| n.as_u64()).unwrap_or(1) as usize;
            let edges: Vec<(usize, usize, usize)> = d
                .get("edges")
                .and_then(|e| e.as_array())
                .map(|a| {
                    a.iter()
                        .filter_map(|t| {
                            let t = t.as_array()?;
                            Some((t.first()?.as_u64()? as usize, t.get(1)?.as_u64()? as usize, t.get(2)?.as_u64()? as usize))
                        })
                        .collect()
                })
                .unwrap_or_default();
            for f in check_graph(&Graph { n, edges }, "replay", acc) {
                acc.fail(f);
            }
        }
        "chain" => check_chain(d.get("len").and_then(|n| n.as_u64()).unwrap_or(1) as usize, acc),
        "json" => {
            if let Some(v) = d.get("value").and_then(super::c03::vunjson) {
                for f in check_json_binding(&v, "replay", acc) {
                    acc.fail(f);
                }
            }
        }
        "collision" | "member" => check_collisions(acc),
        "rebinding" => check_rebinding(acc),
        "loop" => check_loop_budget(acc),
        "program-under-loop" => check_program_under_loop(acc),
        "nested-body-cycle" => check_nested_body_cycles(acc),
        k => {
            let _ = opts;
            acc.inconclusive.push(format!("unknown C12 replay kind {:?}", k))
        }
    }
}

/// libFuzzer entry: JSON binding of one generated value (graphs need child processes and stay
/// with the harness)
pub fn fuzz_case(genome: &[u8], acc: &mut Acc) -> Vec<Failure> {
    let mut g = G::new(genome);
    let v = gen_jsonable(&mut g, 3);
    check_json_binding(&v, "fuzz", acc)
}
