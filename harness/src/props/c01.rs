//! C01 — compile and evaluate are total: a value or an error, never a panic or abort.

use super::Prop;
use crate::child::{ladder_spec, run_spec, ChildVerdict, LADDER_CONSTRUCTS};
use crate::engine::{par_chunks, random_genomes, Acc, Failure, Opts, Tier};
use crate::expr::*;
use crate::g::G;
use crate::gen::{gen_env, gen_expr, Cfg, Ty};
use crate::run::{compile, eval, Res, Res2, Stage, Sum};
use crate::val::*;
use rscel::ByteCode;
use serde_json::{json, Value};
use std::collections::BTreeMap;

pub static PROP: Prop = Prop {
    id: "C01",
    rule: "five generators, each evaluated through add_program_str + exec under catch_unwind: (a) grammar-derived sources from \
           the full-language generator (every construct, boundary-heavy operands) with bindings over the full value domain; \
           (b) token mutants of those sources (delete / duplicate / swap / replace by vocabulary tokens, truncation at every \
           character offset); (c) random UTF-8 and CEL-alphabet strings; (d) built-in sweep: every default function, macro and \
           type constructor in free and method form x argument tuples from a 40-value boundary pool — exhaustive for arity 0, 1 \
           and 2 (reduced pool in the overflow-checking build), sampled for arity 3-4 — each as literals (compile-time folding) \
           and as bound variables; (e) nesting/width ladders (30 constructs x depths 1..16384) and cyclic program references \
           run in isolated child processes on the 8 MiB main stack and on a 2 MiB thread, in both build profiles. A panic, an \
           abort/signal of a child or a child time-out are the only failures. Non-trivial = the source compiled to more than \
           one instruction and ran in the VM, or it is a syntactically invalid mutant one edit away from a valid program, or a \
           ladder of depth >= 64; distinct by source + bindings.",
    assumptions: &[
        "a child that does not finish within 60 s is reported as inconclusive (exit 2), not as a violation",
        "flat operator chains are explored to 16384 terms (the AST is dropped recursively; the unbounded case is out of reach)",
    ],
    run,
    replay,
    both_profiles: super::always_both,
};

fn panic_sig(prefix: &str, s: &Sum) -> Option<String> {
    match s {
        Sum::Panic(p) => {
            let head = p.split(':').next().unwrap_or("other");
            Some(format!("{}:panic-{}", prefix, head))
        }
        _ => None,
    }
}

fn bytecode_len(src: &str) -> usize {
    match compile(src) {
        Res2::Ok(p) => p.bytecode().iter().cloned().collect::<Vec<ByteCode>>().len(),
        _ => 0,
    }
}

/// Evaluate one source under bindings; a panic at compile or run time is the only failure.
pub fn check_total(src: &str, binds: &[(String, V)], sub: &str, class: &str, sig_prefix: &str, nontrivial_hint: bool, acc: &mut Acc) -> Vec<Failure> {
    let r = eval(src, binds);
    let sum = r.res.sum();
    let ran = r.stage == Stage::Exec;
    let canon = format!("{} @ {}", src, crate::run::binds_json(binds));
    let outcome = match (&r.res, r.stage) {
        (Res::Ok(_), _) => "value".to_string(),
        (Res::Err(e), Stage::Compile) => format!("compile-error:{}", crate::run::err_class(e)),
        (Res::Err(e), Stage::Exec) => format!("error:{}", crate::run::err_class(e)),
        (Res::Panic(_), _) => "panic".to_string(),
    };
    acc.case(sub, &canon, nontrivial_hint && (ran || class.contains("mutant")), class);
    acc.class(&format!("outcome:{}", outcome));
    acc.sample(&format!("{}:{}", class, outcome), || json!({"source": src, "bindings": crate::run::binds_json(binds), "outcome": sum.show()}));
    match panic_sig(sig_prefix, &sum) {
        Some(sig) => vec![Failure::new(
            sig,
            format!("{:?} with {} panicked at {}: {}", src, crate::run::binds_json(binds), if ran { "run time" } else { "compile time" }, sum.show()),
            json!({"kind": "source", "source": src, "stage": if ran { "exec" } else { "compile" },
                   "bindings": binds.iter().map(|(k, v)| json!([k, super::c03::vjson(v)])).collect::<Vec<_>>(), "panic": sum.show()}),
        )],
        None => vec![],
    }
}

// ---------------------------------------------------------------------------
// (d) built-in sweep

pub fn sweep_pool(reduced: bool) -> Vec<V> {
    let mut m = BTreeMap::new();
    m.insert("a".to_string(), V::Int(1));
    let full = vec![
        V::Int(0), V::Int(1), V::Int(-1), V::Int(2), V::Int(64), V::Int(i64::MAX), V::Int(i64::MIN), V::Int(1 << 31),
        V::UInt(0), V::UInt(1), V::UInt(64), V::UInt(u64::MAX), V::UInt(1 << 63),
        V::F(0.0), V::F(-0.0), V::F(1.5), V::F(-2.5), V::F(f64::NAN), V::F(f64::INFINITY), V::F(f64::NEG_INFINITY), V::F(f64::MAX), V::F(1e19),
        V::s(""), V::s("a"), V::s("abc"), V::s("héllo"), V::s("("), V::s("1"), V::s("UTC"), V::s("1h"), V::s("kg"),
        // time zones east and west of UTC (boundary instants shifted by the offset leave the range), fixed offsets, unknown
        V::s("Asia/Tokyo"), V::s("America/Los_Angeles"), V::s("Pacific/Kiritimati"), V::s("Etc/GMT+12"), V::s("+05:30"), V::s("Nowhere/Land"),
        V::Bytes(vec![]), V::Bytes(vec![0xff, 0xfe]),
        V::List(vec![]), V::List(vec![V::Int(1), V::Int(2)]), V::List(vec![V::s("b"), V::s("a")]), V::List(vec![V::List(vec![V::Int(1)])]),
        // lists longer than 20 elements switch std's sort to the algorithm that checks the comparator
        V::List((0..25).map(|k| if k == 7 { V::F(f64::NAN) } else { V::F(k as f64) }).collect()),
        V::List((0..25).map(|k| if k % 5 == 0 { V::s("s") } else if k % 3 == 0 { V::Null } else { V::Int(25 - k) }).collect()),
        V::List({
            let mut l = vec![V::Int(9007199254740993), V::F(9007199254740992.0)];
            l.extend((0..22).map(|_| V::Int(9007199254740992)));
            l
        }),
        V::Map(BTreeMap::new()), V::Map(m),
        V::Null, V::Bool(true), V::Bool(false), V::Type("int".into()),
        V::Ts(0, 0), V::Ts(TS_MAX_S, 999_999_999), V::Ts(TS_MIN_S, 0),
        V::Dur(0), V::Dur(DUR_MAX_MS * 1_000_000), V::Dur(-DUR_MAX_MS * 1_000_000), V::Dur(1),
    ];
    if !reduced {
        return full;
    }
    vec![
        V::Int(0), V::Int(-1), V::Int(64), V::Int(i64::MAX), V::Int(i64::MIN),
        V::UInt(0), V::UInt(64), V::UInt(u64::MAX),
        V::F(1.5), V::F(f64::NAN), V::F(f64::MAX),
        V::s("abc"), V::s("héllo"), V::s("Asia/Tokyo"), V::s("America/Los_Angeles"), V::List(vec![V::Int(1), V::Int(2)]), V::Null,
        V::Ts(TS_MAX_S, 999_999_999), V::Ts(TS_MIN_S, 0), V::Dur(DUR_MAX_MS * 1_000_000), V::Dur(-DUR_MAX_MS * 1_000_000),
    ]
}

pub fn callable_names() -> Vec<&'static str> {
    let mut v: Vec<&'static str> = Vec::new();
    v.extend(super::c17::DEFAULT_FUNCS);
    v.extend(super::c17::DEFAULT_MACROS);
    v.extend(["bool", "int", "uint", "float", "double", "string", "bytes", "type", "timestamp", "duration", "dyn", "null_type"]);
    v
}

fn call_forms(name: &str, n: usize) -> Vec<(&'static str, E)> {
    // arguments are variables a0..a(n-1); the literal twin is produced by substitution
    let args: Vec<E> = (0..n).map(|i| var(&format!("a{}", i))).collect();
    let mut out = vec![("free", call(name, args.clone()))];
    if n >= 1 {
        out.push(("method", method(args[0].clone(), name, args[1..].to_vec())));
    }
    out
}

fn check_call(name: &str, vals: &[V], sub: &str, acc: &mut Acc) -> Vec<Failure> {
    let mut out = Vec::new();
    let binds: Vec<(String, V)> = vals.iter().enumerate().map(|(i, v)| (format!("a{}", i), v.clone())).collect();
    let types: Vec<&str> = vals.iter().map(|v| v.type_name()).collect();
    for (form, e) in call_forms(name, vals.len()) {
        let var_src = render_min(&e);
        let mut lit = e.clone();
        for (n, v) in &binds {
            lit = crate::gen::substitute(&lit, n, v);
        }
        let lit_src = render_min(&lit);
        let class = format!("builtin:{}", name);
        let prefix = format!("c01:builtin:{}:{}:({})", name, form, types.join(","));
        out.extend(check_total(&var_src, &binds, sub, &class, &prefix, true, acc));
        out.extend(check_total(&lit_src, &[], sub, &class, &format!("{}:folded", prefix), true, acc));
    }
    out
}

// ---------------------------------------------------------------------------
// (a)-(c) generated, mutated and random sources

fn gen_source(g: &mut G) -> (E, String, Vec<(String, V)>) {
    let mut cfg = Cfg::full();
    cfg.max_depth = 6;
    cfg.illtyped = 48;
    cfg.map_iter = true;
    cfg.clock = true;
    let mut env = gen_env(g, &cfg);
    // bindings over the full value domain: occasionally replace a variable by any value
    for v in env.vars.iter_mut() {
        if g.chance(40) {
            v.value = Some(gen_value(g, 2));
        }
    }
    let ty = *g.pick(&[Ty::Any, Ty::Any, Ty::Bool, Ty::Int, Ty::Str, Ty::List, Ty::F, Ty::Ts, Ty::Dur, Ty::Map]);
    let e = gen_expr(g, &cfg, &env, ty);
    let src = render(&e, Parens::Random, Space::Single, g);
    (e, src, env.bindings())
}

const VOCAB: &[&str] = &[
    "?", ":", "+", "-", "*", "/", "%", "!", ".", ",", "[", "]", "{", "}", "(", ")", "<", ">", "||", "&&", "<=", ">=", "==", "!=", "in",
    "null", "match", "case", "true", "false", "_", "int", "x", "b'", "r'", "f'", "0x", "1e", "1.", ".5", "9223372036854775808", "'", "\"",
    "\\", "=", "&", "|", "f'{", "}'", "{{", "1u", "0xg", "é", "\u{0}", "\n", "size", "has", "map", "timestamp", "dyn",
];

fn mutate(g: &mut G, toks: &[String]) -> (String, &'static str) {
    let mut t: Vec<String> = toks.to_vec();
    if t.is_empty() {
        return (String::new(), "empty");
    }
    let i = g.below(t.len());
    let kind = match g.below(6) {
        0 => {
            t.remove(i);
            "delete"
        }
        1 => {
            let x = t[i].clone();
            t.insert(i, x);
            "duplicate"
        }
        2 => {
            let j = g.below(t.len());
            t.swap(i, j);
            "swap"
        }
        3 => {
            t[i] = g.pick_str(VOCAB).to_string();
            "replace"
        }
        4 => {
            t.insert(i, g.pick_str(VOCAB).to_string());
            "insert"
        }
        _ => {
            t.truncate(i);
            "truncate-tokens"
        }
    };
    (join_tokens(&t, Space::Single, None), kind)
}

fn check_generated(genome: &[u8], acc: &mut Acc) -> Vec<Failure> {
    let mut g = G::new(genome);
    let (e, src, binds) = gen_source(&mut g);
    let first = e.constructs().iter().next().cloned().unwrap_or("lit");
    let nontrivial = bytecode_len(&src) > 1;
    let mut out = check_total(&src, &binds, "generated", &format!("generated:{}", first), "c01:generated", nontrivial, acc);
    // (b) a few mutants of the same source
    let toks = tokens_of(&e, Parens::Minimal, None);
    for _ in 0..3 {
        let (m, kind) = mutate(&mut g, &toks);
        out.extend(check_total(&m, &binds, "mutants", &format!("mutant:{}", kind), "c01:mutant", true, acc));
    }
    // truncation at a character offset
    let chars: Vec<char> = src.chars().collect();
    if !chars.is_empty() {
        let cut = g.below(chars.len());
        let m: String = chars[..cut].iter().collect();
        out.extend(check_total(&m, &binds, "mutants", "mutant:truncate-chars", "c01:mutant", true, acc));
    }
    out
}

fn check_random_text(genome: &[u8], acc: &mut Acc) -> Vec<Failure> {
    let mut g = G::new(genome);
    let src = if g.flag() {
        // CEL-alphabet soup
        let n = g.below(24);
        let mut t = Vec::new();
        for _ in 0..n {
            t.push(g.pick_str(VOCAB).to_string());
        }
        t.join(if g.flag() { " " } else { "" })
    } else {
        let n = g.below(64);
        let bytes: Vec<u8> = (0..n).map(|_| g.byte()).collect();
        String::from_utf8_lossy(&bytes).to_string()
    };
    check_total(&src, &[("x".to_string(), V::Int(1))], "random-text", "random-text", "c01:random-text", false, acc)
}

// ---------------------------------------------------------------------------
// (e) ladders and cycles in child processes

fn ladder_depths(tier: Tier) -> Vec<usize> {
    match tier {
        // 31..33 straddle the parser's nesting limit; chains are quadratic to compile, so the
        // 16384 rung is left to the thorough tier
        Tier::Quick => vec![1, 12, 31, 32, 33, 96, 512, 4096],
        Tier::Thorough => {
            let mut v: Vec<usize> = (0..15).map(|k| 1usize << k).collect();
            v.extend([3, 12, 24, 31, 33, 47, 48, 49, 96, 200, 3000, 10000]);
            v.sort();
            v
        }
    }
}

pub fn cycle_specs() -> Vec<(String, Value)> {
    let mk = |name: &str, progs: Vec<(&str, &str)>| {
        (
            name.to_string(),
            json!({"kind": "programs", "entry": "main",
                   "programs": progs.iter().map(|(n, s)| json!([n, s])).collect::<Vec<_>>()}),
        )
    };
    vec![
        mk("self", vec![("main", "main + 1")]),
        mk("mutual", vec![("main", "a"), ("a", "main")]),
        mk("three", vec![("main", "a"), ("a", "b + 1"), ("b", "[main]")]),
        mk("self-in-list", vec![("main", "[main]")]),
        mk("self-in-map", vec![("main", "{'k': main}")]),
        mk("self-in-call-arg", vec![("main", "size(main)")]),
        mk("self-in-dyn", vec![("main", "dyn(main)")]),
        mk("self-in-ternary", vec![("main", "x ? main : 0")]),
        mk("self-in-or", vec![("main", "false || main")]),
        mk("self-in-match-arm", vec![("main", "match 1 { case _: main }")]),
        mk("self-in-match-scrutinee", vec![("main", "match main { case _: 1 }")]),
        mk("self-in-fstring", vec![("main", "f'{main}'")]),
        mk("self-in-has", vec![("main", "has(main)")]),
        mk("self-in-coalesce", vec![("main", "coalesce(null, main)")]),
        mk("self-in-map-body", vec![("main", "[1].map(e, main)")]),
        mk("self-in-all-body", vec![("main", "[1].all(e, main)")]),
        mk("self-in-exists-body", vec![("main", "[1].exists(e, main)")]),
        mk("self-in-exists-one-body", vec![("main", "[1].exists_one(e, main)")]),
        mk("self-in-filter-body", vec![("main", "[1].filter(e, main)")]),
        mk("self-in-reduce-body", vec![("main", "[1].reduce(a, e, main, 0)")]),
        mk("self-in-reduce-seed", vec![("main", "[1].reduce(a, e, a, main)")]),
        mk("self-in-macro-range", vec![("main", "main.map(e, e)")]),
        mk("self-in-index", vec![("main", "l[main]")]),
        mk("self-as-receiver", vec![("main", "main.size()")]),
        mk("mutual-through-macro", vec![("main", "[1, 2].map(e, a)"), ("a", "[3].filter(e, main)")]),
        mk("mutual-through-call-and-macro", vec![("main", "size(a)"), ("a", "[1].map(e, dyn(main))")]),
        mk("wide-macro-cycle", vec![("main", "[1,2,3,4,5,6,7,8].map(e, main)")]),
        // several macro bodies between two references: each body is an interpreter frame of its own
        mk("self-in-2-nested-macro-bodies", vec![("main", "[1].map(x, [1].map(y, main))")]),
        mk("self-in-4-nested-macro-bodies", vec![("main", "[1].map(a, [1].filter(b, [1].all(c, [1].exists(d, main))))")]),
        mk("self-in-8-nested-macro-bodies", vec![("main", "[1].map(a, [1].map(b, [1].map(c, [1].map(d, [1].map(e, [1].map(f, [1].map(g, [1].map(h, main))))))))")]),
        mk("mutual-through-nested-macro-bodies", vec![("main", "[1].map(x, [1].reduce(acc, y, a, 0))"), ("a", "[1].exists_one(x, [1].filter(y, main))")]),
        // the same bodies over a map receiver: the macros have a separate code path per receiver kind
        // (round 5, C01-m9: filter over a map started its body interpreter with a fresh depth budget)
        mk("self-in-map-body-over-map", vec![("main", "{'k': 1}.map(e, main)")]),
        mk("self-in-map3-body-over-map", vec![("main", "{'k': 1}.map(e, true, main)")]),
        mk("self-in-map3-pred-over-map", vec![("main", "{'k': 1}.map(e, size(main) >= 0, e)")]),
        mk("self-in-filter-body-over-map", vec![("main", "{'k': 1}.filter(e, size(main) >= 0)")]),
        mk("self-in-all-body-over-map", vec![("main", "{'k': 1}.all(e, main)")]),
        mk("self-in-exists-body-over-map", vec![("main", "{'k': 1}.exists(e, main)")]),
        mk("self-in-exists-one-body-over-map", vec![("main", "{'k': 1}.exists_one(e, main)")]),
        mk("self-in-reduce-body-over-map", vec![("main", "{'k': 1}.reduce(a, e, main, 0)")]),
        mk("self-in-filter-body-over-bound-map", vec![("main", "m.filter(e, main)")]),
        mk("self-in-map3-pred", vec![("main", "[1].map(e, main, e)")]),
        mk("mutual-through-map-receivers", vec![("main", "{'a': 1, 'b': 2}.filter(e, a)"), ("a", "{'c': 3}.map(e, main)")]),
    ]
}

fn check_child(label: &str, class: &str, sig: String, spec: &Value, profile: &str, nontrivial: bool, acc: &mut Acc) -> Vec<Failure> {
    let v = run_spec(profile, spec, 60);
    let canon = format!("{} {}", label, spec);
    acc.case("isolated", &canon, nontrivial, class);
    let outcome = match &v {
        ChildVerdict::Returned(t) => format!("returned:{}", t.split(' ').next().unwrap_or("")),
        ChildVerdict::Panicked(_) => "panicked".into(),
        ChildVerdict::Died(_) => "died".into(),
        ChildVerdict::Timeout => "timeout".into(),
        ChildVerdict::Broken(_) => "broken".into(),
    };
    acc.class(&format!("child:{}", outcome));
    acc.sample(&format!("{}:{}", class, outcome), || json!({"case": label, "spec": spec, "profile": profile, "outcome": format!("{:?}", v)}));
    match v {
        ChildVerdict::Returned(_) => vec![],
        ChildVerdict::Panicked(p) => vec![Failure::new(
            format!("{}:panic", sig),
            format!("{} ({}): panicked: {}", label, profile, p),
            json!({"kind": "child", "spec": spec, "profile": profile, "label": label}),
        )],
        ChildVerdict::Died(d) => vec![Failure::new(
            format!("{}:process-died", sig),
            format!("{} ({}): the process died: {}", label, profile, d),
            json!({"kind": "child", "spec": spec, "profile": profile, "label": label}),
        )],
        ChildVerdict::Timeout => {
            acc.inconclusive.push(format!("child time-out: {} {}", label, profile));
            vec![]
        }
        ChildVerdict::Broken(b) => {
            acc.inconclusive.push(format!("child protocol error: {} {}: {}", label, profile, b));
            vec![]
        }
    }
}

// ---------------------------------------------------------------------------

fn run(opts: &Opts, acc: &mut Acc) {
    let dbg = opts.is_dbg();
    // hand-written seeds: shapes that earlier findings came from (kept so that they stay covered
    // whatever the generators' distribution becomes)
    let long_nan: String = (0..25).map(|k| if k == 7 { "0.0/0.0".to_string() } else { format!("{}.0", k) }).collect::<Vec<_>>().join(", ");
    let seeds: Vec<String> = vec![
        "[1/0] != [1]".into(),
        "[1/0] == [1]".into(),
        "[x/0] != [x]".into(),
        "{'a': 1/0} != {'a': 1}".into(),
        "[[x/0]] != [[1]]".into(),
        "[1/0] in [[1/0]]".into(),
        "[x/0].sort()".into(),
        format!("[{}].sort()", long_nan),
        format!("[{}, null].sort()", long_nan),
        format!("max({})", long_nan),
        "match x { case dyn(x): 1, case type: 2, case null_type: 3 }".into(),
        "string(duration(9223372036854775, 807000000))".into(),
        "f'{f'{f'{x}'}'}'".into(),
        "x.y.z().w[0]".into(),
        "m.size".into(),
        "m.map".into(),
        "{}.has".into(),
        "1.f".into(),
        "-9223372036854775808".into(),
        "9223372036854775808".into(),
        "0x".into(),
        "0xg".into(),
        "1e".into(),
        "1e+".into(),
        "'\\".into(),
        "b'\\x".into(),
        "f'{".into(),
        "f'{}'".into(),
        "f'}'".into(),
        "[1, 2][9223372036854775807]".into(),
        "[1, 2][-9223372036854775807 - 1]".into(),
        "'abc'.splitAt(-9223372036854775807 - 1)".into(),
        "timestamp(9223372036854775807)".into(),
        "duration(9223372036854775807)".into(),
        "timestamp(-9223372036854775807 - 1).getFullYear('US/Pacific')".into(),
        "uomConvert(1.0e308, 'kg', 'mg')".into(),
        "pow(0, -1)".into(),
        "zip([1], 2)".into(),
        "zip()".into(),
        "min()".into(),
    ];
    let sb = vec![
        ("x".to_string(), V::Int(1)),
        ("m".to_string(), V::Map([("a".to_string(), V::Int(1))].into_iter().collect())),
    ];
    for s in &seeds {
        for f in check_total(s, &sb, "seeds", "seed", "c01:seed", true, acc) {
            acc.fail(f);
        }
        for f in check_total(s, &[], "seeds", "seed", "c01:seed", true, acc) {
            acc.fail(f);
        }
    }
    // (d) built-in sweep
    let names = callable_names();
    let pool = sweep_pool(false);
    // arity 2: full pool in the thorough release part, a 19-value pool otherwise
    let pool2 = sweep_pool(dbg || opts.tier == Tier::Quick);
    let mut jobs: Vec<(usize, Vec<usize>)> = Vec::new();
    for (ni, _) in names.iter().enumerate() {
        jobs.push((ni, vec![]));
        for i in 0..pool.len() {
            jobs.push((ni, vec![i]));
        }
    }
    par_chunks(acc, opts.threads, &jobs, |(ni, idx), a| {
        let vals: Vec<V> = idx.iter().map(|i| pool[*i].clone()).collect();
        for f in check_call(names[*ni], &vals, "builtin-arity0-1", a) {
            a.fail(f);
        }
    });
    acc.mark_exhaustive("builtin-arity0-1", "every function/macro/constructor x every pool value, free and method form, literal and bound");
    let mut jobs: Vec<(usize, usize, usize)> = Vec::new();
    for ni in 0..names.len() {
        for i in 0..pool2.len() {
            for j in 0..pool2.len() {
                jobs.push((ni, i, j));
            }
        }
    }
    par_chunks(acc, opts.threads, &jobs, |(ni, i, j), a| {
        for f in check_call(names[*ni], &[pool2[*i].clone(), pool2[*j].clone()], "builtin-arity2", a) {
            a.fail(f);
        }
    });
    acc.mark_exhaustive(
        "builtin-arity2",
        &format!("every function/macro/constructor x all ordered pairs of a {}-value pool, free and method form, literal and bound", pool2.len()),
    );
    let n = match (opts.tier, dbg) {
        (Tier::Quick, false) => 12_000,
        (Tier::Quick, true) => 4_000,
        (Tier::Thorough, false) => 400_000,
        (Tier::Thorough, true) => 60_000,
    };
    random_genomes(acc, opts, "builtin-arity3-4", n, 32, |gn, a| {
        let mut g = G::new(gn);
        let names = callable_names();
        let pool = sweep_pool(false);
        let name = *g.pick(&names);
        let k = 3 + g.below(2);
        let vals: Vec<V> = (0..k).map(|_| g.pick(&pool).clone()).collect();
        check_call(name, &vals, "builtin-arity3-4", a)
    });

    // (a)-(c)
    let n = match (opts.tier, dbg) {
        (Tier::Quick, false) => 20_000,
        (Tier::Quick, true) => 6_000,
        (Tier::Thorough, false) => 1_000_000,
        (Tier::Thorough, true) => 150_000,
    };
    random_genomes(acc, opts, "generated", n, 500, |gn, a| check_generated(gn, a));
    random_genomes(acc, opts, "random-text", n / 2, 96, |gn, a| check_random_text(gn, a));

    // (e) children: driven from the release part only, for both profiles
    if !dbg {
        let mut specs: Vec<(String, String, String, Value, &'static str, bool)> = Vec::new();
        for c in LADDER_CONSTRUCTS {
            for &d in &ladder_depths(opts.tier) {
                for stack in ["main", "thread2m"] {
                    for profile in ["release", "dbg"] {
                        specs.push((
                            format!("ladder {} depth {} on {}", c, d, stack),
                            format!("ladder:{}", c),
                            format!("c01:ladder:{}:{}:{}", c, stack, profile),
                            ladder_spec(c, d, stack),
                            profile,
                            d >= 64,
                        ));
                    }
                }
            }
        }
        // the unoptimised build (what `cargo build` / `cargo test` produce by default): frames are
        // several times larger, so the same ladders are a different test there
        for c in LADDER_CONSTRUCTS {
            for &d in &[1usize, 8, 12, 16, 24, 31, 32, 33, 512] {
                for stack in ["main", "thread2m"] {
                    specs.push((
                        format!("ladder {} depth {} on {} (unoptimised)", c, d, stack),
                        format!("ladder-opt0:{}", c),
                        format!("c01:opt0-{}:ladder:{}", stack, c),
                        ladder_spec(c, d, stack),
                        "opt0",
                        d >= 12,
                    ));
                }
            }
        }
        for (name, spec) in cycle_specs() {
            for stack in ["main", "thread2m"] {
                let mut s = spec.clone();
                s["stack"] = json!(stack);
                specs.push((
                    format!("cycle {} on {} (unoptimised)", name, stack),
                    format!("cycle-opt0:{}", name),
                    format!("c01:opt0-{}:cycle:{}", stack, name),
                    s,
                    "opt0",
                    true,
                ));
            }
        }
        for (name, spec) in cycle_specs() {
            for stack in ["main", "thread2m"] {
                for profile in ["release", "dbg"] {
                    let mut s = spec.clone();
                    s["stack"] = json!(stack);
                    specs.push((
                        format!("cycle {} on {}", name, stack),
                        format!("cycle:{}", name),
                        format!("c01:cycle:{}:{}:{}", name, stack, profile),
                        s,
                        profile,
                        true,
                    ));
                }
            }
        }
        par_chunks(acc, opts.threads, &specs, |(label, class, sig, spec, profile, nt), a| {
            for f in check_child(label, class, sig.clone(), spec, profile, *nt, a) {
                a.fail(f);
            }
        });
        acc.mark_exhaustive("isolated", "40 ladder constructs x depth list x {8 MiB main stack, 2 MiB thread} x {release, dbg, unoptimised}; 31 cyclic reference shapes");
    }
}

fn replay(_opts: &Opts, d: &Value, acc: &mut Acc) {
    match d.get("kind").and_then(|k| k.as_str()).unwrap_or("") {
        "source" => {
            let src = d.get("source").and_then(|s| s.as_str()).unwrap_or("");
            let mut binds = Vec::new();
            if let Some(arr) = d.get("bindings").and_then(|b| b.as_array()) {
                for kv in arr {
                    if let (Some(k), Some(v)) = (kv.get(0).and_then(|k| k.as_str()), kv.get(1).and_then(super::c03::vunjson)) {
                        binds.push((k.to_string(), v));
                    }
                }
            }
            for f in check_total(src, &binds, "replay", "replay", "c01:replay", true, acc) {
                acc.fail(f);
            }
        }
        "child" => {
            let spec = d.get("spec").cloned().unwrap_or(Value::Null);
            let profile = d.get("profile").and_then(|p| p.as_str()).unwrap_or("release").to_string();
            let label = d.get("label").and_then(|p| p.as_str()).unwrap_or("replay").to_string();
            for f in check_child(&label, "replay", "c01:replay".to_string(), &spec, &profile, true, acc) {
                acc.fail(f);
            }
        }
        k => acc.inconclusive.push(format!("unknown C01 replay kind {:?}", k)),
    }
}

/// libFuzzer entry: one generated source with its mutants
pub fn fuzz_case(genome: &[u8], acc: &mut Acc) -> Vec<Failure> {
    check_generated(genome, acc)
}

/// libFuzzer entry: the bytes are the source text
pub fn fuzz_source(data: &[u8], acc: &mut Acc) -> Vec<Failure> {
    let src = String::from_utf8_lossy(data).to_string();
    let binds = vec![
        ("x".to_string(), V::Int(1)),
        ("s".to_string(), V::s("str")),
        ("l".to_string(), V::List(vec![V::Int(1), V::Int(2)])),
        ("m".to_string(), V::Map([("a".to_string(), V::Int(1))].into_iter().collect())),
    ];
    check_total(&src, &binds, "fuzz-source", "fuzz-source", "c01:fuzz-source", true, acc)
}
