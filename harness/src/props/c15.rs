//! C15 — string, regex and math built-ins compute their documented function on all inputs.
//!
//! Every call is evaluated through `run::eval` in two forms — all operands literals (folded
//! by the compiler) and all operands bound variables (run by the VM) — and compared with a
//! naive reference written here (quadratic substring search, left/right scanning splitters,
//! repeated prefix/suffix stripping, i128 integer arithmetic, exact rounding by truncation),
//! with the `regex` crate called directly for the four regex functions, and with a shape
//! table transcribed from the `#[dispatch]` signatures for "every other arity or type fails".

use super::c03::{vjson, vunjson};
use super::Prop;
use crate::engine::{par_chunks, random_genomes, Acc, Failure, Opts};
use crate::g::G;
use crate::run::{eval, Res};
use crate::val::*;
use rscel::CelValue;
use serde_json::{json, Value};
use std::collections::BTreeMap;

pub static PROP: Prop = Prop {
    id: "C15",
    rule: "exhaustive grids: (a) every (string;string) and (string;string,string) built-in x 34 haystacks x 27 needles \
           (empty, overlapping, absent, longer than the haystack, multi-byte, case-folding specials) x 5 replacements; \
           (b) unary string built-ins x the haystack pool; splitAt x every haystack x every index -2..=len+2 and boundary ints; \
           (c) 4 regex built-ins x 46 valid/invalid patterns x 18 haystacks x 7 replacement templates, plus escaped-literal \
           patterns against the naive substring oracle; (d) 7 unary math built-ins x the int/uint/double boundary pools and \
           pow x all ordered pairs (also in the overflow-checking build); (e) shape grid: every built-in x {free, method} x \
           every tuple of arity 0..2 over one value of each of the 12 types and arity 3..4 over 5 types. Random: genome-decoded \
           calls (texts up to 24 alphabet pieces, needles cut out of the haystack with case flips, patterns from a regex grammar \
           incl. corrupted ones, replacement templates, boundary-heavy numbers, wrong shapes). Each call is run with literal \
           operands (compile-time folding) and with bound operands (VM). Non-trivial = an operand text is non-ASCII or (for \
           case-sensitive functions) carries case-folding letters, the needle is empty/overlapping/absent, a pattern has a meta \
           construct or is invalid, a numeric operand is a pool boundary value or the expected outcome is a failure/saturation, \
           or the tuple is outside the shape table; distinct by canonical call.",
    assumptions: &[
        "std's Unicode tables (to_lowercase, to_uppercase, char::is_whitespace) are the reference for case mapping and white space",
        "the regex crate (same locked version, called directly) is the reference for matches/matchCaptures/matchReplace/matchReplaceOnce; matches is a search",
        "the host's f64 sqrt/log10/log2/powf are the IEEE reference for the double forms; pow(double, integer) is compared with powf within 1e-9 relative (|exponent| <= 65536), absolute slack in the subnormal range; larger exponents only where the exact result is 0, 1 or infinite",
        "splitAt's index and size() count UTF-8 bytes (size of a non-ASCII string: byte or code point count accepted)",
        "integer results may be int or uint as long as the numeric value is exact; ceil/floor/round of a double may also be an integral double",
        "unspecified and only checked for 'no panic': pow(int, double), an empty literal pattern for replace/remove/trim*Matches, explicit trailing null arguments and a null receiver (null padding), ceil/floor/round(NaN), size(map)",
        "a string built-in called as a free function with the receiver as first argument (or a math built-in called as a method) may fail or give the value of the other form (USAGE.md allows both forms, the dispatcher one)",
    ],
    run,
    replay,
    both_profiles: super::always_both,
};

// ---------------------------------------------------------------------------
// Function table (transcribed from rscel/src/context/default_funcs/**)

const STR1: &[&str] = &["toLower", "toUpper", "trim", "trimStart", "trimEnd", "splitWhiteSpace"];
const STR2: &[&str] = &[
    "contains", "containsI", "startsWith", "startsWithI", "endsWith", "endsWithI", "split", "rsplit", "remove",
    "trimStartMatches", "trimEndMatches", "matches", "matchCaptures",
];
const STR3: &[&str] = &["replace", "matchReplace", "matchReplaceOnce"];
const MATH1: &[&str] = &["abs", "sqrt", "log", "lg", "ceil", "floor", "round"];

fn all_funcs() -> Vec<&'static str> {
    let mut v: Vec<&'static str> = Vec::new();
    v.extend(STR1);
    v.extend(STR2);
    v.extend(STR3);
    v.push("splitAt");
    v.push("size");
    v.extend(MATH1);
    v.push("pow");
    v
}

fn intern(name: &str) -> Option<&'static str> {
    all_funcs().into_iter().find(|f| *f == name)
}

fn is_math(f: &str) -> bool {
    MATH1.contains(&f) || f == "pow"
}

fn is_regex(f: &str) -> bool {
    matches!(f, "matches" | "matchCaptures" | "matchReplace" | "matchReplaceOnce")
}

#[derive(Clone, Debug)]
pub struct Call {
    pub func: &'static str,
    pub method: bool,
    /// receiver (meaningful only when `method`)
    pub this: V,
    pub args: Vec<V>,
}

impl Call {
    fn method(func: &'static str, this: V, args: Vec<V>) -> Call {
        Call { func, method: true, this, args }
    }
    fn free(func: &'static str, args: Vec<V>) -> Call {
        Call { func, method: false, this: V::Null, args }
    }
    fn canon(&self) -> String {
        let a: Vec<String> = self.args.iter().map(|x| x.canon()).collect();
        if self.method {
            format!("{}.{}({})", self.this.canon(), self.func, a.join(", "))
        } else {
            format!("{}({})", self.func, a.join(", "))
        }
    }
    fn lit_src(&self) -> Option<String> {
        let mut a = Vec::new();
        for x in &self.args {
            a.push(x.lit()?);
        }
        Some(if self.method {
            format!("({}).{}({})", self.this.lit()?, self.func, a.join(", "))
        } else {
            format!("{}({})", self.func, a.join(", "))
        })
    }
    fn var_src(&self) -> (String, Vec<(String, V)>) {
        let mut binds = Vec::new();
        let mut names = Vec::new();
        for (i, x) in self.args.iter().enumerate() {
            let n = format!("a{}", i);
            binds.push((n.clone(), x.clone()));
            names.push(n);
        }
        if self.method {
            binds.push(("r".to_string(), self.this.clone()));
            (format!("r.{}({})", self.func, names.join(", ")), binds)
        } else {
            (format!("{}({})", self.func, names.join(", ")), binds)
        }
    }
    fn shape(&self) -> String {
        let a: Vec<&str> = self.args.iter().map(|x| x.type_name()).collect();
        if self.method {
            format!("{}.({})", self.this.type_name(), a.join(","))
        } else {
            format!("({})", a.join(","))
        }
    }
    fn to_json(&self) -> Value {
        json!({"kind": "call", "func": self.func, "method": self.method, "this": vjson(&self.this),
               "args": self.args.iter().map(vjson).collect::<Vec<_>>()})
    }
    fn from_json(d: &Value) -> Option<Call> {
        let func = intern(d.get("func")?.as_str()?)?;
        let method = d.get("method")?.as_bool()?;
        let this = vunjson(d.get("this")?)?;
        let mut args = Vec::new();
        for a in d.get("args")?.as_array()? {
            args.push(vunjson(a)?);
        }
        Some(Call { func, method, this, args })
    }
}

// ---------------------------------------------------------------------------
// Expectations

#[derive(Clone, Debug)]
pub enum Exp {
    /// exactly this value (canonical text; doubles bit-exact, all NaNs one value)
    Val(V),
    /// any of these values
    AnyOf(Vec<V>),
    /// an int or uint whose numeric value is one of these; `dbl`: an integral double is fine too
    Num { vals: Vec<i128>, dbl: bool },
    /// a double within tolerance of this one
    Close { want: f64, sat: bool },
    /// a list of strings that rejoins (in reverse when `rev`) with `d` to `s`
    Rejoin { s: String, d: String, rev: bool },
    Fail,
    Unspecified(&'static str),
}

#[derive(Clone, Debug)]
pub struct Expect {
    pub exp: Exp,
    /// a failure is acceptable too
    pub or_fail: bool,
    /// input sub-class for signatures (never a concrete value)
    pub tag: &'static str,
}

fn ex(exp: Exp, tag: &'static str) -> Expect {
    Expect { exp, or_fail: false, tag }
}
fn ex_or_fail(exp: Exp, tag: &'static str) -> Expect {
    Expect { exp, or_fail: true, tag }
}
fn fail(tag: &'static str) -> Expect {
    ex(Exp::Fail, tag)
}
fn unspec(why: &'static str, tag: &'static str) -> Expect {
    ex(Exp::Unspecified(why), tag)
}

fn show_exp(e: &Expect) -> String {
    let core = match &e.exp {
        Exp::Val(v) => v.canon(),
        Exp::AnyOf(vs) => format!("one of {}", vs.iter().map(|v| v.canon()).collect::<Vec<_>>().join(" | ")),
        Exp::Num { vals, dbl } => format!(
            "the integer {}{}",
            vals.iter().map(|v| v.to_string()).collect::<Vec<_>>().join(" or "),
            if *dbl { " (int, uint or integral double)" } else { "" }
        ),
        Exp::Close { want, sat } => format!("{} ({})", canon_f64(*want), if *sat { "saturation only" } else { "rel 1e-9" }),
        Exp::Rejoin { s, d, rev } => format!("pieces that rejoin{} with {:?} to {:?}", if *rev { " in reverse" } else { "" }, d, s),
        Exp::Fail => "an error".to_string(),
        Exp::Unspecified(w) => format!("unspecified ({})", w),
    };
    if e.or_fail {
        format!("{} or an error", core)
    } else {
        core
    }
}

fn strs(v: Vec<String>) -> V {
    V::List(v.into_iter().map(V::Str).collect())
}

// ---------------------------------------------------------------------------
// Naive string references

/// quadratic substring test on bytes (UTF-8 is self-synchronising, so byte containment of
/// valid strings is scalar-sequence containment)
fn naive_find_from(h: &[u8], n: &[u8], from: usize) -> Option<usize> {
    if n.len() > h.len() {
        return None;
    }
    let mut i = from;
    while i + n.len() <= h.len() {
        let mut ok = true;
        for k in 0..n.len() {
            if h[i + k] != n[k] {
                ok = false;
                break;
            }
        }
        if ok {
            return Some(i);
        }
        i += 1;
    }
    None
}

fn naive_contains(h: &str, n: &str) -> bool {
    naive_find_from(h.as_bytes(), n.as_bytes(), 0).is_some()
}

fn naive_prefix(h: &str, n: &str) -> bool {
    let (h, n) = (h.as_bytes(), n.as_bytes());
    n.len() <= h.len() && (0..n.len()).all(|k| h[k] == n[k])
}

fn naive_suffix(h: &str, n: &str) -> bool {
    let (h, n) = (h.as_bytes(), n.as_bytes());
    n.len() <= h.len() && (0..n.len()).all(|k| h[h.len() - n.len() + k] == n[k])
}

/// rightmost occurrence that ends at or before `end`
fn naive_rfind_before(h: &[u8], n: &[u8], end: usize) -> Option<usize> {
    if n.len() > end {
        return None;
    }
    let mut i = end - n.len();
    loop {
        if (0..n.len()).all(|k| h[i + k] == n[k]) {
            return Some(i);
        }
        if i == 0 {
            return None;
        }
        i -= 1;
    }
}

fn sub(h: &str, a: usize, b: usize) -> String {
    String::from_utf8_lossy(&h.as_bytes()[a..b]).to_string()
}

/// left-to-right scanner; `d` non-empty
fn scan_left(s: &str, d: &str) -> Vec<String> {
    let mut out = Vec::new();
    let mut start = 0usize;
    while let Some(i) = naive_find_from(s.as_bytes(), d.as_bytes(), start) {
        out.push(sub(s, start, i));
        start = i + d.len();
    }
    out.push(sub(s, start, s.len()));
    out
}

/// right-to-left scanner (pieces in right-to-left order); `d` non-empty
fn scan_right(s: &str, d: &str) -> Vec<String> {
    let mut out = Vec::new();
    let mut end = s.len();
    while let Some(i) = naive_rfind_before(s.as_bytes(), d.as_bytes(), end) {
        out.push(sub(s, i + d.len(), end));
        end = i;
    }
    out.push(sub(s, 0, end));
    out
}

fn strip_prefixes(s: &str, p: &str) -> String {
    let mut cur = s;
    while !p.is_empty() && naive_prefix(cur, p) {
        cur = &cur[p.len()..];
    }
    cur.to_string()
}

fn strip_suffixes(s: &str, p: &str) -> String {
    let mut cur = s;
    while !p.is_empty() && naive_suffix(cur, p) {
        cur = &cur[..cur.len() - p.len()];
    }
    cur.to_string()
}

fn split_ws(s: &str) -> Vec<String> {
    let mut out = Vec::new();
    let mut cur = String::new();
    for c in s.chars() {
        if c.is_whitespace() {
            if !cur.is_empty() {
                out.push(std::mem::take(&mut cur));
            }
        } else {
            cur.push(c);
        }
    }
    if !cur.is_empty() {
        out.push(cur);
    }
    out
}

/// white space every trim must remove (USAGE: "Trim ASCII whitespace")
fn must_trim(c: char) -> bool {
    matches!(c, ' ' | '\t' | '\n' | '\r')
}

/// All results a trim may give: a substring whose removed ends are white space (Unicode
/// definition = the widest reading) and which has no ASCII white space left at a trimmed end.
fn trim_candidates(s: &str, start: bool, end: bool) -> Vec<V> {
    let idx: Vec<usize> = s.char_indices().map(|(i, _)| i).chain(std::iter::once(s.len())).collect();
    let mut lead = 0; // number of leading white-space chars
    for c in s.chars() {
        if c.is_whitespace() {
            lead += 1;
        } else {
            break;
        }
    }
    let mut trail = 0;
    for c in s.chars().rev() {
        if c.is_whitespace() {
            trail += 1;
        } else {
            break;
        }
    }
    let n = idx.len() - 1; // chars
    let mut out: Vec<V> = Vec::new();
    for i in 0..=(if start { lead } else { 0 }) {
        for j in 0..=(if end { trail } else { 0 }) {
            if i + j > n {
                continue;
            }
            let r = &s[idx[i]..idx[n - j]];
            if start && r.chars().next().map_or(false, must_trim) {
                continue;
            }
            if end && r.chars().next_back().map_or(false, must_trim) {
                continue;
            }
            let v = V::s(r);
            if !out.contains(&v) {
                out.push(v);
            }
        }
    }
    out
}

// ---------------------------------------------------------------------------
// Numeric references

fn ilog(n: i128, base: i128) -> i128 {
    // floor(log_base(n)) for n >= 1 by repeated division
    let mut k = 0;
    let mut x = n;
    while x >= base {
        x /= base;
        k += 1;
    }
    k
}

/// exact integer power or None when it leaves the i128 range (|b| >= 2)
fn ipow(b: i128, e: i128) -> Option<i128> {
    match b {
        0 => Some(if e == 0 { 1 } else { 0 }),
        1 => Some(1),
        -1 => Some(if e % 2 == 0 { 1 } else { -1 }),
        _ => {
            if e > 127 {
                return None;
            }
            let mut r: i128 = 1;
            for _ in 0..e {
                r = r.checked_mul(b)?;
            }
            Some(r)
        }
    }
}

fn in_type(v: i128, unsigned: bool) -> bool {
    if unsigned {
        v >= 0 && v <= u64::MAX as i128
    } else {
        v >= i64::MIN as i128 && v <= i64::MAX as i128
    }
}

/// ceil / floor / round-half-away-from-zero of a finite double, exactly, as a double
fn round_ref(f: &str, x: f64) -> f64 {
    let t = x.trunc();
    let frac = x - t; // exact: |x| < 2^52 has an exactly representable fraction, larger x are integers
    match f {
        "ceil" => {
            if frac > 0.0 {
                t + 1.0
            } else {
                t
            }
        }
        "floor" => {
            if frac < 0.0 {
                t - 1.0
            } else {
                t
            }
        }
        _ => {
            if frac >= 0.5 {
                t + 1.0
            } else if frac <= -0.5 {
                t - 1.0
            } else {
                t
            }
        }
    }
}

const TWO63: f64 = 9223372036854775808.0;

fn model_math1(f: &'static str, a: &V) -> Expect {
    match (f, a) {
        ("abs", V::Int(i)) => match i.checked_abs() {
            Some(v) => ex(Exp::Num { vals: vec![v as i128], dbl: false }, "int"),
            None => fail("int-min"),
        },
        ("abs", V::UInt(u)) => ex(Exp::Num { vals: vec![*u as i128], dbl: false }, "uint"),
        ("abs", V::F(x)) => ex(Exp::Val(V::F(x.abs())), "double"),
        ("sqrt", V::Int(i)) => {
            if *i < 0 {
                // DESIGN 3.3: NaN or a failure
                ex_or_fail(Exp::Val(V::F(f64::NAN)), "negative-int")
            } else {
                ex(Exp::Val(V::F((*i as f64).sqrt())), "int")
            }
        }
        ("sqrt", V::UInt(u)) => ex(Exp::Val(V::F((*u as f64).sqrt())), "uint"),
        ("sqrt", V::F(x)) => ex(Exp::Val(V::F(x.sqrt())), "double"),
        ("log", V::Int(i)) | ("lg", V::Int(i)) => {
            if *i <= 0 {
                fail("nonpositive-int")
            } else {
                ex(Exp::Num { vals: vec![ilog(*i as i128, if f == "log" { 10 } else { 2 })], dbl: false }, "int")
            }
        }
        ("log", V::UInt(u)) | ("lg", V::UInt(u)) => {
            if *u == 0 {
                fail("zero-uint")
            } else {
                ex(Exp::Num { vals: vec![ilog(*u as i128, if f == "log" { 10 } else { 2 })], dbl: false }, "uint")
            }
        }
        ("log", V::F(x)) => ex(Exp::Val(V::F(x.log10())), "double"),
        ("lg", V::F(x)) => ex(Exp::Val(V::F(x.log2())), "double"),
        ("ceil" | "floor" | "round", V::Int(i)) => ex(Exp::Num { vals: vec![*i as i128], dbl: false }, "int"),
        ("ceil" | "floor" | "round", V::UInt(u)) => ex(Exp::Num { vals: vec![*u as i128], dbl: false }, "uint"),
        ("ceil" | "floor" | "round", V::F(x)) => {
            if x.is_nan() {
                return unspec("rounding NaN", "nan");
            }
            if x.is_infinite() {
                let sat = if *x > 0.0 { i64::MAX } else { i64::MIN };
                return ex_or_fail(Exp::Num { vals: vec![sat as i128], dbl: false }, "double-out-of-range");
            }
            let r = round_ref(f, *x);
            if r >= -TWO63 && r < TWO63 {
                ex(Exp::Num { vals: vec![r as i128], dbl: true }, "double-in-range")
            } else {
                let sat = if r > 0.0 { i64::MAX } else { i64::MIN };
                ex_or_fail(Exp::Num { vals: vec![sat as i128], dbl: false }, "double-out-of-range")
            }
        }
        _ => fail("wrong-type"),
    }
}

fn int_of(v: &V) -> Option<(i128, bool)> {
    match v {
        V::Int(i) => Some((*i as i128, false)),
        V::UInt(u) => Some((*u as i128, true)),
        _ => None,
    }
}

fn model_pow(a: &V, b: &V) -> Expect {
    match (a, b) {
        (V::Int(_) | V::UInt(_), V::Int(_) | V::UInt(_)) => {
            let (base, unsigned) = int_of(a).unwrap();
            let (e, _) = int_of(b).unwrap();
            let big = e >= (1i128 << 31) || e < -(1i128 << 31);
            if e < 0 {
                // 1/base^|e| is an integer only for base = 1 or -1; 0^negative is undefined
                return match base {
                    1 => ex_or_fail(Exp::Num { vals: vec![1], dbl: false }, "negative-exponent-unit-base"),
                    -1 => ex_or_fail(Exp::Num { vals: vec![if e % 2 == 0 { 1 } else { -1 }], dbl: false }, "negative-exponent-unit-base"),
                    _ => fail("negative-exponent"),
                };
            }
            if base == 0 && e == 0 {
                return ex_or_fail(Exp::Num { vals: vec![1], dbl: false }, "zero-to-zero");
            }
            match ipow(base, e) {
                // exponents beyond 32 bits only have a representable result for the bases 0, 1, -1:
                // the exact value or a failure
                Some(v) if in_type(v, unsigned) && big => ex_or_fail(Exp::Num { vals: vec![v], dbl: false }, "huge-exponent"),
                Some(v) if in_type(v, unsigned) => ex(Exp::Num { vals: vec![v], dbl: false }, "integers"),
                _ => fail(if big { "huge-exponent-overflow" } else { "overflow" }),
            }
        }
        (V::Int(_) | V::UInt(_), V::F(_)) => unspec("pow(int, double)", "integer-base-double-exponent"),
        (V::F(x), V::Int(_) | V::UInt(_)) => {
            let (n, _) = int_of(b).unwrap();
            let odd = n % 2 != 0;
            let mag = x.abs().powf(n as f64);
            let want = if x.is_sign_negative() && odd && !mag.is_nan() { -mag } else { mag };
            if n.abs() <= 65536 {
                ex(Exp::Close { want, sat: false }, "double-integer")
            } else if n.abs() > (1i128 << 53) && x.is_sign_negative() && odd && (mag.is_infinite() || mag == 0.0 || mag == 1.0) {
                // the exponent is not representable as a double, so its parity may be lost
                ex(Exp::AnyOf(vec![V::F(mag), V::F(-mag)]), "double-huge-integer")
            } else if mag.is_nan() || mag.is_infinite() || mag == 0.0 || x.abs() == 1.0 {
                ex(Exp::Close { want, sat: true }, "double-huge-integer")
            } else {
                unspec("pow(double, |integer| > 65536) with a finite non-trivial result: accumulated rounding is not bounded by the stated tolerance", "double-huge-integer")
            }
        }
        (V::F(x), V::F(y)) => ex(Exp::Close { want: x.powf(*y), sat: false }, "doubles"),
        _ => fail("wrong-type"),
    }
}

// ---------------------------------------------------------------------------
// The model

fn all_strs<'a>(args: &'a [V]) -> Option<Vec<&'a str>> {
    let mut v = Vec::new();
    for a in args {
        match a {
            V::Str(s) => v.push(s.as_str()),
            _ => return None,
        }
    }
    Some(v)
}

fn regex_model(f: &str, s: &str, a: &[&str]) -> Expect {
    let re = match regex::Regex::new(a[0]) {
        Ok(r) => r,
        Err(_) => return fail("invalid-pattern"),
    };
    match f {
        "matches" => ex(Exp::Val(V::Bool(re.is_match(s))), "regex"),
        "matchCaptures" => ex(
            Exp::Val(match re.captures(s) {
                None => V::Null,
                Some(c) => V::List(c.iter().map(|m| m.map_or(V::Null, |m| V::s(m.as_str()))).collect()),
            }),
            "regex",
        ),
        "matchReplace" => ex(Exp::Val(V::Str(re.replace_all(s, a[1]).into_owned())), "regex"),
        _ => ex(Exp::Val(V::Str(re.replace(s, a[1]).into_owned())), "regex"),
    }
}

/// `this` is a string and the arguments have the right arity and types
fn model_str(f: &'static str, s: &str, args: &[V]) -> Expect {
    if f == "splitAt" {
        return match args {
            [V::Int(i)] => {
                let i = *i;
                if i < 0 {
                    fail("negative-index")
                } else if i as u64 > s.len() as u64 {
                    fail("index-beyond-end")
                } else if !s.is_char_boundary(i as usize) {
                    fail("index-inside-char")
                } else {
                    ex(Exp::Val(strs(vec![s[..i as usize].to_string(), s[i as usize..].to_string()])), "boundary-index")
                }
            }
            _ => fail("wrong-type"),
        };
    }
    let want_args = if STR1.contains(&f) {
        0
    } else if STR2.contains(&f) {
        1
    } else {
        2
    };
    let a = match all_strs(args) {
        Some(a) if a.len() == want_args => a,
        _ => return fail("wrong-type"),
    };
    let lower = |x: &str| x.to_lowercase();
    match f {
        "toLower" => ex(Exp::Val(V::Str(s.to_lowercase())), "text"),
        "toUpper" => ex(Exp::Val(V::Str(s.to_uppercase())), "text"),
        "trim" => ex(Exp::AnyOf(trim_candidates(s, true, true)), "text"),
        "trimStart" => ex(Exp::AnyOf(trim_candidates(s, true, false)), "text"),
        "trimEnd" => ex(Exp::AnyOf(trim_candidates(s, false, true)), "text"),
        "splitWhiteSpace" => ex(Exp::Val(strs(split_ws(s))), "text"),
        "contains" => ex(Exp::Val(V::Bool(naive_contains(s, a[0]))), "text"),
        "startsWith" => ex(Exp::Val(V::Bool(naive_prefix(s, a[0]))), "text"),
        "endsWith" => ex(Exp::Val(V::Bool(naive_suffix(s, a[0]))), "text"),
        "containsI" => ex(Exp::Val(V::Bool(naive_contains(&lower(s), &lower(a[0])))), "text"),
        "startsWithI" => ex(Exp::Val(V::Bool(naive_prefix(&lower(s), &lower(a[0])))), "text"),
        "endsWithI" => ex(Exp::Val(V::Bool(naive_suffix(&lower(s), &lower(a[0])))), "text"),
        "split" | "rsplit" => {
            let rev = f == "rsplit";
            if a[0].is_empty() {
                ex(Exp::Rejoin { s: s.to_string(), d: String::new(), rev }, "empty-delimiter")
            } else {
                ex(Exp::Val(strs(if rev { scan_right(s, a[0]) } else { scan_left(s, a[0]) })), "text")
            }
        }
        "replace" | "remove" => {
            if a[0].is_empty() {
                unspec("empty literal pattern", "empty-pattern")
            } else {
                let to = if f == "replace" { a[1] } else { "" };
                ex(Exp::Val(V::Str(scan_left(s, a[0]).join(to))), "text")
            }
        }
        "trimStartMatches" | "trimEndMatches" => {
            if a[0].is_empty() {
                unspec("empty literal pattern", "empty-pattern")
            } else if f == "trimStartMatches" {
                ex(Exp::Val(V::Str(strip_prefixes(s, a[0]))), "text")
            } else {
                ex(Exp::Val(V::Str(strip_suffixes(s, a[0]))), "text")
            }
        }
        _ => regex_model(f, s, &a),
    }
}

pub fn model(c: &Call) -> Expect {
    if matches!(c.args.last(), Some(V::Null)) {
        return unspec("explicit trailing null argument (null padding)", "trailing-null");
    }
    if c.method && matches!(c.this, V::Null) {
        return unspec("null receiver (dispatcher reads it as a free call)", "null-receiver");
    }
    if c.method && matches!(&c.this, V::Map(m) if m.contains_key(c.func)) {
        // `m.size(..)` with a field named `size`: the field wins (C12) and what calling its value means is not this property's business
        return unspec("the receiver is a map with a field named like the method", "field-shadows-method");
    }
    if c.func == "size" {
        let (x, rest): (&V, &[V]) = if c.method {
            (&c.this, &c.args[..])
        } else if c.args.is_empty() {
            return fail("no-operand");
        } else {
            (&c.args[0], &c.args[1..])
        };
        if !rest.is_empty() {
            return fail("wrong-type");
        }
        return match x {
            V::Str(s) => {
                let mut vals = vec![s.len() as i128];
                let chars = s.chars().count() as i128;
                if chars != vals[0] {
                    vals.push(chars);
                }
                ex(Exp::Num { vals, dbl: false }, "string")
            }
            V::Bytes(b) => ex(Exp::Num { vals: vec![b.len() as i128], dbl: false }, "bytes"),
            V::List(l) => ex(Exp::Num { vals: vec![l.len() as i128], dbl: false }, "list"),
            V::Map(_) => unspec("size(map)", "map"),
            _ => fail("wrong-type"),
        };
    }
    if is_math(c.func) {
        // free form is the offered one; x.f(..) is read as f(x, ..)
        let mut args: Vec<V> = Vec::new();
        if c.method {
            args.push(c.this.clone());
        }
        args.extend(c.args.iter().cloned());
        let mut e = if c.func == "pow" {
            if args.len() == 2 {
                model_pow(&args[0], &args[1])
            } else {
                fail("wrong-arity")
            }
        } else if args.len() == 1 {
            model_math1(c.func, &args[0])
        } else {
            fail("wrong-arity")
        };
        if c.method && !matches!(e.exp, Exp::Fail | Exp::Unspecified(_)) {
            e.or_fail = true;
            e.tag = "method-form";
        }
        return e;
    }
    // string built-ins: method form is the offered one; f(x, ..) is read as x.f(..)
    let (this, rest): (&V, &[V]) = if c.method {
        (&c.this, &c.args[..])
    } else if c.args.is_empty() {
        return fail("no-operand");
    } else {
        (&c.args[0], &c.args[1..])
    };
    let s = match this {
        V::Str(s) => s,
        _ => return fail("wrong-type"),
    };
    let mut e = model_str(c.func, s, rest);
    if !c.method && !matches!(e.exp, Exp::Fail | Exp::Unspecified(_)) {
        e.or_fail = true;
        e.tag = "free-form";
    }
    e
}

// ---------------------------------------------------------------------------
// Judging

fn num_of(v: &V, dbl: bool) -> Option<i128> {
    match v {
        V::Int(i) => Some(*i as i128),
        V::UInt(u) => Some(*u as i128),
        V::F(f) if dbl && f.is_finite() && f.trunc() == *f && f.abs() < 1.0e30 => Some(*f as i128),
        _ => None,
    }
}

fn close(want: f64, got: f64, sat: bool) -> bool {
    if want.is_nan() || got.is_nan() {
        return want.is_nan() && got.is_nan();
    }
    if sat {
        // only the saturated outcome is compared
        if want.is_infinite() {
            return got.is_sign_negative() == want.is_sign_negative() && got.abs() > 1.0e300;
        }
        if want == 0.0 {
            return got.abs() < 1.0e-300;
        }
        return want == got;
    }
    if want.is_infinite() || got.is_infinite() {
        return want == got;
    }
    if want.abs() < f64::MIN_POSITIVE {
        // gradual underflow: relative accuracy is not defined in the subnormal range
        if got.abs() >= 2.0 * f64::MIN_POSITIVE {
            return false;
        }
        if want != 0.0 && got != 0.0 {
            return want.is_sign_negative() == got.is_sign_negative();
        }
        return true;
    }
    (got - want).abs() <= 1.0e-9 * want.abs()
}

fn res_value(r: &Res) -> Result<Option<V>, ()> {
    // Ok(Some(v)) value, Ok(None) a value outside the domain, Err(()) error
    match r {
        Res::Ok(CelValue::Err(_)) => Err(()),
        Res::Ok(cv) => Ok(V::from_cel(cv)),
        _ => Err(()),
    }
}

/// None = acceptable; Some(mode) = violation
pub fn judge(e: &Expect, got: &Res) -> Option<String> {
    if let Res::Panic(p) = got {
        return Some(format!("panic-{}", p.kind()));
    }
    let v = match res_value(got) {
        Err(()) => {
            return match &e.exp {
                Exp::Fail | Exp::Unspecified(_) => None,
                _ if e.or_fail => None,
                _ => Some("error-instead-of-value".to_string()),
            }
        }
        Ok(v) => v,
    };
    match &e.exp {
        Exp::Unspecified(_) => None,
        Exp::Fail => Some("value-instead-of-error".to_string()),
        _ => {
            let Some(v) = v else { return Some("wrong-value".to_string()) };
            let ok = match &e.exp {
                Exp::Val(w) => w.same(&v),
                Exp::AnyOf(ws) => ws.iter().any(|w| w.same(&v)),
                Exp::Num { vals, dbl } => num_of(&v, *dbl).map_or(false, |n| vals.contains(&n)),
                Exp::Close { want, sat } => match v {
                    V::F(g) => close(*want, g, *sat),
                    _ => false,
                },
                Exp::Rejoin { s, d, rev } => match &v {
                    V::List(l) => {
                        let mut parts: Vec<&str> = Vec::new();
                        let mut all = true;
                        for p in l {
                            match p {
                                V::Str(x) => parts.push(x.as_str()),
                                _ => all = false,
                            }
                        }
                        if *rev {
                            parts.reverse();
                        }
                        all && parts.join(d) == *s
                    }
                    _ => false,
                },
                _ => true,
            };
            if ok {
                None
            } else {
                Some("wrong-value".to_string())
            }
        }
    }
}

fn show_res(r: &Res) -> String {
    r.sum().show()
}

// ---------------------------------------------------------------------------
// Non-triviality (the stated rule, evaluated per case)

fn has_cased(s: &str) -> bool {
    s.chars().any(|c| c.is_lowercase() || c.is_uppercase())
}

fn case_function(f: &str) -> bool {
    matches!(f, "containsI" | "startsWithI" | "endsWithI" | "toLower" | "toUpper")
}

fn overlapping(h: &str, n: &str) -> bool {
    if n.is_empty() {
        return false;
    }
    let (hb, nb) = (h.as_bytes(), n.as_bytes());
    let mut from = 0;
    let mut prev: Option<usize> = None;
    while let Some(i) = naive_find_from(hb, nb, from) {
        if let Some(p) = prev {
            if i < p + nb.len() {
                return true;
            }
        }
        prev = Some(i);
        from = i + 1;
    }
    false
}

fn has_meta(p: &str) -> bool {
    p.chars().any(|c| "\\.+*?()|[]{}^$".contains(c))
}

fn pool_number(v: &V) -> bool {
    match v {
        V::Int(i) => int_pool().contains(i),
        V::UInt(u) => uint_pool().contains(u),
        V::F(f) => f64_pool().iter().any(|p| p.to_bits() == f.to_bits() || (p.is_nan() && f.is_nan())),
        _ => false,
    }
}

fn nontrivial(c: &Call, e: &Expect) -> (bool, &'static str) {
    if matches!(e.exp, Exp::Fail) && e.tag.starts_with("wrong") || e.tag == "no-operand" || e.tag == "free-form" || e.tag == "method-form" {
        return (true, "wrong-shape");
    }
    let mut texts: Vec<&str> = Vec::new();
    if let (true, V::Str(s)) = (c.method, &c.this) {
        texts.push(s);
    }
    for a in &c.args {
        if let V::Str(s) = a {
            texts.push(s);
        }
    }
    if texts.iter().any(|t| !t.is_ascii()) {
        return (true, "non-ascii-text");
    }
    if case_function(c.func) && texts.iter().any(|t| has_cased(t)) {
        return (true, "case-folding-text");
    }
    if is_regex(c.func) {
        if let Some(V::Str(p)) = c.args.first() {
            if matches!(e.exp, Exp::Fail) {
                return (true, "invalid-pattern");
            }
            if has_meta(p) {
                return (true, "meta-pattern");
            }
        }
    } else if STR2.contains(&c.func) || c.func == "replace" {
        if let (V::Str(h), Some(V::Str(n))) = (&c.this, c.args.first()) {
            if n.is_empty() {
                return (true, "empty-needle");
            }
            if !naive_contains(h, n) {
                return (true, "absent-needle");
            }
            if overlapping(h, n) {
                return (true, "overlapping-needle");
            }
        }
    }
    if c.args.iter().any(pool_number) || (c.method && pool_number(&c.this)) {
        return (true, "boundary-number");
    }
    if matches!(e.exp, Exp::Fail) || e.or_fail {
        return (true, "failure-or-saturation");
    }
    (false, "plain")
}

// ---------------------------------------------------------------------------
// One case

fn src_res(src: &str, binds: &[(String, V)]) -> Res {
    eval(src, binds).res
}

fn str_of(r: &Res) -> Option<String> {
    match res_value(r) {
        Ok(Some(V::Str(s))) => Some(s),
        _ => None,
    }
}

/// Check one call in both forms plus the defining equations that relate it to other built-ins.
/// signalling NaNs cannot be written as a literal (`0.0 / 0.0` is quiet) and libm treats them
/// differently from quiet ones (pow(sNaN, 0) is NaN, pow(qNaN, 0) is 1): every NaN operand is
/// replaced by the quiet NaN so that model, literal form and bound form see the same value
fn quiet_nans(v: &V) -> V {
    match v {
        V::F(f) if f.is_nan() => V::F(f64::NAN),
        V::List(l) => V::List(l.iter().map(quiet_nans).collect()),
        V::Map(m) => V::Map(m.iter().map(|(k, x)| (k.clone(), quiet_nans(x))).collect()),
        o => o.clone(),
    }
}

pub fn check_call(c: &Call, sub: &str, acc: &mut Acc) -> Vec<Failure> {
    let quieted = Call { func: c.func, method: c.method, this: quiet_nans(&c.this), args: c.args.iter().map(quiet_nans).collect() };
    let c = &quieted;
    let e = model(c);
    let canon = c.canon();
    let (nt, why) = nontrivial(c, &e);
    let class = format!("{}:{}", c.func, why);
    acc.case(sub, &canon, nt, &class);
    if let Exp::Unspecified(w) = &e.exp {
        acc.skip(w);
    }
    let (var_src, binds) = c.var_src();
    let lit_src = c.lit_src();
    let var = src_res(&var_src, &binds);
    let lit = lit_src.as_ref().map(|s| src_res(s, &[]));
    if lit.is_some() {
        acc.eval_only(sub, 1);
    }
    // one written-out sample per function (the numeric grid, which runs first, keeps three)
    let sample_it = sub != "shape-grid" && (sub != "math-grid" || matches!(c.func, "abs" | "round" | "pow"));
    let sample_key = if sample_it { c.func.to_string() } else { String::new() };
    acc.sample_classes.insert(String::new());
    acc.sample(&sample_key, || {
        json!({"func": c.func, "call": canon, "literal_form": lit_src, "bound_form": var_src, "expected": show_exp(&e),
               "literal_result": lit.as_ref().map(show_res), "bound_result": show_res(&var)})
    });
    let sig = |mode: &str| format!("c15:{}:{}:{}:{}", c.func, c.shape(), e.tag, mode);
    let mut out = Vec::new();
    let mut forms: Vec<(&str, &Res, String)> = vec![("var", &var, var_src.clone())];
    if let (Some(l), Some(s)) = (&lit, &lit_src) {
        forms.insert(0, ("lit", l, s.clone()));
    }
    for (form, got, src) in &forms {
        if let Some(mode) = judge(&e, got) {
            let mut d = c.to_json();
            d["form"] = json!(form);
            d["source"] = json!(src);
            d["expected"] = json!(show_exp(&e));
            d["actual"] = json!(show_res(got));
            out.push(Failure::new(
                sig(&mode),
                format!("{} [{}; {} form]: expected {}, got {}", src, canon, form, show_exp(&e), show_res(got)),
                d,
            ));
            break;
        }
    }
    if !out.is_empty() {
        return out;
    }
    // the two forms must agree even where the model is silent
    if let Some(l) = &lit {
        if l.sum().coarse() != var.sum().coarse() {
            let mut d = c.to_json();
            d["literal_result"] = json!(show_res(l));
            d["bound_result"] = json!(show_res(&var));
            out.push(Failure::new(
                sig("forms-disagree"),
                format!("{} -> {} but {} [{}] -> {}", lit_src.clone().unwrap_or_default(), show_res(l), var_src, canon, show_res(&var)),
                d,
            ));
            return out;
        }
    }
    // defining equations between built-ins, evaluated through rscel itself
    if c.method {
        if let V::Str(_) = &c.this {
            let rel: Option<(&str, String)> = match (c.func, c.args.len()) {
                ("trim", 0) => Some(("trim==trimStart.trimEnd", "r.trimEnd().trimStart()".to_string())),
                ("toLower", 0) => Some(("toLower-idempotent", "r.toLower().toLower()".to_string())),
                ("toUpper", 0) => Some(("toUpper-idempotent", "r.toUpper().toUpper()".to_string())),
                ("remove", 1) if matches!(&c.args[0], V::Str(p) if !p.is_empty()) => {
                    Some(("remove==replace-with-empty", "r.replace(a0, '')".to_string()))
                }
                _ => None,
            };
            if let Some((name, src2)) = rel {
                let other = src_res(&src2, &binds);
                acc.eval_only(sub, 1);
                if let Res::Panic(p) = &other {
                    out.push(Failure::new(
                        sig(&format!("relation-{}-panic-{}", name, p.kind())),
                        format!("{} with r={} panicked: {}", src2, c.this.canon(), p.msg),
                        c.to_json(),
                    ));
                } else if str_of(&var).is_some() && str_of(&var) != str_of(&other) {
                    out.push(Failure::new(
                        sig(&format!("relation-{}", name)),
                        format!("{} -> {} but {} -> {} [{}]", var_src, show_res(&var), src2, show_res(&other), canon),
                        c.to_json(),
                    ));
                }
            }
        }
    }
    out
}

// ---------------------------------------------------------------------------
// Pools

fn haystacks() -> Vec<&'static str> {
    vec![
        "", "a", "aaa", "aaaa", "abab", "abcabc", "AbC", "hello world", "  x  ", "\t a b\n", "x\r\ny", "a.b.c", "a,b,,c",
        ",a,", "é", "héllo", "ß", "straße", "STRASSE", "İ", "i\u{0307}", "ǅ", "ǆx", "Σας", "ΣΑΣ", "σας", "日本語", "a😀b",
        "😀😀", "\u{00a0}x\u{2003}", "a\u{0301}", " \u{000b}y\u{000c} ", "$1 {a}", "a\\b",
    ]
}

fn needles() -> Vec<&'static str> {
    vec![
        "", "a", "aa", "b", "ab", "abc", "z", "hello world!", "A", "l", " ", ",", ".", "é", "ss", "SS", "ß", "i", "İ", "ς",
        "σ", "Σ", "ǆ", "😀", "日", "\u{0301}", "\\",
    ]
}

fn replacements() -> Vec<&'static str> {
    vec!["", "-", "xy", "é", "$0"]
}

const PATTERNS: &[&str] = &[
    "a", "ab", ".", "a*", "a+", "a?", "^a", "a$", "^$", "^.*$", "a|b", "(a)(b)?", "(a)|(b)", "(?P<n>a+)", "(?P<n>a)(?P<m>b)?",
    "[ab]+", "[^a]", "[a-c]{2}", "\\d+", "\\w+", "\\s", "\\bx", "(?i)abc", "(?i)σ", "\\p{L}+", "é", ".*", "(.)(.)", "a{2,3}",
    "a*?", "(?:ab)+", "\\.", "\\$", "x*", "(a*)(a*)", "日|😀", "(?s).", "(?m)^", "[[:alpha:]]",
    // invalid
    "(", "[a", "a{2,1}", "*a", "\\q", "(?P<n>a)(?P<n>b)", "\\",
];

fn regex_haystacks() -> Vec<&'static str> {
    vec![
        "", "a", "aaa", "ab", "abab", "abcabc", "ABC", "b", "x y", "a1 b22", "é", "héllo", "Σας", "日本語", "a😀b", "a.b", "$a",
        "a\nb",
    ]
}

const REP_TEMPLATES: &[&str] = &["", "-", "$0", "[$1]", "${n}!", "$2$1", "$$x$1a"];

fn extra_ints() -> Vec<i64> {
    vec![4, 5, 8, 9, 16, 31, 32, 33, 62, 63, 64, 65, 99, 1000, 999, -3, -4, -8, -63, -64, (1 << 32) + 1, (1 << 32) + 2, -(1 << 32), 1 << 62, 1000000000000000000]
}

fn extra_uints() -> Vec<u64> {
    vec![4, 8, 9, 16, 31, 32, 33, 62, 63, 64, 65, 99, 100, 1000, (1 << 32) + 2, 1 << 62, 10000000000000000000]
}

fn extra_f64() -> Vec<f64> {
    vec![
        0.25, 4.0, 8.0, 9.0, 16.0, 64.0, 100.0, 1024.0, 0.3, -0.3, -0.25, -4.0, -8.0, 2.4999999999999996, -2.4999999999999996,
        -0.49999999999999994, 4503599627370495.5, -4503599627370495.5, 4503599627370497.0, 1e10, 1e-10, 1.0000000001, 0.9999999999,
        -9223372036854775808.0, -9223372036854777856.0, 33.0, 63.0, 1023.0, -1074.0, -1075.0,
    ]
}

fn number_pool() -> Vec<V> {
    let mut p: Vec<V> = Vec::new();
    p.extend(int_pool().into_iter().chain(extra_ints()).map(V::Int));
    p.extend(uint_pool().into_iter().chain(extra_uints()).map(V::UInt));
    p.extend(f64_pool().into_iter().chain(extra_f64()).map(V::F));
    p
}

/// one value of every type
fn type_pool() -> Vec<V> {
    let mut m = BTreeMap::new();
    m.insert("k".to_string(), V::Int(1));
    vec![
        V::s("a"),
        V::Int(3),
        V::UInt(3),
        V::F(1.5),
        V::Bool(true),
        V::Bytes(vec![0x61]),
        V::List(vec![V::Int(1)]),
        V::Map(m),
        V::Null,
        V::Type("int".into()),
        V::Ts(0, 0),
        V::Dur(1_000_000_000),
    ]
}

fn small_type_pool() -> Vec<V> {
    vec![V::s("a"), V::Int(3), V::F(1.5), V::List(vec![V::Int(1)]), V::Null]
}

/// all argument tuples of total length 0..=max over the pools (full pool up to length 2)
fn tuples(max: usize) -> Vec<Vec<V>> {
    let full = type_pool();
    let small = small_type_pool();
    let mut out: Vec<Vec<V>> = vec![vec![]];
    let mut level: Vec<Vec<V>> = vec![vec![]];
    for len in 1..=max {
        let pool = if len <= 2 { &full } else { &small };
        let mut next = Vec::new();
        for t in &level {
            // longer tuples extend the short ones whose members are all in the small pool
            if len > 2 && !t.iter().all(|x| small.iter().any(|s| s.same(x))) {
                continue;
            }
            for v in pool {
                let mut n = t.clone();
                n.push(v.clone());
                next.push(n);
            }
        }
        out.extend(next.iter().cloned());
        level = next;
    }
    out
}

// ---------------------------------------------------------------------------
// Random calls

const TEXT_ALPHABET: &[&str] = &[
    "a", "b", "A", "B", "ab", "aa", "z", "0", " ", "\t", "\n", "\r", ",", ".", "-", "$", "\\", "(", "{", "é", "É", "ü", "ß", "SS",
    "ss", "İ", "i", "I", "ı", "i\u{0307}", "ǅ", "ǆ", "Ǆ", "Σ", "ς", "σ", "K", "ſ", "→", "日", "😀", "\u{0301}", "\u{00a0}",
    "\u{2003}", "\u{0085}", "\u{000b}", "\u{000c}", "\u{200b}", "\u{feff}",
];

fn gen_text(g: &mut G, max: usize) -> String {
    match g.below(8) {
        0 => g.pick(&haystacks()).to_string(),
        _ => {
            let n = g.below(max + 1);
            let mut s = String::new();
            // a small sub-alphabet makes repeats (and so overlaps) likely
            let narrow = g.flag();
            let base = g.below(TEXT_ALPHABET.len());
            for _ in 0..n {
                let i = if narrow { (base + g.below(3)) % TEXT_ALPHABET.len() } else { g.below(TEXT_ALPHABET.len()) };
                s.push_str(TEXT_ALPHABET[i]);
            }
            s
        }
    }
}

fn flip_case(g: &mut G, s: &str) -> String {
    let mut o = String::new();
    for c in s.chars() {
        match g.below(4) {
            0 => o.extend(c.to_uppercase()),
            1 => o.extend(c.to_lowercase()),
            _ => o.push(c),
        }
    }
    o
}

fn gen_needle(g: &mut G, h: &str) -> String {
    match g.below(8) {
        0 => String::new(),
        1 => g.pick(&needles()).to_string(),
        2 | 3 | 4 => {
            // a slice of the haystack
            let idx: Vec<usize> = h.char_indices().map(|(i, _)| i).chain(std::iter::once(h.len())).collect();
            let a = g.below(idx.len());
            let b = a + g.below((idx.len() - a).min(4));
            h[idx[a]..idx[b]].to_string()
        }
        5 => {
            let idx: Vec<usize> = h.char_indices().map(|(i, _)| i).chain(std::iter::once(h.len())).collect();
            let a = g.below(idx.len());
            let b = a + g.below((idx.len() - a).min(4));
            flip_case(g, &h[idx[a]..idx[b]])
        }
        _ => gen_text(g, 3),
    }
}

fn gen_term(g: &mut G, depth: u32) -> String {
    let kinds = if depth > 0 { 12 } else { 9 };
    let mut quant = true;
    let atom = match g.below(kinds) {
        0 | 1 | 2 => g.pick_str(&["a", "b", "c", "ab", "é", "日", "ß", "A", "1", " "]).to_string(),
        3 => ".".to_string(),
        4 => g.pick_str(&["[ab]", "[^a]", "[a-c]", "[é日]", "[[:alpha:]]", "[0-9]", "[^\\n]"]).to_string(),
        5 => g.pick_str(&["\\d", "\\w", "\\s", "\\p{L}", "\\p{Lu}", "\\D", "\\W", "\\S"]).to_string(),
        6 => g.pick_str(&["\\.", "\\$", "\\(", "\\\\", "\\[", "\\*"]).to_string(),
        7 => {
            quant = false;
            g.pick_str(&["^", "$", "\\b", "\\B", "\\A", "\\z"]).to_string()
        }
        8 => {
            quant = false;
            g.pick_str(&["(?i)", "(?s)", "(?m)", "(?U)", "(?x)"]).to_string()
        }
        9 => format!("({})", gen_pattern(g, depth - 1)),
        10 => format!("(?:{})", gen_pattern(g, depth - 1)),
        _ => {
            let name = g.pick_str(&["n", "m", "w1"]);
            if g.flag() {
                format!("(?P<{}>{})", name, gen_pattern(g, depth - 1))
            } else {
                format!("(?<{}>{})", name, gen_pattern(g, depth - 1))
            }
        }
    };
    if !quant {
        return atom;
    }
    let q = match g.below(12) {
        0..=6 => "",
        7 => "*",
        8 => "+",
        9 => "?",
        _ => g.pick_str(&["{2}", "{1,2}", "*?", "+?", "{0,}", "??"]),
    };
    format!("{}{}", atom, q)
}

fn gen_pattern(g: &mut G, depth: u32) -> String {
    let n_alt = if g.chance(48) { 2 } else { 1 };
    let mut alts = Vec::new();
    for _ in 0..n_alt {
        let n = 1 + g.below(3);
        let mut s = String::new();
        for _ in 0..n {
            s.push_str(&gen_term(g, depth));
        }
        alts.push(s);
    }
    alts.join("|")
}

fn gen_regex(g: &mut G) -> String {
    let p = gen_pattern(g, 2);
    if g.chance(36) {
        // corrupt it
        match g.below(8) {
            0 => format!("{}(", p),
            1 => format!("{}[a", p),
            2 => format!("{}\\", p),
            3 => format!("*{}", p),
            4 => format!("{}a{{2,1}}", p),
            5 => format!("(?P<n>a){}(?P<n>b)", p),
            6 => format!("{}\\q", p),
            _ => format!("{})", p),
        }
    } else {
        p
    }
}

fn gen_template(g: &mut G) -> String {
    let n = g.below(4);
    let mut s = String::new();
    for _ in 0..n {
        s.push_str(g.pick_str(&["$0", "$1", "${n}", "$2", "$$", "x", "-", "${1}a", "$1a", "é", "\\", "$", "${m}", "$n"]));
    }
    s
}

fn gen_regex_text(g: &mut G) -> String {
    let n = g.below(9);
    let mut s = String::new();
    for _ in 0..n {
        s.push_str(g.pick_str(&["a", "b", "c", "ab", "é", "日", "ß", "A", "1", " ", ".", "$", "(", "\\", "\n", "Σ", "aa"]));
    }
    s
}

fn gen_number(g: &mut G) -> V {
    match g.below(7) {
        0 | 1 => V::Int(gen_int(g)),
        2 => V::Int(g.range(-70, 70)),
        3 => V::UInt(gen_uint(g)),
        4 => V::UInt(g.below(70) as u64),
        _ => V::F(gen_f64(g)),
    }
}

fn gen_call(g: &mut G) -> Call {
    match g.below(16) {
        0..=3 => {
            let f = *g.pick(STR2);
            let f = if is_regex(f) { "contains" } else { f };
            let h = gen_text(g, 24);
            let n = gen_needle(g, &h);
            Call::method(f, V::Str(h), vec![V::Str(n)])
        }
        4 => {
            let h = gen_text(g, 24);
            let n = gen_needle(g, &h);
            let to = gen_text(g, 2);
            Call::method("replace", V::Str(h), vec![V::Str(n), V::Str(to)])
        }
        5 | 6 => Call::method(*g.pick(STR1), V::Str(gen_text(g, 24)), vec![]),
        7 => {
            let h = gen_text(g, 12);
            let i = match g.below(4) {
                0 => gen_int(g),
                _ => g.range(-2, h.len() as i64 + 2),
            };
            Call::method("splitAt", V::Str(h), vec![V::Int(i)])
        }
        8 | 9 => {
            let f = *g.pick(&["matches", "matchCaptures", "matchReplace", "matchReplaceOnce"]);
            let h = gen_regex_text(g);
            let p = gen_regex(g);
            let mut args = vec![V::Str(p)];
            if f.starts_with("matchReplace") {
                args.push(V::Str(gen_template(g)));
            }
            Call::method(f, V::Str(h), args)
        }
        10 | 11 => Call::free(*g.pick(MATH1), vec![gen_number(g)]),
        12 | 13 => Call::free("pow", vec![gen_number(g), gen_number(g)]),
        14 => {
            let x = match g.below(3) {
                0 => V::Str(gen_text(g, 24)),
                1 => V::Bytes(gen_bytes(g, 8)),
                _ => V::List((0..g.below(5)).map(|_| V::Int(1)).collect()),
            };
            if g.flag() {
                Call::method("size", x, vec![])
            } else {
                Call::free("size", vec![x])
            }
        }
        _ => {
            // any function, any form, any tuple
            let fs = all_funcs();
            let f = *g.pick(&fs);
            let n = g.below(4);
            let args: Vec<V> = (0..n).map(|_| gen_value(g, 1)).collect();
            if g.flag() {
                Call::method(f, gen_value(g, 1), args)
            } else {
                Call::free(f, args)
            }
        }
    }
}

fn check_random(genome: &[u8], acc: &mut Acc) -> Vec<Failure> {
    let mut g = G::new(genome);
    let c = gen_call(&mut g);
    check_call(&c, "random", acc)
}

// ---------------------------------------------------------------------------
// Escaped-literal patterns against the naive oracle (independent of the regex crate)

fn escape_literal(n: &str) -> String {
    let mut o = String::new();
    for c in n.chars() {
        if "\\.+*?()|[]{}^$#&-~".contains(c) {
            o.push('\\');
        }
        o.push(c);
    }
    o
}

fn check_literal_regex(h: &str, n: &str, acc: &mut Acc) -> Vec<Failure> {
    let p = escape_literal(n);
    let canon = format!("{:?} ~ literal {:?}", h, p);
    acc.case("regex-literal", &canon, !h.is_ascii() || !n.is_ascii() || !naive_contains(h, n), "regex-literal");
    let binds = vec![
        ("r".to_string(), V::s(h)),
        ("a0".to_string(), V::Str(p.clone())),
        ("a1".to_string(), V::s("<>")),
    ];
    let pieces = scan_left(h, n);
    let once = if pieces.len() > 1 {
        format!("{}<>{}", pieces[0], &h[pieces[0].len() + n.len()..])
    } else {
        h.to_string()
    };
    let wants: Vec<(&str, &str, V)> = vec![
        ("matches", "r.matches(a0)", V::Bool(naive_contains(h, n))),
        ("matchCaptures", "r.matchCaptures(a0)", if naive_contains(h, n) { strs(vec![n.to_string()]) } else { V::Null }),
        ("matchReplace", "r.matchReplace(a0, a1)", V::Str(pieces.join("<>"))),
        ("matchReplaceOnce", "r.matchReplaceOnce(a0, a1)", V::Str(once)),
    ];
    let mut out = Vec::new();
    for (f, src, want) in wants {
        let got = src_res(src, &binds);
        acc.eval_only("regex-literal", 1);
        let e = ex(Exp::Val(want), "escaped-literal");
        if let Some(mode) = judge(&e, &got) {
            out.push(Failure::new(
                format!("c15:{}:string.(string):escaped-literal:{}", f, mode),
                format!("{} with r={:?} a0={:?} a1=\"<>\": expected {}, got {}", src, h, p, show_exp(&e), show_res(&got)),
                json!({"kind": "literal-regex", "h": h, "n": n}),
            ));
        }
    }
    out
}

// ---------------------------------------------------------------------------
// Run

fn run_grid(acc: &mut Acc, opts: &Opts, sub: &str, calls: &[Call]) {
    par_chunks(acc, opts.threads, calls, |c, a| {
        for f in check_call(c, sub, a) {
            a.fail(f);
        }
    });
    dedupe_samples(acc);
}

/// every worker keeps one sample per function: keep the first of each after merging
fn dedupe_samples(acc: &mut Acc) {
    let mut seen: Vec<String> = Vec::new();
    acc.samples.retain(|s| {
        let k = s.get("func").and_then(|f| f.as_str()).unwrap_or("").to_string();
        if seen.contains(&k) {
            false
        } else {
            seen.push(k);
            true
        }
    });
}

fn math_grid() -> Vec<Call> {
    let nums = number_pool();
    let mut calls = Vec::new();
    for f in MATH1 {
        for n in &nums {
            calls.push(Call::free(f, vec![n.clone()]));
        }
    }
    for a in &nums {
        for b in &nums {
            calls.push(Call::free("pow", vec![a.clone(), b.clone()]));
        }
    }
    calls
}

fn split_at_grid() -> Vec<Call> {
    let mut calls = Vec::new();
    for h in haystacks() {
        let mut idx: Vec<i64> = (-2..=(h.len() as i64 + 2)).collect();
        idx.extend([i64::MIN, i64::MAX, 1 << 32, (1 << 32) + 1, -(1 << 32), 1 << 62]);
        for i in idx {
            calls.push(Call::method("splitAt", V::s(h), vec![V::Int(i)]));
        }
    }
    calls
}

fn run(opts: &Opts, acc: &mut Acc) {
    // (d) math grid: profile-sensitive, runs in both builds
    let math = math_grid();
    run_grid(acc, opts, "math-grid", &math);
    acc.mark_exhaustive(
        "math-grid",
        &format!("7 unary math built-ins x {} pool numbers + pow x all ordered pairs, x 2 forms", number_pool().len()),
    );
    let sa = split_at_grid();
    run_grid(acc, opts, "splitAt-grid", &sa);
    acc.mark_exhaustive("splitAt-grid", "every haystack x every byte index -2..=len+2 and 6 far-out indices, x 2 forms");

    if opts.is_dbg() {
        // the overflow-checking build repeats the numeric part and a share of the random search
        let n = opts.tier.pick(3_000, 60_000);
        random_genomes(acc, opts, "random", n, 160, |gn, a| check_random(gn, a));
        dedupe_samples(acc);
        return;
    }

    // (a) binary / ternary string built-ins
    let hs = haystacks();
    let ns = needles();
    let mut calls = Vec::new();
    for f in STR2 {
        for h in &hs {
            for n in &ns {
                calls.push(Call::method(f, V::s(h), vec![V::s(n)]));
            }
        }
    }
    for f in STR3 {
        for h in &hs {
            for n in &ns {
                for r in replacements() {
                    calls.push(Call::method(f, V::s(h), vec![V::s(n), V::s(r)]));
                }
            }
        }
    }
    // (b) unary string built-ins and size
    let mut unary_texts: Vec<String> = hs.iter().map(|s| s.to_string()).collect();
    unary_texts.extend(ns.iter().map(|s| s.to_string()));
    unary_texts.extend(str_pool());
    for t in [" a ", "\n\ta\r\n", "\u{00a0}a\u{00a0}", " \u{2003} ", "\u{2003}", "  ", "a  b", "ΑΣ", "ΑΣ Σ", "K", "ſ", "ﬁ", "ŉ", "DŽ", "\u{0345}", "a\u{0085}b", "\u{feff}a", "\u{200b}a "] {
        unary_texts.push(t.to_string());
    }
    unary_texts.sort();
    unary_texts.dedup();
    for f in STR1 {
        for t in &unary_texts {
            calls.push(Call::method(f, V::Str(t.clone()), vec![]));
        }
    }
    for t in &unary_texts {
        calls.push(Call::method("size", V::Str(t.clone()), vec![]));
        calls.push(Call::free("size", vec![V::Str(t.clone())]));
    }
    for b in bytes_pool() {
        calls.push(Call::method("size", V::Bytes(b.clone()), vec![]));
        calls.push(Call::free("size", vec![V::Bytes(b)]));
    }
    run_grid(acc, opts, "string-grid", &calls);
    acc.mark_exhaustive(
        "string-grid",
        &format!(
            "{} binary and {} ternary string built-ins x {} haystacks x {} needles (x {} replacements), {} unary built-ins + size x {} texts, x 2 forms",
            STR2.len(), STR3.len(), hs.len(), ns.len(), replacements().len(), STR1.len(), unary_texts.len()
        ),
    );

    // (c) regex grid
    let mut calls = Vec::new();
    for p in PATTERNS {
        for h in regex_haystacks() {
            calls.push(Call::method("matches", V::s(h), vec![V::s(p)]));
            calls.push(Call::method("matchCaptures", V::s(h), vec![V::s(p)]));
            for t in REP_TEMPLATES {
                calls.push(Call::method("matchReplace", V::s(h), vec![V::s(p), V::s(t)]));
                calls.push(Call::method("matchReplaceOnce", V::s(h), vec![V::s(p), V::s(t)]));
            }
        }
    }
    run_grid(acc, opts, "regex-grid", &calls);
    acc.mark_exhaustive(
        "regex-grid",
        &format!("4 regex built-ins x {} patterns (7 invalid) x {} haystacks x {} templates, x 2 forms", PATTERNS.len(), regex_haystacks().len(), REP_TEMPLATES.len()),
    );
    let mut pairs: Vec<(&str, &str)> = Vec::new();
    for h in &hs {
        for n in &ns {
            if !n.is_empty() {
                pairs.push((h, n));
            }
        }
    }
    par_chunks(acc, opts.threads, &pairs, |(h, n), a| {
        for f in check_literal_regex(h, n, a) {
            a.fail(f);
        }
    });
    acc.mark_exhaustive("regex-literal", "4 regex built-ins with the escaped needle as pattern x haystacks x non-empty needles, against the naive substring oracle");

    // (e) shape grid
    let mut calls = Vec::new();
    let free_tuples = tuples(4);
    let method_tuples = tuples(3);
    let receivers = type_pool();
    for f in all_funcs() {
        for t in &free_tuples {
            calls.push(Call::free(f, t.clone()));
        }
        for r in &receivers {
            for t in &method_tuples {
                calls.push(Call::method(f, r.clone(), t.clone()));
            }
        }
    }
    let n_shape = calls.len();
    run_grid(acc, opts, "shape-grid", &calls);
    acc.mark_exhaustive(
        "shape-grid",
        &format!(
            "{} built-ins x (free form: {} tuples of arity 0..4; method form: 12 receivers x {} tuples of arity 0..3) = {} calls, x 2 forms",
            all_funcs().len(), free_tuples.len(), method_tuples.len(), n_shape
        ),
    );

    // random
    let n = opts.tier.pick(100_000, 4_000_000);
    random_genomes(acc, opts, "random", n, 160, |gn, a| check_random(gn, a));
    dedupe_samples(acc);
}

fn replay(_opts: &Opts, d: &Value, acc: &mut Acc) {
    // accept a whole replay file as well as its `detail` object
    let d = match d.get("detail") {
        Some(inner) if d.get("kind").is_none() => inner,
        _ => d,
    };
    let kind = d.get("kind").and_then(|k| k.as_str()).unwrap_or("");
    let fails = if let Some(hex) = d.get("genome_hex").and_then(|h| h.as_str()) {
        check_random(&crate::engine::unhex(hex), acc)
    } else {
        match kind {
            "call" => match Call::from_json(d) {
                Some(c) => check_call(&c, "replay", acc),
                None => {
                    acc.inconclusive.push("bad C15 replay file".into());
                    return;
                }
            },
            "literal-regex" => {
                let (Some(h), Some(n)) = (d.get("h").and_then(|x| x.as_str()), d.get("n").and_then(|x| x.as_str())) else {
                    acc.inconclusive.push("bad C15 replay file".into());
                    return;
                };
                check_literal_regex(h, n, acc)
            }
            "probe" => {
                // diagnostic: evaluate sources and print the results
                for s in d.get("sources").and_then(|s| s.as_array()).cloned().unwrap_or_default() {
                    if let Some(s) = s.as_str() {
                        println!("{} => {}", s, show_res(&src_res(s, &[])));
                    }
                }
                vec![]
            }
            k => {
                acc.inconclusive.push(format!("unknown C15 replay kind {:?}", k));
                return;
            }
        }
    };
    for f in fails {
        acc.fail(f);
    }
}

/// libFuzzer entry: one generated case
pub fn fuzz_case(genome: &[u8], acc: &mut Acc) -> Vec<Failure> {
    check_random(genome, acc)
}
