//! C14 — type conversions are exact on their domain and reject the rest; f-strings too.
//!
//! Every conversion `C(x)` is evaluated with the argument bound (VM) and as a literal
//! (folded); an explicit model says "this value", "must fail", "this value or failure",
//! "some value of type T" or "unspecified". Round-trip laws, `type(C(x)) == C` and
//! idempotence are checked on top; f-strings are compared with the concatenation of their
//! literal parts and `string(e)` of every embedded expression evaluated separately.

use super::c03::{vjson, vunjson};
use super::Prop;
use crate::engine::{par_chunks, random_genomes, Acc, Failure, Opts, Tier};
use crate::g::G;
use crate::run::{eval, Res};
use crate::val::*;
use serde_json::{json, Value};
use std::collections::{BTreeMap, HashSet};
use std::sync::OnceLock;

pub static PROP: Prop = Prop {
    id: "C14",
    rule: "exhaustive: 11 constructors (int uint double float string bytes bool timestamp duration dyn type) x every value of \
           the boundary pools of every type plus a pool of numeric/bool/RFC3339/duration texts (signs, white space, exponent \
           forms, hex, non-ASCII digits, range edges); round-trip laws over the same pools; duration(seconds, nanos) over \
           boundary seconds x nanos in {-1,0,1,999999999,1e9,2^32-1,2^32,5e9,i64 extremes,..}; every constructor with 0, 2 and 3 \
           arguments; f-strings: every embedded value class x 8 segment layouts x both quote styles. random: constructor x \
           boundary-heavy/uniform 64-bit values, generated numeric texts, random Unicode strings / UTF-8 byte strings / \
           instants / durations for the round trips, random (seconds, nanos), random f-strings of 1..6 segments (literal parts \
           with braces, quotes, escapes, non-ASCII; embedded values of convertible and non-convertible types and small \
           compound expressions). Every case runs with bound arguments (VM) and with literal arguments (folded); after a \
           successful C(x) also type(C(x)) == C and C(C(x)) == C(x). Non-trivial = the argument is a pool boundary value or the \
           conversion crosses types; f-strings: >= 2 segments incl. one expression; distinct by canonical (expression, arguments).",
    assumptions: &[
        "Rust's `as` casts i64/u64 -> f64 (round to nearest even) and str::parse::<f64> (correctly rounded) are the reference for 'nearest double'",
        "texts: canonical decimal must convert; '+1', leading zeros, '-0', '.5', '5.', integral '1.0'/'1e3' for int may convert (to the right number) or fail; inf/nan spellings, 'NNu' and overflowing exponents are unspecified; everything outside the numeric grammar must fail",
        "int(NaN), the text form of string(double|timestamp|duration), string(bool|type), bool() of anything but a bool or a documented string, and 0-argument bool/dyn/type/timestamp are not asserted (no panic, forms agree)",
        "double -> int/uint outside the target range: saturated value or failure; uint(negative double): 0 or failure; duration(uint): value or failure",
        "timestamp(string) is asserted only for strict RFC3339 texts of years 1..9999 (independent parser) and for digit-free garbage; duration(string) only for descending d/h/m/s unit forms and digit-free garbage",
        "the f-string oracle trusts rscel's own string(e) for each embedded expression (evaluated separately); a null argument is never given to timestamp()",
    ],
    run,
    replay,
    both_profiles: super::always_both,
};

pub const CTORS: &[&str] = &[
    "int", "uint", "double", "float", "string", "bytes", "bool", "timestamp", "duration", "dyn", "type",
];

const TWO63: f64 = 9223372036854775808.0;
const TWO64: f64 = 18446744073709551616.0;
const NS: i128 = 1_000_000_000;
const DUR_MAX_S: i128 = 9223372036854775;

// ---------------------------------------------------------------------------
// Expectations

#[derive(Clone, Debug)]
pub struct Exp {
    /// acceptable values (canonical comparison)
    vals: Vec<V>,
    /// a failure is acceptable
    fail_ok: bool,
    /// any value of this type is acceptable
    any_type: Option<String>,
    /// nothing is asserted but "no panic" (and that both forms agree)
    unspec: Option<String>,
}

impl Exp {
    fn val(v: V) -> Exp {
        Exp { vals: vec![v], fail_ok: false, any_type: None, unspec: None }
    }
    fn vals(v: Vec<V>) -> Exp {
        Exp { vals: v, fail_ok: false, any_type: None, unspec: None }
    }
    fn fail() -> Exp {
        Exp { vals: vec![], fail_ok: true, any_type: None, unspec: None }
    }
    fn val_or_fail(v: V) -> Exp {
        Exp { vals: vec![v], fail_ok: true, any_type: None, unspec: None }
    }
    fn vals_or_fail(v: Vec<V>) -> Exp {
        Exp { vals: v, fail_ok: true, any_type: None, unspec: None }
    }
    fn of_type(t: &str, fail_ok: bool) -> Exp {
        Exp { vals: vec![], fail_ok, any_type: Some(t.to_string()), unspec: None }
    }
    fn unspec(why: &str) -> Exp {
        Exp { vals: vec![], fail_ok: true, any_type: None, unspec: Some(why.to_string()) }
    }
    fn show(&self) -> String {
        if let Some(u) = &self.unspec {
            return format!("unspecified ({})", u);
        }
        let mut parts: Vec<String> = self.vals.iter().map(|v| v.canon()).collect();
        if let Some(t) = &self.any_type {
            parts.push(format!("any {}", t));
        }
        if self.fail_ok {
            parts.push("failure".to_string());
        }
        parts.join(" or ")
    }
    fn json(&self) -> Value {
        json!({"vals": self.vals.iter().map(vjson).collect::<Vec<_>>(), "fail_ok": self.fail_ok,
               "any_type": self.any_type, "unspec": self.unspec})
    }
    fn unjson(j: &Value) -> Option<Exp> {
        Some(Exp {
            vals: j.get("vals")?.as_array()?.iter().filter_map(vunjson).collect(),
            fail_ok: j.get("fail_ok")?.as_bool()?,
            any_type: j.get("any_type").and_then(|x| x.as_str()).map(|s| s.to_string()),
            unspec: j.get("unspec").and_then(|x| x.as_str()).map(|s| s.to_string()),
        })
    }
    /// None = acceptable, Some(mode) = violation
    fn judge(&self, r: &Res) -> Option<&'static str> {
        match r {
            Res::Panic(_) => Some("panic"),
            _ if self.unspec.is_some() => None,
            Res::Err(_) => {
                if self.fail_ok {
                    None
                } else {
                    Some("error-instead-of-value")
                }
            }
            Res::Ok(c) => match V::from_cel(c) {
                None => Some("odd-value"),
                Some(v) => {
                    if self.vals.iter().any(|x| x.same(&v)) {
                        None
                    } else if self.any_type.as_deref() == Some(v.type_name()) {
                        None
                    } else if self.vals.is_empty() && self.any_type.is_none() {
                        Some("value-instead-of-error")
                    } else if self.any_type.is_some() && self.vals.is_empty() {
                        Some("wrong-type")
                    } else {
                        Some("wrong-value")
                    }
                }
            },
        }
    }
}

// ---------------------------------------------------------------------------
// One check: a template over `$0..$9`, arguments, an expectation; run in two forms

#[derive(Clone, Debug)]
struct Chk {
    label: String,
    tmpl: String,
    args: Vec<V>,
    exp: Exp,
}

/// single-pass substitution of `$i`
fn subst(tmpl: &str, f: impl Fn(usize) -> String) -> String {
    let mut out = String::new();
    let mut it = tmpl.chars().peekable();
    while let Some(c) = it.next() {
        if c == '$' {
            if let Some(d) = it.peek().and_then(|d| d.to_digit(10)) {
                it.next();
                out.push_str(&f(d as usize));
                continue;
            }
        }
        out.push(c);
    }
    out
}

fn src_bound(tmpl: &str) -> String {
    subst(tmpl, |i| format!("x{}", i))
}

fn src_lit(tmpl: &str, args: &[V]) -> Option<String> {
    let mut lits = Vec::new();
    for a in args {
        lits.push(a.lit()?);
    }
    Some(subst(tmpl, |i| lits.get(i).cloned().unwrap_or_else(|| "null".to_string())))
}

fn binds_of(args: &[V]) -> Vec<(String, V)> {
    args.iter().enumerate().map(|(i, v)| (format!("x{}", i), v.clone())).collect()
}

fn coarse(r: &Res) -> String {
    r.sum().coarse()
}

impl Chk {
    fn detail(&self, form: &str, src: &str, actual: &Res) -> Value {
        json!({"kind": "chk", "label": self.label, "tmpl": self.tmpl,
               "args": self.args.iter().map(vjson).collect::<Vec<_>>(), "exp": self.exp.json(),
               "form": form, "source": src, "expected": self.exp.show(), "actual": actual.sum().show()})
    }

    /// Runs both forms; returns the first violation and the bound-form result.
    fn run(&self, sub: &str, acc: &mut Acc) -> (Option<Failure>, Res) {
        let bs = src_bound(&self.tmpl);
        let binds = binds_of(&self.args);
        let r1 = eval(&bs, &binds).res;
        acc.eval_only(sub, 1);
        if let Some(mode) = self.exp.judge(&r1) {
            let f = Failure::new(
                format!("c14:{}:{}", self.label, mode),
                format!("{} with {} -> {} but expected {}", bs, crate::run::binds_json(&binds), r1.sum().show(), self.exp.show()),
                self.detail("bound", &bs, &r1),
            );
            return (Some(f), r1);
        }
        let Some(ls) = src_lit(&self.tmpl, &self.args) else {
            return (None, r1);
        };
        if ls == bs {
            return (None, r1);
        }
        let r2 = eval(&ls, &[]).res;
        acc.eval_only(sub, 1);
        if let Some(mode) = self.exp.judge(&r2) {
            let f = Failure::new(
                format!("c14:{}:literal-form:{}", self.label, mode),
                format!("{} -> {} but expected {} (bound form {} -> {})", ls, r2.sum().show(), self.exp.show(), bs, r1.sum().show()),
                self.detail("literal", &ls, &r2),
            );
            return (Some(f), r1);
        }
        // "the forms must agree", also where several outcomes are acceptable
        if coarse(&r1) != coarse(&r2) {
            let f = Failure::new(
                format!("c14:{}:forms-disagree", self.label),
                format!("{} with {} -> {} but {} -> {}", bs, crate::run::binds_json(&binds), r1.sum().show(), ls, r2.sum().show()),
                self.detail("both", &ls, &r2),
            );
            return (Some(f), r1);
        }
        (None, r1)
    }
}

// ---------------------------------------------------------------------------
// Text grammars (independent of rscel)

struct NumParts<'a> {
    sign: Option<char>,
    int: &'a str,
    dot: bool,
    frac: &'a str,
    exp: Option<(Option<char>, &'a str)>,
}

fn digits_prefix(s: &str) -> usize {
    s.bytes().take_while(|b| b.is_ascii_digit()).count()
}

/// `[+-]? (D+ ('.' D*)? | '.' D+) ([eE] [+-]? D+)?` over ASCII digits, whole string
fn split_num(s: &str) -> Option<NumParts<'_>> {
    let mut rest = s;
    let sign = match rest.chars().next() {
        Some(c @ ('+' | '-')) => {
            rest = &rest[1..];
            Some(c)
        }
        _ => None,
    };
    let n = digits_prefix(rest);
    let int = &rest[..n];
    rest = &rest[n..];
    let mut dot = false;
    let mut frac = "";
    if rest.starts_with('.') {
        dot = true;
        rest = &rest[1..];
        let m = digits_prefix(rest);
        frac = &rest[..m];
        rest = &rest[m..];
    }
    if int.is_empty() && frac.is_empty() {
        return None;
    }
    let mut exp = None;
    if rest.starts_with('e') || rest.starts_with('E') {
        rest = &rest[1..];
        let es = match rest.chars().next() {
            Some(c @ ('+' | '-')) => {
                rest = &rest[1..];
                Some(c)
            }
            _ => None,
        };
        let m = digits_prefix(rest);
        if m == 0 {
            return None;
        }
        exp = Some((es, &rest[..m]));
        rest = &rest[m..];
    }
    if !rest.is_empty() {
        return None;
    }
    Some(NumParts { sign, int, dot, frac, exp })
}

/// value of a digit string, None when it does not fit i128 (far outside every target range)
fn dec_value(d: &str) -> Option<i128> {
    let mut v: i128 = 0;
    for b in d.bytes() {
        v = v.checked_mul(10)?.checked_add((b - b'0') as i128)?;
    }
    Some(v)
}

fn is_infnan_spelling(s: &str) -> bool {
    let t = s.strip_prefix('+').or_else(|| s.strip_prefix('-')).unwrap_or(s).to_ascii_lowercase();
    t == "inf" || t == "infinity" || t == "nan"
}

fn is_uint_literal_spelling(s: &str) -> bool {
    let n = digits_prefix(s);
    n > 0 && (&s[n..] == "u" || &s[n..] == "U")
}

/// int(text) / uint(text): `lo..=hi` is the target range
fn int_text_model(s: &str, lo: i128, hi: i128, mk: fn(i128) -> V) -> (Exp, &'static str) {
    if is_uint_literal_spelling(s) {
        return (Exp::unspec("text with a u suffix"), "u-suffix");
    }
    let Some(p) = split_num(s) else {
        // "unparsable text produces an error"
        return (Exp::fail(), "unparsable");
    };
    let neg = p.sign == Some('-');
    if !p.dot && p.exp.is_none() {
        let mag = dec_value(p.int);
        let val = mag.map(|m| if neg { -m } else { m });
        let in_range = val.map_or(false, |v| v >= lo && v <= hi);
        let canonical = p.sign != Some('+') && (p.int == "0" || !p.int.starts_with('0')) && !(neg && p.int == "0");
        return match (canonical, in_range) {
            (true, true) => (Exp::val(mk(val.unwrap_or(0))), "decimal"),
            (false, true) => (Exp::val_or_fail(mk(val.unwrap_or(0))), "lenient-decimal"),
            // "inputs with no representation in the target produce an error"
            (_, false) => (Exp::fail(), "out-of-range"),
        };
    }
    // decimal point / exponent forms: never a different number
    let frac_zero = p.frac.bytes().all(|b| b == b'0');
    let exact: Option<i128> = match p.exp {
        None if frac_zero && !p.int.is_empty() => dec_value(p.int),
        Some((es, ed)) if !p.dot && es != Some('-') => {
            let e = dec_value(ed).unwrap_or(i128::MAX);
            if e <= 30 {
                let mut v = dec_value(p.int);
                for _ in 0..e {
                    v = v.and_then(|x| x.checked_mul(10));
                }
                v
            } else {
                None
            }
        }
        None => return (Exp::fail(), "fractional"),
        _ => return (Exp::unspec("exponent text for an integer"), "exponent"),
    };
    match exact.map(|m| if neg { -m } else { m }) {
        Some(v) if v >= lo && v <= hi => (Exp::val_or_fail(mk(v)), "integral-decimal-form"),
        Some(_) => (Exp::fail(), "out-of-range"),
        None => (Exp::unspec("huge exponent text"), "exponent"),
    }
}

fn mk_int(v: i128) -> V {
    V::Int(v as i64)
}
fn mk_uint(v: i128) -> V {
    V::UInt(v as u64)
}

fn double_text_model(s: &str) -> (Exp, &'static str) {
    if is_infnan_spelling(s) {
        return (Exp::unspec("inf/nan spelling"), "infnan-text");
    }
    let Some(p) = split_num(s) else {
        return (Exp::fail(), "unparsable");
    };
    let Ok(r) = s.parse::<f64>() else {
        return (Exp::unspec("host parser disagrees with the grammar"), "host-disagrees");
    };
    if !r.is_finite() {
        return (Exp::unspec("decimal text beyond the double range"), "overflowing-text");
    }
    let canonical = p.sign != Some('+')
        && !p.int.is_empty()
        && (p.int == "0" || !p.int.starts_with('0'))
        && (!p.dot || !p.frac.is_empty());
    let vals = if r == 0.0 && p.sign == Some('-') { vec![V::F(-0.0), V::F(0.0)] } else { vec![V::F(r)] };
    if canonical {
        (Exp::vals(vals), "decimal")
    } else {
        (Exp::vals_or_fail(vals), "lenient-decimal")
    }
}

fn bool_text(s: &str) -> Option<bool> {
    match s {
        "1" | "t" | "true" | "TRUE" | "True" => Some(true),
        "0" | "f" | "false" | "FALSE" | "False" => Some(false),
        _ => None,
    }
}

// civil calendar (proleptic Gregorian), after H. Hinnant's algorithms
fn civil_from_days(z: i64) -> (i64, i64, i64) {
    let z = z + 719468;
    let era = z.div_euclid(146097);
    let doe = z.rem_euclid(146097);
    let yoe = (doe - doe / 1460 + doe / 36524 - doe / 146096) / 365;
    let y = yoe + era * 400;
    let doy = doe - (365 * yoe + yoe / 4 - yoe / 100);
    let mp = (5 * doy + 2) / 153;
    let d = doy - (153 * mp + 2) / 5 + 1;
    let m = if mp < 10 { mp + 3 } else { mp - 9 };
    (if m <= 2 { y + 1 } else { y }, m, d)
}

fn days_from_civil(y: i64, m: i64, d: i64) -> i64 {
    let y = if m <= 2 { y - 1 } else { y };
    let era = y.div_euclid(400);
    let yoe = y.rem_euclid(400);
    let mp = (m + 9) % 12;
    let doy = (153 * mp + 2) / 5 + d - 1;
    let doe = yoe * 365 + yoe / 4 - yoe / 100 + doy;
    era * 146097 + doe - 719468
}

fn days_in_month(y: i64, m: i64) -> i64 {
    match m {
        1 | 3 | 5 | 7 | 8 | 10 | 12 => 31,
        4 | 6 | 9 | 11 => 30,
        _ => {
            if (y % 4 == 0 && y % 100 != 0) || y % 400 == 0 {
                29
            } else {
                28
            }
        }
    }
}

fn year_of(secs: i64) -> i64 {
    civil_from_days(secs.div_euclid(86400)).0
}

/// RFC3339 text of an instant (UTC seconds + nanos) at a zone offset; years 1..=9999 only.
/// `digits`: 0, 3, 6 or 9 fractional digits (nanos must be representable).
pub fn fmt_rfc3339(secs: i64, nanos: u32, offset_min: i64, digits: usize) -> Option<String> {
    let local = secs.checked_add(offset_min.checked_mul(60)?)?;
    let (y, m, d) = civil_from_days(local.div_euclid(86400));
    if !(1..=9999).contains(&y) || !(1..=9999).contains(&year_of(secs)) {
        return None;
    }
    let sod = local.rem_euclid(86400);
    let mut s = format!("{:04}-{:02}-{:02}T{:02}:{:02}:{:02}", y, m, d, sod / 3600, sod / 60 % 60, sod % 60);
    match digits {
        0 if nanos == 0 => {}
        3 if nanos % 1_000_000 == 0 => s.push_str(&format!(".{:03}", nanos / 1_000_000)),
        6 if nanos % 1_000 == 0 => s.push_str(&format!(".{:06}", nanos / 1_000)),
        9 => s.push_str(&format!(".{:09}", nanos)),
        _ => return None,
    }
    if offset_min == 0 {
        s.push('Z');
    } else {
        let a = offset_min.abs();
        s.push_str(&format!("{}{:02}:{:02}", if offset_min < 0 { '-' } else { '+' }, a / 60, a % 60));
    }
    Some(s)
}

fn num2(s: &str) -> Option<i64> {
    if !s.is_empty() && s.bytes().all(|b| b.is_ascii_digit()) {
        s.parse().ok()
    } else {
        None
    }
}

/// strict `YYYY-MM-DDTHH:MM:SS(.d{1,9})?(Z|[+-]HH:MM)`, years 1..=9999, no leap seconds
pub fn parse_rfc3339_strict(s: &str) -> Option<(i64, u32)> {
    if !s.is_ascii() || s.len() < 20 {
        return None;
    }
    let b = s.as_bytes();
    if b[4] != b'-' || b[7] != b'-' || b[10] != b'T' || b[13] != b':' || b[16] != b':' {
        return None;
    }
    let (y, mo, d) = (num2(&s[0..4])?, num2(&s[5..7])?, num2(&s[8..10])?);
    let (h, mi, se) = (num2(&s[11..13])?, num2(&s[14..16])?, num2(&s[17..19])?);
    if !(1..=9999).contains(&y) || !(1..=12).contains(&mo) || d < 1 || d > days_in_month(y, mo) || h > 23 || mi > 59 || se > 59 {
        return None;
    }
    let mut rest = &s[19..];
    let mut nanos: u32 = 0;
    if rest.starts_with('.') {
        let n = digits_prefix(&rest[1..]);
        if n == 0 || n > 9 {
            return None;
        }
        let mut v: u32 = rest[1..1 + n].parse().ok()?;
        for _ in n..9 {
            v *= 10;
        }
        nanos = v;
        rest = &rest[1 + n..];
    }
    let off_min = if rest == "Z" {
        0
    } else {
        if rest.len() != 6 || rest.as_bytes()[3] != b':' {
            return None;
        }
        let sg = match rest.as_bytes()[0] {
            b'+' => 1,
            b'-' => -1,
            _ => return None,
        };
        let (oh, om) = (num2(&rest[1..3])?, num2(&rest[4..6])?);
        if oh > 23 || om > 59 {
            return None;
        }
        sg * (oh * 60 + om)
    };
    let secs = days_from_civil(y, mo, d) * 86400 + h * 3600 + mi * 60 + se - off_min * 60;
    if !(1..=9999).contains(&year_of(secs)) {
        return None;
    }
    Some((secs, nanos))
}

/// `(D{1,6} unit)+` with units strictly descending in d > h > m > s; total seconds
fn parse_simple_duration(s: &str) -> Option<i128> {
    let mut rest = s;
    let mut last_rank = 0;
    let mut total: i128 = 0;
    if rest.is_empty() {
        return None;
    }
    while !rest.is_empty() {
        let n = digits_prefix(rest);
        if n == 0 || n > 6 {
            return None;
        }
        let v = dec_value(&rest[..n])?;
        rest = &rest[n..];
        let (rank, mult) = match rest.chars().next()? {
            'd' => (1, 86400),
            'h' => (2, 3600),
            'm' => (3, 60),
            's' => (4, 1),
            _ => return None,
        };
        rest = &rest[1..];
        if rank <= last_rank {
            return None;
        }
        last_rank = rank;
        total += v * mult;
    }
    Some(total)
}

fn has_ascii_digit(s: &str) -> bool {
    s.bytes().any(|b| b.is_ascii_digit())
}

// ---------------------------------------------------------------------------
// The conversion model: (expectation, input sub-class for the signature)

fn target_type(ctor: &str) -> Option<&'static str> {
    Some(match ctor {
        "int" => "int",
        "uint" => "uint",
        "double" | "float" => "float",
        "string" => "string",
        "bytes" => "bytes",
        "bool" => "bool",
        "timestamp" => "timestamp",
        "duration" => "duration",
        "type" => "type",
        _ => return None,
    })
}

fn dur_ns_ok(total: i128) -> bool {
    let max = DUR_MAX_MS * 1_000_000;
    total >= -max && total <= max
}

pub fn conv_model(ctor: &str, x: &V) -> (Exp, &'static str) {
    let no = (Exp::fail(), "no-overload");
    match ctor {
        "int" => match x {
            V::Int(i) => (Exp::val(V::Int(*i)), "identity"),
            // "uint above the int range produces an error rather than a wrapped value"
            V::UInt(u) if *u <= i64::MAX as u64 => (Exp::val(V::Int(*u as i64)), "in-range"),
            V::UInt(_) => (Exp::fail(), "above-i64"),
            V::F(d) if d.is_nan() => (Exp::unspec("int(NaN)"), "nan"),
            // "double to integer truncates toward zero (saturating)"
            V::F(d) => {
                let t = d.trunc();
                if t >= -TWO63 && t < TWO63 {
                    (Exp::val(V::Int(t as i64)), "truncates")
                } else {
                    (Exp::val_or_fail(V::Int(if *d > 0.0 { i64::MAX } else { i64::MIN })), "beyond-range")
                }
            }
            V::Bool(b) => (Exp::val(V::Int(*b as i64)), "bool"),
            V::Str(s) => int_text_model(s, i64::MIN as i128, i64::MAX as i128, mk_int),
            V::Ts(s, n) => {
                if *n == 0 || *s >= 0 {
                    (Exp::val(V::Int(*s)), "epoch-seconds")
                } else {
                    (Exp::vals(vec![V::Int(*s), V::Int(*s + 1)]), "epoch-seconds-negative-fraction")
                }
            }
            _ => no,
        },
        "uint" => match x {
            V::UInt(u) => (Exp::val(V::UInt(*u)), "identity"),
            // "negative to uint produces an error rather than a wrapped value"
            V::Int(i) if *i >= 0 => (Exp::val(V::UInt(*i as u64)), "in-range"),
            V::Int(_) => (Exp::fail(), "negative"),
            V::F(d) if d.is_nan() => (Exp::unspec("uint(NaN)"), "nan"),
            V::F(d) => {
                let t = d.trunc();
                if *d < 0.0 {
                    (Exp::val_or_fail(V::UInt(0)), "negative-double")
                } else if t < TWO64 {
                    (Exp::val(V::UInt(t as u64)), "truncates")
                } else {
                    (Exp::val_or_fail(V::UInt(u64::MAX)), "beyond-range")
                }
            }
            V::Bool(b) => (Exp::val(V::UInt(*b as u64)), "bool"),
            V::Str(s) => int_text_model(s, 0, u64::MAX as i128, mk_uint),
            _ => no,
        },
        "double" | "float" => match x {
            V::F(d) => (Exp::val(V::F(*d)), "identity"),
            V::Int(i) => (Exp::val(V::F(*i as f64)), "nearest"),
            V::UInt(u) => (Exp::val(V::F(*u as f64)), "nearest"),
            V::Bool(b) => (Exp::val(V::F(if *b { 1.0 } else { 0.0 })), "bool"),
            V::Str(s) => double_text_model(s),
            _ => no,
        },
        "string" => match x {
            V::Str(s) => (Exp::val(V::Str(s.clone())), "identity"),
            V::Int(i) => (Exp::val(V::Str(i.to_string())), "decimal"),
            V::UInt(u) => (Exp::val(V::Str(u.to_string())), "decimal"),
            V::F(_) => (Exp::of_type("string", false), "double-text"),
            V::Bytes(b) => match std::str::from_utf8(b) {
                Ok(s) => (Exp::val(V::Str(s.to_string())), "utf8"),
                // "non-UTF-8 text produces an error"
                Err(_) => (Exp::fail(), "invalid-utf8"),
            },
            V::Ts(..) => (Exp::of_type("string", false), "timestamp-text"),
            V::Dur(n) => {
                if n.abs() <= i64::MAX as i128 {
                    (Exp::of_type("string", false), "duration-text")
                } else {
                    (Exp::of_type("string", true), "duration-beyond-i64-nanos")
                }
            }
            V::Bool(_) | V::Type(_) => (Exp::unspec("string(bool|type)"), "bool-or-type"),
            V::List(_) | V::Map(_) | V::Null => (Exp::fail(), "no-string-form"),
        },
        "bytes" => match x {
            V::Str(s) => (Exp::val(V::Bytes(s.as_bytes().to_vec())), "utf8"),
            V::Bytes(b) => (Exp::val(V::Bytes(b.clone())), "identity"),
            _ => no,
        },
        "bool" => match x {
            V::Bool(b) => (Exp::val(V::Bool(*b)), "identity"),
            V::Str(s) => match bool_text(s) {
                Some(b) => (Exp::val(V::Bool(b)), "documented-text"),
                None => (Exp::unspec("bool(other text)"), "other-text"),
            },
            _ => (Exp::unspec("bool(non-bool, non-string)"), "other-type"),
        },
        "timestamp" => match x {
            V::Ts(s, n) => (Exp::val(V::Ts(*s, *n)), "identity"),
            V::Int(i) if *i >= TS_MIN_S && *i <= TS_MAX_S => (Exp::val(V::Ts(*i, 0)), "in-range"),
            V::Int(_) => (Exp::fail(), "out-of-range"),
            V::UInt(u) if *u <= TS_MAX_S as u64 => (Exp::val(V::Ts(*u as i64, 0)), "in-range"),
            V::UInt(u) if *u > i64::MAX as u64 => (Exp::fail(), "above-i64"),
            V::UInt(_) => (Exp::fail(), "out-of-range"),
            V::Str(s) => match parse_rfc3339_strict(s) {
                Some((secs, n)) => (Exp::val(V::Ts(secs, n)), "rfc3339"),
                None if !has_ascii_digit(s) => (Exp::fail(), "garbage-text"),
                None => (Exp::unspec("timestamp text outside the strict RFC3339 subset"), "other-text"),
            },
            V::Null => (Exp::unspec("timestamp(null) reads the clock"), "null"),
            _ => no,
        },
        "duration" => match x {
            V::Dur(n) => (Exp::val(V::Dur(*n)), "identity"),
            V::Int(i) if (*i as i128).abs() <= DUR_MAX_S => (Exp::val(V::Dur(*i as i128 * NS)), "in-range"),
            V::Int(_) => (Exp::fail(), "out-of-range"),
            V::UInt(u) if (*u as i128) <= DUR_MAX_S => (Exp::val_or_fail(V::Dur(*u as i128 * NS)), "uint"),
            V::UInt(_) => (Exp::fail(), "out-of-range"),
            V::Str(s) => match parse_simple_duration(s) {
                Some(t) if t <= DUR_MAX_S => (Exp::val(V::Dur(t * NS)), "unit-text"),
                Some(_) => (Exp::unspec("duration text beyond the range"), "other-text"),
                None if !has_ascii_digit(s) => (Exp::fail(), "garbage-text"),
                None => (Exp::unspec("duration text outside the simple unit forms"), "other-text"),
            },
            _ => no,
        },
        "dyn" => (Exp::val(x.clone()), "identity"),
        "type" => (Exp::val(V::Type(x.type_name().to_string())), "type-of"),
        _ => (Exp::unspec("unknown constructor"), "unknown"),
    }
}

/// duration(seconds, nanos)
fn dur2_model(s: i64, n: i64) -> (Exp, &'static str) {
    let total = s as i128 * NS + n as i128;
    let ok = dur_ns_ok(total);
    if (0..1_000_000_000).contains(&n) {
        if ok {
            (Exp::val(V::Dur(total)), "nanos-in-range")
        } else {
            (Exp::fail(), "total-out-of-range")
        }
    } else if ok {
        // "must fail or be mathematically right"
        (Exp::val_or_fail(V::Dur(total)), "nanos-out-of-range")
    } else {
        (Exp::fail(), "nanos-out-of-range")
    }
}

// ---------------------------------------------------------------------------
// Pools

/// texts for the string -> number / bool / time conversions (rejection grid included)
fn text_pool() -> Vec<String> {
    let mut v: Vec<String> = Vec::new();
    for i in int_pool() {
        v.push(i.to_string());
    }
    for u in uint_pool() {
        v.push(u.to_string());
    }
    for f in f64_pool() {
        if f.is_finite() {
            v.push(format!("{}", f));
            v.push(format!("{:?}", f));
            v.push(format!("{:e}", f));
        }
    }
    for s in [
        // no representation
        "", " ", " 1", "1 ", "\t1", "1\n", "\u{00a0}1", "-", "+", "+-1", "--1", "1-", "0x10", "0X10", "0x", "0b1", "0o7",
        "1_000", "1,000", "١٢٣", "１２", "𝟏", "½", "1.5", "-1.5", "0.5", ".", "e5", "1e", "1e+", "1.5.2", "abc", "1a", "a1",
        "one", "null", "true", "1 2", "１", "1\u{0301}",
        // range edges
        "9223372036854775807", "9223372036854775808", "-9223372036854775808", "-9223372036854775809", "-1",
        "18446744073709551615", "18446744073709551616", "99999999999999999999999999",
        "340282366920938463463374607431768211456", "-340282366920938463463374607431768211456",
        "1000000000000000000000000000000000000000000000000000000",
        // lenient spellings
        "+1", "+0", "-0", "007", "-007", "00", "+9223372036854775807", "1.0", "1.000", "-1.0", "1.", ".5", "+.5", "5.", "1e3",
        "1E3", "1e+3", "1e-3", "1.5e3", "15e-1", "1e18", "1e19", "1e20", "1e0", "-1e3", "0e0", "0.0", "-0.0", "1e308", "1e309",
        "1e-400", "4.9e-324", "2.2250738585072014e-308", "1.7976931348623157e308", "1.7976931348623159e308",
        "0.1000000000000000055511151231257827", "9007199254740993", "9007199254740992.5", "1u", "1U",
        // inf / nan
        "inf", "-inf", "+inf", "Inf", "INF", "infinity", "Infinity", "-Infinity", "nan", "NaN", "NAN", "-nan",
        // bool texts
        "1", "0", "t", "f", "true", "false", "TRUE", "FALSE", "True", "False", "T", "F", "tRuE", "yes", "no", "y", "n",
        // time texts
        "2024-01-10T08:57:45Z", "2024-01-10T08:57:45.123Z", "2024-01-10T08:57:45.123456Z", "2024-01-10T08:57:45.123456789Z",
        "2024-01-10T08:57:45.123+01:00", "2024-01-10T08:57:45-08:00", "2024-02-29T00:00:00Z", "2023-02-29T00:00:00Z",
        "2024-13-01T00:00:00Z", "2024-01-32T00:00:00Z", "2024-01-10T24:00:00Z", "2024-01-10T08:57:60Z", "1970-01-01T00:00:00Z",
        "1969-12-31T23:59:59Z", "0001-01-01T00:00:00Z", "9999-12-31T23:59:59Z", "2024-01-10", "2024-01-10T08:57:45",
        "2024-01-10 08:57:45Z", "2024-01-10t08:57:45z", "Wed, 10 Jan 2024 08:57:45 GMT", "yesterday", "T", "Z", "--T::Z",
        // duration texts
        "1h", "90s", "2h30m", "1d", "1d2h3m4s", "0s", "999999s", "1m", "1h1h", "30m2h", "1", "1.5h", "-1h", "1h 30m", "1w", "1ms",
        "1y", "h", "s", "hms", "1x",
    ] {
        v.push(s.to_string());
    }
    for (s, n) in ts_pool() {
        for (off, digits) in [(0, 0), (0, 3), (60, 3), (-480, 0), (330, 9)] {
            if let Some(t) = fmt_rfc3339(s, n, off, digits) {
                v.push(t);
            }
        }
    }
    let mut seen = HashSet::new();
    v.retain(|s| seen.insert(s.clone()));
    v
}

fn value_pool() -> Vec<V> {
    let mut p: Vec<V> = Vec::new();
    p.extend(int_pool().into_iter().map(V::Int));
    p.extend(uint_pool().into_iter().map(V::UInt));
    p.extend([TS_MIN_S, TS_MIN_S - 1, TS_MAX_S, TS_MAX_S + 1, 9223372036854775, 9223372036854776, -9223372036854775, -9223372036854776].map(V::Int));
    p.extend([TS_MAX_S as u64, TS_MAX_S as u64 + 1, 9223372036854775, 9223372036854776].map(V::UInt));
    p.extend(f64_pool().into_iter().map(V::F));
    p.extend([-0.5, -0.9999999999999999, 0.9999999999999999, -1.0000000000000002, 9223372036854775807.5, 4294967295.5, -9223372036854777856.0].map(V::F));
    p.push(V::Bool(false));
    p.push(V::Bool(true));
    p.extend(str_pool().into_iter().map(V::Str));
    p.extend(text_pool().into_iter().map(V::Str));
    p.extend(bytes_pool().into_iter().map(V::Bytes));
    p.extend(["1", "-1", "true", "é😀", "1h", "2024-01-10T08:57:45Z"].map(|s| V::Bytes(s.as_bytes().to_vec())));
    p.extend(ts_pool().into_iter().map(|(s, n)| V::Ts(s, n)));
    p.extend(dur_pool().into_iter().map(V::Dur));
    p.push(V::Dur(i64::MAX as i128));
    p.push(V::Dur(i64::MAX as i128 + 1));
    p.push(V::Dur(-(i64::MAX as i128) - 1));
    p.push(V::Dur(-(i64::MAX as i128) - 2));
    p.extend(misc_pool());
    p.push(V::List(vec![V::s("a"), V::List(vec![]), V::Null]));
    for t in TYPE_NAMES {
        p.push(V::Type(t.to_string()));
    }
    p.push(V::Type("dyn".to_string()));
    let mut seen = HashSet::new();
    p.retain(|v| seen.insert(format!("{}:{}", v.type_name(), v.canon())));
    p
}

fn boundary_set() -> &'static HashSet<String> {
    static S: OnceLock<HashSet<String>> = OnceLock::new();
    S.get_or_init(|| value_pool().iter().map(|v| format!("{}:{}", v.type_name(), v.canon())).collect())
}

fn is_boundary(v: &V) -> bool {
    boundary_set().contains(&format!("{}:{}", v.type_name(), v.canon()))
}

fn args_canon(args: &[V]) -> String {
    args.iter().map(|a| a.canon()).collect::<Vec<_>>().join(" ; ")
}

// ---------------------------------------------------------------------------
// Checks

/// C(x): model, then type(C(x)) == C and C(C(x)) == C(x) when it succeeded
fn check_conv(ctor: &str, x: &V, sub: &str, acc: &mut Acc) -> Vec<Failure> {
    let (exp, subclass) = conv_model(ctor, x);
    let class = format!("{}({})", ctor, x.type_name());
    let tmpl = format!("{}($0)", ctor);
    let crosses = target_type(ctor).map_or(ctor == "type", |t| t != x.type_name());
    acc.case(sub, &format!("{} | {}", tmpl, x.canon()), crosses || is_boundary(x), &class);
    if ctor == "timestamp" && matches!(x, V::Null) {
        // never evaluated: reads the clock
        acc.skip("timestamp(null) reads the clock");
        return vec![];
    }
    if let Some(u) = &exp.unspec {
        acc.skip(u);
    }
    let base = Chk { label: format!("{}:{}", class, subclass), tmpl, args: vec![x.clone()], exp };
    let (f, r) = base.run(sub, acc);
    acc.sample(&class, || json!({"bound_form": src_bound(&base.tmpl), "literal_form": src_lit(&base.tmpl, &base.args),
                                  "x0": x.canon(), "model": base.exp.show(), "result": r.sum().show()}));
    if let Some(f) = f {
        return vec![f];
    }
    let Some(y) = r.value() else {
        return vec![];
    };
    let mut out = Vec::new();
    // "type(T(x)) == T whenever T(x) succeeds"
    let tname = match target_type(ctor) {
        Some(t) => t.to_string(),
        None => x.type_name().to_string(), // dyn
    };
    let c1 = Chk {
        label: format!("type-of:{}", class),
        tmpl: format!("type({}($0))", ctor),
        args: vec![x.clone()],
        exp: Exp::val(V::Type(tname)),
    };
    if let (Some(f), _) = c1.run(sub, acc) {
        out.push(f);
    }
    if ctor != "dyn" {
        let other = match ctor {
            "double" => Some("float"),
            "float" => Some("double"),
            _ => None,
        };
        let tmpl = match other {
            Some(o) => format!("type({c}($0)) == {c} && type({c}($0)) == {o}", c = ctor, o = o),
            None => format!("type({c}($0)) == {c}", c = ctor),
        };
        let c2 = Chk { label: format!("type-eq:{}", class), tmpl, args: vec![x.clone()], exp: Exp::val(V::Bool(true)) };
        if let (Some(f), _) = c2.run(sub, acc) {
            out.push(f);
        }
    }
    // idempotence
    if ctor != "type" {
        let c3 = Chk {
            label: format!("idempotent:{}", class),
            tmpl: format!("{c}({c}($0))", c = ctor),
            args: vec![x.clone()],
            exp: Exp::val(y),
        };
        if let (Some(f), _) = c3.run(sub, acc) {
            out.push(f);
        }
    }
    out
}

struct Law {
    name: &'static str,
    tmpl: &'static str,
    applies: fn(&V) -> Option<Exp>,
}

fn ts_rfc_domain(s: i64, n: u32) -> bool {
    (1..=9999).contains(&year_of(s)) && n % 1_000_000 == 0
}

const LAWS: &[Law] = &[
    Law { name: "int(string(i))", tmpl: "int(string($0))", applies: |v| match v {
        V::Int(i) => Some(Exp::val(V::Int(*i))),
        _ => None,
    } },
    Law { name: "uint(string(u))", tmpl: "uint(string($0))", applies: |v| match v {
        V::UInt(u) => Some(Exp::val(V::UInt(*u))),
        _ => None,
    } },
    Law { name: "double(string(d))", tmpl: "double(string($0))", applies: |v| match v {
        V::F(d) if d.is_finite() => Some(Exp::val(V::F(*d))),
        V::F(_) => Some(Exp::unspec("double(string(non-finite))")),
        _ => None,
    } },
    Law { name: "float(string(d))", tmpl: "float(string($0))", applies: |v| match v {
        V::F(d) if d.is_finite() => Some(Exp::val(V::F(*d))),
        _ => None,
    } },
    Law { name: "string(bytes(s))", tmpl: "string(bytes($0))", applies: |v| match v {
        V::Str(s) => Some(Exp::val(V::Str(s.clone()))),
        _ => None,
    } },
    Law { name: "bytes(string(b))", tmpl: "bytes(string($0))", applies: |v| match v {
        V::Bytes(b) if std::str::from_utf8(b).is_ok() => Some(Exp::val(V::Bytes(b.clone()))),
        V::Bytes(_) => Some(Exp::fail()),
        _ => None,
    } },
    Law { name: "bytes(string(bytes(s)))", tmpl: "bytes(string(bytes($0)))", applies: |v| match v {
        V::Str(s) => Some(Exp::val(V::Bytes(s.as_bytes().to_vec()))),
        _ => None,
    } },
    Law { name: "timestamp(string(t))", tmpl: "timestamp(string($0))", applies: |v| match v {
        V::Ts(s, n) if ts_rfc_domain(*s, *n) => Some(Exp::val(V::Ts(*s, *n))),
        V::Ts(s, n) => Some(Exp::val_or_fail(V::Ts(*s, *n))),
        _ => None,
    } },
    Law { name: "int(timestamp(i))", tmpl: "int(timestamp($0))", applies: |v| match v {
        V::Int(i) if *i >= TS_MIN_S && *i <= TS_MAX_S => Some(Exp::val(V::Int(*i))),
        V::Int(_) => Some(Exp::fail()),
        _ => None,
    } },
    Law { name: "timestamp(int(t))", tmpl: "timestamp(int($0))", applies: |v| match v {
        V::Ts(s, 0) => Some(Exp::val(V::Ts(*s, 0))),
        _ => None,
    } },
    Law { name: "int(uint(i))", tmpl: "int(uint($0))", applies: |v| match v {
        V::Int(i) if *i >= 0 => Some(Exp::val(V::Int(*i))),
        _ => None,
    } },
    Law { name: "uint(int(u))", tmpl: "uint(int($0))", applies: |v| match v {
        V::UInt(u) if *u <= i64::MAX as u64 => Some(Exp::val(V::UInt(*u))),
        _ => None,
    } },
    Law { name: "int(double(i))", tmpl: "int(double($0))", applies: |v| match v {
        V::Int(i) if i.unsigned_abs() <= 1 << 53 => Some(Exp::val(V::Int(*i))),
        _ => None,
    } },
    Law { name: "uint(double(u))", tmpl: "uint(double($0))", applies: |v| match v {
        V::UInt(u) if *u <= 1 << 53 => Some(Exp::val(V::UInt(*u))),
        _ => None,
    } },
    Law { name: "string(int(text))", tmpl: "string(int($0))", applies: |v| match v {
        V::Str(s) => match int_text_model(s, i64::MIN as i128, i64::MAX as i128, mk_int) {
            (e, "decimal") if e.vals.len() == 1 => Some(Exp::val(V::Str(s.clone()))),
            _ => None,
        },
        _ => None,
    } },
    Law { name: "duration(int(i))", tmpl: "duration(int(string($0)))", applies: |v| match v {
        V::Int(i) if (*i as i128).abs() <= DUR_MAX_S => Some(Exp::val(V::Dur(*i as i128 * NS))),
        V::Int(_) => Some(Exp::fail()),
        _ => None,
    } },
];

fn check_law(li: usize, x: &V, exp: Exp, sub: &str, acc: &mut Acc) -> Vec<Failure> {
    let law = &LAWS[li];
    let class = format!("law:{}", law.name);
    acc.case(sub, &format!("{} | {}", law.tmpl, x.canon()), true, &class);
    if let Some(u) = &exp.unspec {
        acc.skip(u);
    }
    let c = Chk { label: class.clone(), tmpl: law.tmpl.to_string(), args: vec![x.clone()], exp };
    let (f, r) = c.run(sub, acc);
    acc.sample(&class, || json!({"bound_form": src_bound(&c.tmpl), "x0": x.canon(), "model": c.exp.show(), "result": r.sum().show()}));
    f.into_iter().collect()
}

fn check_dur2(s: i64, n: i64, sub: &str, acc: &mut Acc) -> Vec<Failure> {
    let (exp, subclass) = dur2_model(s, n);
    let edge = [-1, 0, 1, 999_999_999, 1_000_000_000].contains(&n) || n.unsigned_abs() >= 1 << 32;
    acc.case(sub, &format!("duration({}, {})", s, n), edge, &format!("duration(int,int):{}", subclass));
    let c = Chk { label: format!("duration(int,int):{}", subclass), tmpl: "duration($0, $1)".into(), args: vec![V::Int(s), V::Int(n)], exp };
    let (f, r) = c.run(sub, acc);
    acc.sample(&c.label, || json!({"source": format!("duration({}, {})", s, n), "model": c.exp.show(), "result": r.sum().show()}));
    let mut out = Vec::new();
    if let Some(mut f) = f {
        // one root cause, one signature: a value where only a failure was possible is also a wrong value
        if subclass == "nanos-out-of-range" {
            f.sig = f.sig.replace("value-instead-of-error", "wrong-value");
        }
        out.push(f);
    }
    out
}

fn arity_reps() -> Vec<V> {
    let mut m = BTreeMap::new();
    m.insert("k".to_string(), V::Int(1));
    vec![
        V::Int(1),
        V::UInt(1),
        V::F(1.0),
        V::Bool(true),
        V::s("1"),
        V::Bytes(b"1".to_vec()),
        V::List(vec![V::Int(1)]),
        V::Map(m),
        V::Type("int".into()),
        V::Ts(1, 0),
        V::Dur(NS),
    ]
}

/// C(args) with 0, 2 or 3 arguments (the last one never null)
fn check_arity(ctor: &str, args: &[V], sub: &str, acc: &mut Acc) -> Vec<Failure> {
    let n = args.len();
    let tmpl = format!("{}({})", ctor, (0..n).map(|i| format!("${}", i)).collect::<Vec<_>>().join(", "));
    let class = format!("arity:{}/{}", ctor, n);
    acc.case(sub, &format!("{} | {}", tmpl, args_canon(args)), true, &class);
    let integral = |v: &V| matches!(v, V::Int(_) | V::UInt(_));
    let exp = if n == 0 && matches!(ctor, "bool" | "dyn" | "type" | "timestamp") {
        Exp::unspec("zero arguments = one null argument (dispatch convention)")
    } else if ctor == "duration" && n == 2 && integral(&args[0]) && integral(&args[1]) {
        Exp::unspec("duration(seconds, nanos) pair")
    } else {
        Exp::fail()
    };
    if let Some(u) = &exp.unspec {
        acc.skip(u);
        if ctor == "timestamp" {
            return vec![]; // reads the clock
        }
    }
    let c = Chk { label: class.clone(), tmpl, args: args.to_vec(), exp };
    let (f, r) = c.run(sub, acc);
    acc.sample(&class, || json!({"bound_form": src_bound(&c.tmpl), "args": args_canon(args), "model": c.exp.show(), "result": r.sum().show()}));
    f.into_iter().collect()
}

// ---------------------------------------------------------------------------
// f-strings

#[derive(Clone, Debug)]
enum Seg {
    Lit(String),
    /// embedded expression: template over `$i` and its argument values
    Ex(String, Vec<V>),
}

#[derive(Clone, Debug)]
struct FCase {
    quote: char,
    /// blanks inside the placeholder braces
    pad: bool,
    segs: Vec<Seg>,
}

fn esc_lit_part(s: &str, quote: char) -> String {
    let mut o = String::new();
    for c in s.chars() {
        match c {
            '{' => o.push_str("{{"),
            '}' => o.push_str("}}"),
            '\\' => o.push_str("\\\\"),
            '\n' => o.push_str("\\n"),
            '\r' => o.push_str("\\r"),
            '\t' => o.push_str("\\t"),
            c if c == quote => {
                o.push('\\');
                o.push(c);
            }
            c if (c as u32) < 0x20 || c as u32 == 0x7f => o.push_str(&format!("\\x{:02x}", c as u32)),
            c => o.push(c),
        }
    }
    o
}

/// literal text of a value that is lexically safe inside a placeholder of an f-string
/// delimited by `quote`: no braces, no backslash, no occurrence of the outer quote
fn safe_lit(v: &V, quote: char) -> Option<String> {
    let inner = if quote == '"' { '\'' } else { '"' };
    let t = match v {
        V::Str(s) => {
            if s.chars().any(|c| matches!(c, '{' | '}' | '\'' | '"' | '\\') || (c as u32) < 0x20 || c as u32 == 0x7f) {
                return None;
            }
            format!("{q}{s}{q}", q = inner, s = s)
        }
        V::Bytes(b) => {
            if !b.iter().all(|x| x.is_ascii_alphanumeric() || *x == b' ') {
                return None;
            }
            format!("b{q}{s}{q}", q = inner, s = String::from_utf8_lossy(b))
        }
        V::List(l) => {
            let mut parts = Vec::new();
            for x in l {
                parts.push(safe_lit(x, quote)?);
            }
            format!("[{}]", parts.join(", "))
        }
        V::Map(_) => return None,
        other => other.lit()?,
    };
    if t.chars().any(|c| matches!(c, '{' | '}' | '\\') || c == quote) {
        return None;
    }
    Some(t)
}

impl FCase {
    fn normalise(mut self) -> FCase {
        let mut out: Vec<Seg> = Vec::new();
        for s in self.segs.drain(..) {
            match (out.last_mut(), s) {
                (_, Seg::Lit(l)) if l.is_empty() => {}
                (Some(Seg::Lit(a)), Seg::Lit(b)) => a.push_str(&b),
                (_, s) => out.push(s),
            }
        }
        self.segs = out;
        self
    }

    fn var_name(seg: usize, arg: usize) -> String {
        format!("v{}_{}", seg, arg)
    }

    fn binds(&self) -> Vec<(String, V)> {
        let mut b = Vec::new();
        for (k, s) in self.segs.iter().enumerate() {
            if let Seg::Ex(_, args) = s {
                for (i, a) in args.iter().enumerate() {
                    b.push((Self::var_name(k, i), a.clone()));
                }
            }
        }
        b
    }

    /// text of embedded expression `k` in the bound / literal form
    fn ex_text(&self, k: usize, literal: bool) -> Option<String> {
        let Seg::Ex(tmpl, args) = &self.segs[k] else { return None };
        if literal {
            let mut lits = Vec::new();
            for a in args {
                lits.push(safe_lit(a, self.quote)?);
            }
            Some(subst(tmpl, |i| lits.get(i).cloned().unwrap_or_default()))
        } else {
            Some(subst(tmpl, |i| Self::var_name(k, i)))
        }
    }

    fn source(&self, literal: bool) -> Option<String> {
        let mut s = format!("f{}", self.quote);
        for (k, seg) in self.segs.iter().enumerate() {
            match seg {
                Seg::Lit(l) => s.push_str(&esc_lit_part(l, self.quote)),
                Seg::Ex(..) => {
                    let t = self.ex_text(k, literal)?;
                    if self.pad {
                        s.push_str(&format!("{{ {} }}", t));
                    } else {
                        s.push_str(&format!("{{{}}}", t));
                    }
                }
            }
        }
        s.push(self.quote);
        Some(s)
    }

    fn json(&self) -> Value {
        json!({"kind": "fstr", "quote": self.quote.to_string(), "pad": self.pad,
               "segs": self.segs.iter().map(|s| match s {
                   Seg::Lit(l) => json!({"lit": l}),
                   Seg::Ex(t, a) => json!({"tmpl": t, "args": a.iter().map(vjson).collect::<Vec<_>>()}),
               }).collect::<Vec<_>>()})
    }

    fn unjson(j: &Value) -> Option<FCase> {
        let mut segs = Vec::new();
        for s in j.get("segs")?.as_array()? {
            if let Some(l) = s.get("lit").and_then(|x| x.as_str()) {
                segs.push(Seg::Lit(l.to_string()));
            } else {
                let args: Vec<V> = s.get("args")?.as_array()?.iter().filter_map(vunjson).collect();
                segs.push(Seg::Ex(s.get("tmpl")?.as_str()?.to_string(), args));
            }
        }
        Some(FCase { quote: j.get("quote")?.as_str()?.chars().next()?, pad: j.get("pad")?.as_bool()?, segs })
    }

    fn class(&self) -> String {
        let n_ex = self.segs.iter().filter(|s| matches!(s, Seg::Ex(..))).count();
        let n_lit = self.segs.len() - n_ex;
        format!("fstr:{}lit+{}expr", n_lit.min(3), n_ex.min(3))
    }
}

/// value == concatenation of the literal parts and string(e) of each embedded expression,
/// failure iff some string(e) fails
fn check_fstr(c: &FCase, sub: &str, acc: &mut Acc) -> Vec<Failure> {
    let n_ex = c.segs.iter().filter(|s| matches!(s, Seg::Ex(..))).count();
    let vsrc = c.source(false).unwrap_or_default();
    acc.case(sub, &format!("{} @ {}", vsrc, crate::run::binds_json(&c.binds())), c.segs.len() >= 2 && n_ex >= 1, &c.class());
    for s in &c.segs {
        if let Seg::Ex(_, args) = s {
            for a in args {
                acc.class(&format!("fstr-embedded:{}", a.type_name()));
            }
        }
    }
    let mut out = Vec::new();
    let mut shown = Vec::new();
    for literal in [false, true] {
        let Some(src) = c.source(literal) else { continue };
        let binds = if literal { vec![] } else { c.binds() };
        // the oracle: every part evaluated separately through string()
        let mut expected = Some(String::new());
        let mut part_panicked = false;
        for (k, seg) in c.segs.iter().enumerate() {
            match seg {
                Seg::Lit(l) => {
                    if let Some(e) = expected.as_mut() {
                        e.push_str(l);
                    }
                }
                Seg::Ex(..) => {
                    let ps = format!("string({})", c.ex_text(k, literal).unwrap_or_default());
                    let r = eval(&ps, &binds).res;
                    acc.eval_only(sub, 1);
                    match r {
                        Res::Ok(rscel::CelValue::String(s)) => {
                            if let Some(e) = expected.as_mut() {
                                e.push_str(&s);
                            }
                        }
                        Res::Panic(_) => part_panicked = true,
                        _ => expected = None,
                    }
                }
            }
        }
        if part_panicked {
            acc.skip("string(e) of an embedded expression panics (reported by the conversion grid)");
            continue;
        }
        let exp = match &expected {
            Some(s) => Exp::val(V::Str(s.clone())),
            None => Exp::fail(),
        };
        let r = eval(&src, &binds).res;
        acc.eval_only(sub, 1);
        if !literal {
            acc.class(if expected.is_some() { "fstr-outcome:value" } else { "fstr-outcome:failure" });
        }
        shown.push(json!({"source": src, "expected": exp.show(), "result": r.sum().show()}));
        if let Some(mode) = exp.judge(&r) {
            let form = if literal { "literal" } else { "bound" };
            let mut d = c.json();
            if let Value::Object(m) = &mut d {
                m.insert("form".into(), json!(form));
                m.insert("source".into(), json!(src));
                m.insert("expected".into(), json!(exp.show()));
                m.insert("actual".into(), json!(r.sum().show()));
            }
            out.push(Failure::new(
                format!("c14:fstr:{}{}", if literal { "literal-form:" } else { "" }, mode),
                format!("{} with {} -> {} but the parts give {}", src, crate::run::binds_json(&binds), r.sum().show(), exp.show()),
                d,
            ));
            break;
        }
    }
    acc.sample(&c.class(), || json!({"forms": shown, "bindings": crate::run::binds_json(&c.binds())}));
    out
}

fn fstr_values() -> Vec<V> {
    let mut m = BTreeMap::new();
    m.insert("k".to_string(), V::Int(1));
    vec![
        V::Int(-5),
        V::Int(i64::MIN),
        V::UInt(u64::MAX),
        V::F(1.5),
        V::F(-0.0),
        V::F(1e300),
        V::F(f64::NAN),
        V::s(""),
        V::s("x y"),
        V::s("é😀"),
        V::s("{}'\"\\"),
        V::Bytes(b"ab".to_vec()),
        V::Bytes("é".as_bytes().to_vec()),
        V::Bytes(vec![0xff]),
        V::Ts(0, 0),
        V::Ts(1704877065, 123_000_000),
        V::Dur(0),
        V::Dur(1_500_000_000),
        V::Bool(true),
        V::Null,
        V::List(vec![V::Int(1)]),
        V::List(vec![]),
        V::Map(m),
        V::Type("int".into()),
    ]
}

fn fstr_grid() -> Vec<FCase> {
    let mut out = Vec::new();
    let plain = |v: &V| Seg::Ex("$0".to_string(), vec![v.clone()]);
    let lit = |s: &str| Seg::Lit(s.to_string());
    for quote in ['"', '\''] {
        for v in fstr_values() {
            let layouts: Vec<Vec<Seg>> = vec![
                vec![plain(&v)],
                vec![lit("a"), plain(&v)],
                vec![plain(&v), lit("b")],
                vec![lit("a "), plain(&v), lit(" b")],
                vec![plain(&v), plain(&V::Int(7))],
                vec![plain(&V::s("s")), lit("-"), plain(&v)],
                vec![lit("{"), plain(&v), lit("}")],
                vec![lit("}{ é'\"\\\n"), plain(&v), lit("{{}}")],
            ];
            for (i, segs) in layouts.into_iter().enumerate() {
                out.push(FCase { quote, pad: i % 3 == 2, segs }.normalise());
            }
        }
        // no embedded expression at all: brace escapes only
        for l in ["", "{", "}", "{}", "}{", "{{", "{a}", "a{b}c", "'", "\"", "\\", "é{😀}"] {
            out.push(FCase { quote, pad: false, segs: vec![lit(l)] }.normalise());
        }
        // compound embedded expressions
        out.push(FCase { quote, pad: false, segs: vec![lit("sum="), Seg::Ex("$0 + $1".into(), vec![V::Int(2), V::Int(3)])] });
        out.push(FCase { quote, pad: true, segs: vec![Seg::Ex("$0 ? $1 : $2".into(), vec![V::Bool(false), V::Int(1), V::s("no")]), lit("!")] });
        out.push(FCase { quote, pad: false, segs: vec![Seg::Ex("[$0, $1][$2]".into(), vec![V::s("a"), V::UInt(2), V::Int(1)]), Seg::Ex("size($0)".into(), vec![V::s("héllo")])] });
        out.push(FCase { quote, pad: false, segs: vec![lit("n="), Seg::Ex("$0 / $1".into(), vec![V::Int(1), V::Int(0)])] });
    }
    out
}

const LIT_ALPHABET: &[&str] = &[
    "a", "b", "Z", "0", " ", "{", "}", "{", "}", "'", "\"", "\\", "\n", "\t", "$", "%", "é", "ß", "日", "😀", "\u{0301}", "\u{00a0}",
    "{}", "}{", "x=", ": ", "\r", "\u{1}",
];

fn gen_lit_part(g: &mut G) -> String {
    let n = 1 + g.below(6);
    let mut s = String::new();
    for _ in 0..n {
        s.push_str(g.pick_str(LIT_ALPHABET));
    }
    s
}

fn gen_embedded(g: &mut G) -> Seg {
    match g.below(16) {
        0 => Seg::Ex("$0 + $1".into(), vec![V::Int(g.range(-50, 50)), V::Int(g.range(-50, 50))]),
        1 => Seg::Ex("$0 + $1".into(), vec![V::Str(gen_string(g, 4)), V::Str(gen_string(g, 4))]),
        2 => Seg::Ex("$0 ? $1 : $2".into(), vec![V::Bool(g.flag()), gen_value(g, 0), gen_value(g, 0)]),
        3 => Seg::Ex("[$0, $1][$2]".into(), vec![gen_value(g, 0), gen_value(g, 0), V::Int(g.range(0, 2))]),
        4 => Seg::Ex("size($0)".into(), vec![V::Str(gen_string(g, 6))]),
        5 => Seg::Ex("string($0)".into(), vec![gen_value(g, 1)]),
        6 => Seg::Ex("$0".into(), vec![V::Str(gen_string(g, 8))]),
        7 => {
            // valid UTF-8 bytes
            Seg::Ex("$0".into(), vec![V::Bytes(gen_string(g, 6).into_bytes())])
        }
        8..=12 => Seg::Ex("$0".into(), vec![gen_convertible(g)]),
        _ => Seg::Ex("$0".into(), vec![gen_value(g, 1)]),
    }
}

/// a value of a type string() documents a text form for
fn gen_convertible(g: &mut G) -> V {
    match g.below(7) {
        0 => V::Int(gen_int(g)),
        1 => V::UInt(gen_uint(g)),
        2 => V::F(gen_f64(g)),
        3 => V::Str(gen_string(g, 6)),
        4 => V::Bytes(gen_string(g, 4).into_bytes()),
        5 => {
            let (s, n) = gen_ts(g);
            V::Ts(s, n)
        }
        _ => V::Dur(clamp_dur(gen_dur(g))),
    }
}

fn gen_fstr(g: &mut G) -> FCase {
    let quote = if g.flag() { '\'' } else { '"' };
    let pad = g.chance(64);
    let n = 1 + g.below(6);
    let mut segs = Vec::new();
    for _ in 0..n {
        if g.below(5) < 2 {
            segs.push(Seg::Lit(gen_lit_part(g)));
        } else {
            segs.push(gen_embedded(g));
        }
    }
    FCase { quote, pad, segs }.normalise()
}

// ---------------------------------------------------------------------------
// Random cases

fn gen_digits(g: &mut G) -> String {
    match g.below(6) {
        0 => gen_int(g).unsigned_abs().to_string(),
        1 => gen_uint(g).to_string(),
        2 => g.u64().to_string(),
        3 => {
            // around the 64-bit edges and beyond
            let base: i128 = *g.pick(&[i64::MAX as i128, u64::MAX as i128, 1i128 << 53, 1i128 << 32, 10i128.pow(19), 10i128.pow(25)]);
            (base + g.range(-3, 3) as i128).max(0).to_string()
        }
        4 => {
            let n = 1 + g.below(30);
            (0..n).map(|_| (b'0' + g.below(10) as u8) as char).collect()
        }
        _ => format!("{}{}", "0".repeat(1 + g.below(3)), g.below(1000)),
    }
}

fn gen_num_text(g: &mut G) -> String {
    const ODD: &[&str] = &[
        "", " ", "-", "+", "0x10", "1_000", "١٢٣", "１２", "𝟏", "½", "abc", "inf", "-inf", "nan", "NaN", "Infinity", "1u", ".", "e5",
        "1e", "--1", "+-1", "1-", "0b1", "1 2", "1,5", "1.5.2", "0x1p3", "1e1e1", "٣.٥", "1d", "1f", "0.",
    ];
    let mut s = match g.below(8) {
        0 | 1 => gen_digits(g),
        2 => format!("{}.{}", gen_digits(g), gen_digits(g)),
        3 => {
            let f = gen_f64(g);
            match g.below(3) {
                0 => format!("{}", f),
                1 => format!("{:?}", f),
                _ => format!("{:e}", f),
            }
        }
        4 => format!("{}{}{}{}", gen_digits(g), g.pick_str(&["e", "E"]), g.pick_str(&["", "+", "-"]), g.below(400)),
        5 => format!("{}.{}e{}{}", g.below(100), gen_digits(g), g.pick_str(&["", "+", "-"]), g.below(40)),
        6 => format!(".{}", gen_digits(g)),
        _ => g.pick_str(ODD).to_string(),
    };
    match g.below(12) {
        0 | 1 => s.insert(0, '-'),
        2 => s.insert(0, '+'),
        3 => s.insert_str(0, g.pick_str(&[" ", "\t", "\n", "\u{00a0}", "  "])),
        4 => s.push_str(g.pick_str(&[" ", "\t", "\n", "\u{00a0}", "u", "L", "f"])),
        _ => {}
    }
    s
}

fn gen_time_text(g: &mut G) -> String {
    match g.below(6) {
        0 | 1 | 2 => {
            let (s, n) = gen_ts(g);
            let off = *g.pick(&[0i64, 0, 60, -60, 330, -480, 840, -720, 1]);
            let digits = *g.pick(&[0usize, 3, 3, 6, 9]);
            let n = match digits {
                0 => 0,
                3 => n / 1_000_000 * 1_000_000,
                6 => n / 1_000 * 1_000,
                _ => n,
            };
            fmt_rfc3339(s, n, off, digits).unwrap_or_else(|| "1970-01-01T00:00:00Z".to_string())
        }
        3 | 4 => {
            const U: &[&str] = &["d", "h", "m", "s"];
            let start = g.below(4);
            let mut s = String::new();
            for u in &U[start..] {
                if s.is_empty() || g.flag() {
                    s.push_str(&format!("{}{}", g.below(1000), u));
                }
            }
            s
        }
        _ => g.pick_str(&["", "now", "T", "Z", "h", "ms", "PT1H", "1h30", "1:30", "2024", "12:00", "-", "--", "::"]).to_string(),
    }
}

fn gen_arg(g: &mut G) -> V {
    match g.below(10) {
        0 => V::Int(g.u64() as i64),
        1 => V::UInt(g.u64()),
        2 => V::F(f64::from_bits(g.u64())),
        3 => {
            // doubles next to the integer range edges and of integer magnitude
            let base = *g.pick(&[TWO63, -TWO63, TWO64, 0.0, 1.0, -1.0, 4294967296.0, 9007199254740992.0]);
            let ulps = g.range(-3, 3);
            V::F(f64::from_bits((base.to_bits() as i64).wrapping_add(ulps) as u64))
        }
        4 | 5 => V::Str(gen_num_text(g)),
        6 => V::Str(gen_time_text(g)),
        _ => gen_value(g, 1),
    }
}

fn random_case(gn: &[u8], acc: &mut Acc) -> Vec<Failure> {
    let mut g = G::new(gn);
    match g.below(10) {
        0..=3 => {
            let ctor = g.pick_str(CTORS);
            let mut x = gen_arg(&mut g);
            if ctor == "timestamp" && matches!(x, V::Null) {
                x = V::Int(gen_int(&mut g));
            }
            check_conv(ctor, &x, "random", acc)
        }
        4 | 5 => {
            // a round-trip law on a random value of its domain
            let li = g.below(LAWS.len());
            let x = match LAWS[li].tmpl {
                t if t.contains("bytes") && LAWS[li].name != "bytes(string(b))" => V::Str(gen_string(&mut g, 10)),
                "bytes(string($0))" => {
                    if g.chance(200) {
                        V::Bytes(gen_string(&mut g, 10).into_bytes())
                    } else {
                        V::Bytes(gen_bytes(&mut g, 8))
                    }
                }
                "string(int($0))" => V::Str(gen_digits(&mut g)),
                "timestamp(string($0))" | "timestamp(int($0))" => {
                    let (s, n) = gen_ts(&mut g);
                    V::Ts(s, if g.flag() { n / 1_000_000 * 1_000_000 } else { n })
                }
                t if t.starts_with("uint(") => V::UInt(if g.flag() { g.u64() } else { gen_uint(&mut g) }),
                t if t.contains("double(string") || t.contains("float(string") => V::F(if g.flag() { f64::from_bits(g.u64()) } else { gen_f64(&mut g) }),
                _ => V::Int(if g.flag() { g.u64() as i64 } else { gen_int(&mut g) }),
            };
            match (LAWS[li].applies)(&x) {
                Some(exp) => check_law(li, &x, exp, "random", acc),
                None => {
                    acc.case("random", &format!("{} | {}", LAWS[li].tmpl, x.canon()), false, "law:outside-domain");
                    vec![]
                }
            }
        }
        6 => {
            let s = match g.below(3) {
                0 => g.range(-3, 3),
                1 => *g.pick(&[9223372036854775i64, -9223372036854775, 9223372036854774, -9223372036854776, i64::MAX, i64::MIN]),
                _ => gen_int(&mut g),
            };
            let n = match g.below(4) {
                0 => g.range(-2, 2),
                1 => g.u32() as i64 % 1_000_000_000,
                2 => {
                    let k = g.range(-3, 3);
                    let base = *g.pick(&[1_000_000_000i64, 1 << 32, 1 << 31, 5_000_000_000, -1_000_000_000, -(1 << 32)]);
                    base.wrapping_add(k)
                }
                _ => g.u64() as i64,
            };
            check_dur2(s, n, "random", acc)
        }
        _ => {
            let c = gen_fstr(&mut g);
            check_fstr(&c, "random", acc)
        }
    }
}

// ---------------------------------------------------------------------------
// Driver

const DUR2_SECONDS: &[i64] = &[
    0, 1, -1, 2, 59, 60, 3600, 86400, -86400, 2147483647, 4294967296, 9223372036854774, 9223372036854775, 9223372036854776,
    -9223372036854775, -9223372036854776, -9223372036854777, i64::MAX, i64::MIN,
];
const DUR2_NANOS: &[i64] = &[
    -1, 0, 1, 500_000_000, 806_999_999, 807_000_000, 807_000_001, 192_999_999, 193_000_000, 999_999_999, 1_000_000_000, 1_000_000_001,
    2_000_000_000, 2147483647, 2147483648, 4294967295, 4294967296, 4294967297, 5_000_000_000, -999_999_999, -1_000_000_000,
    -4294967296, -4294967295, i64::MAX, i64::MIN, i64::MIN + 1,
];

fn arity_cases() -> Vec<(&'static str, Vec<V>)> {
    let reps = arity_reps();
    let small = [V::Int(1), V::s("1"), V::F(1.0), V::Ts(1, 0), V::Null];
    let mut out = Vec::new();
    for c in CTORS {
        out.push((*c, vec![]));
        for a in reps.iter().chain([V::Null].iter()) {
            for b in &reps {
                out.push((*c, vec![a.clone(), b.clone()]));
            }
        }
        for a in &small {
            for b in &small {
                for d in &small[..4] {
                    out.push((*c, vec![a.clone(), b.clone(), d.clone()]));
                }
            }
        }
    }
    out
}

/// a few hand-picked cases run first and sequentially, so that the written-out samples in the
/// evidence file span the sub-runs (they are members of the grids below)
fn showcase(acc: &mut Acc) {
    let sub = "showcase";
    let conv: Vec<(&str, V)> = vec![
        ("int", V::F(-1.5)),
        ("int", V::s("-9223372036854775808")),
        ("uint", V::s("18446744073709551616")),
        ("uint", V::Int(i64::MAX)),
        ("double", V::Int((1 << 53) + 1)),
        ("float", V::s("1e-7")),
        ("string", V::Bytes(vec![0xff])),
        ("string", V::UInt(u64::MAX)),
        ("bytes", V::s("é😀")),
        ("bool", V::s("TRUE")),
        ("timestamp", V::s("2024-01-10T08:57:45.123+01:00")),
        ("timestamp", V::Int(TS_MAX_S + 1)),
        ("duration", V::s("2h30m")),
        ("dyn", V::List(vec![V::Int(1)])),
        ("type", V::F(1.0)),
    ];
    for (c, v) in &conv {
        for f in check_conv(c, v, sub, acc) {
            acc.fail(f);
        }
    }
    for (li, v) in [(0usize, V::Int(i64::MIN)), (2, V::F(0.1)), (4, V::s("a😀b")), (7, V::Ts(1704877065, 123_000_000))] {
        if let Some(e) = (LAWS[li].applies)(&v) {
            for f in check_law(li, &v, e, sub, acc) {
                acc.fail(f);
            }
        }
    }
    for f in check_dur2(1, 999_999_999, sub, acc) {
        acc.fail(f);
    }
    for f in check_arity("int", &[V::Int(1), V::Int(2)], sub, acc) {
        acc.fail(f);
    }
    let fc = [
        FCase { quote: '"', pad: false, segs: vec![Seg::Lit("{a} é'\"".into()), Seg::Ex("$0".into(), vec![V::Ts(0, 0)]), Seg::Lit(" / ".into()), Seg::Ex("$0 + $1".into(), vec![V::Int(2), V::Int(3)])] },
        FCase { quote: '\'', pad: true, segs: vec![Seg::Lit("n=".into()), Seg::Ex("$0".into(), vec![V::List(vec![V::Int(1)])])] },
        FCase { quote: '"', pad: false, segs: vec![Seg::Ex("$0".into(), vec![V::F(1.5)]), Seg::Ex("$0".into(), vec![V::Bytes("é".as_bytes().to_vec())]), Seg::Lit("}".into())] },
    ];
    for c in &fc {
        for f in check_fstr(c, sub, acc) {
            acc.fail(f);
        }
    }
}

fn run(opts: &Opts, acc: &mut Acc) {
    if !opts.is_dbg() {
        showcase(acc);
    }
    let pool = value_pool();
    let mut grid: Vec<(&'static str, V)> = Vec::new();
    for c in CTORS {
        for v in &pool {
            grid.push((*c, v.clone()));
        }
    }
    par_chunks(acc, opts.threads, &grid, |(c, v), a| {
        for f in check_conv(c, v, "conv-grid", a) {
            a.fail(f);
        }
    });
    acc.mark_exhaustive("conv-grid", "11 constructors x every pool value of every type and every text of the text pool, bound and literal form");

    let mut laws: Vec<(usize, V, Exp)> = Vec::new();
    for (li, law) in LAWS.iter().enumerate() {
        for v in &pool {
            if let Some(e) = (law.applies)(v) {
                laws.push((li, v.clone(), e));
            }
        }
    }
    par_chunks(acc, opts.threads, &laws, |(li, v, e), a| {
        for f in check_law(*li, v, e.clone(), "roundtrip-grid", a) {
            a.fail(f);
        }
    });
    acc.mark_exhaustive("roundtrip-grid", "every round-trip law x every pool value of its domain");

    let mut d2: Vec<(i64, i64)> = Vec::new();
    for s in DUR2_SECONDS {
        for n in DUR2_NANOS {
            d2.push((*s, *n));
        }
    }
    par_chunks(acc, opts.threads, &d2, |(s, n), a| {
        for f in check_dur2(*s, *n, "duration-grid", a) {
            a.fail(f);
        }
    });
    acc.mark_exhaustive("duration-grid", "duration(seconds, nanos): boundary seconds x boundary nanos");

    if !opts.is_dbg() {
        let ar = arity_cases();
        par_chunks(acc, opts.threads, &ar, |(c, args), a| {
            for f in check_arity(c, args, "arity-grid", a) {
                a.fail(f);
            }
        });
        acc.mark_exhaustive("arity-grid", "every constructor with 0 arguments, 12 x 11 argument pairs and 5 x 5 x 4 triples (last argument never null)");

        let fg = fstr_grid();
        par_chunks(acc, opts.threads, &fg, |c, a| {
            for f in check_fstr(c, "fstr-grid", a) {
                a.fail(f);
            }
        });
        acc.mark_exhaustive("fstr-grid", "24 embedded values x 8 segment layouts x 2 quote styles, brace-escape-only strings, compound placeholders");
    }

    let n = match (opts.tier, opts.is_dbg()) {
        (Tier::Quick, false) => 200_000,
        (Tier::Quick, true) => 10_000,
        (_, false) => 800_000,
        (_, true) => 80_000,
    };
    random_genomes(acc, opts, "random", n, 200, random_case);
}

fn replay(_opts: &Opts, d: &Value, acc: &mut Acc) {
    if let Some(hex) = d.get("genome_hex").and_then(|h| h.as_str()) {
        let gn = crate::engine::unhex(hex);
        for f in random_case(&gn, acc) {
            acc.fail(f);
        }
        return;
    }
    match d.get("kind").and_then(|k| k.as_str()).unwrap_or("") {
        "chk" => {
            let (Some(label), Some(tmpl), Some(args), Some(exp)) = (
                d.get("label").and_then(|x| x.as_str()),
                d.get("tmpl").and_then(|x| x.as_str()),
                d.get("args").and_then(|x| x.as_array()),
                d.get("exp").and_then(Exp::unjson),
            ) else {
                acc.inconclusive.push("bad C14 replay file".into());
                return;
            };
            let args: Vec<V> = args.iter().filter_map(vunjson).collect();
            acc.case("replay", &format!("{} | {}", tmpl, args_canon(&args)), true, "replay");
            // plain conversions are re-derived from the model, everything else uses the stored expectation
            let ctor = CTORS.iter().find(|c| tmpl == format!("{}($0)", c));
            let exp = match (ctor, args.first()) {
                (Some(c), Some(x)) if args.len() == 1 => conv_model(c, x).0,
                _ if tmpl == "duration($0, $1)" => match (args.first(), args.get(1)) {
                    (Some(V::Int(s)), Some(V::Int(n))) => dur2_model(*s, *n).0,
                    _ => exp,
                },
                _ => exp,
            };
            let c = Chk { label: label.to_string(), tmpl: tmpl.to_string(), args, exp };
            if let (Some(mut f), _) = c.run("replay", acc) {
                if label.ends_with("nanos-out-of-range") {
                    f.sig = f.sig.replace("value-instead-of-error", "wrong-value");
                }
                acc.fail(f);
            }
        }
        "fstr" => {
            let Some(c) = FCase::unjson(d) else {
                acc.inconclusive.push("bad C14 replay file".into());
                return;
            };
            for f in check_fstr(&c, "replay", acc) {
                acc.fail(f);
            }
        }
        other => acc.inconclusive.push(format!("unknown C14 replay kind {:?}", other)),
    }
}

/// libFuzzer entry: one generated case
pub fn fuzz_case(genome: &[u8], acc: &mut Acc) -> Vec<Failure> {
    random_case(genome, acc)
}
