//! Property registry.

use crate::engine::{Acc, Opts};
use serde_json::Value;

pub struct Prop {
    pub id: &'static str,
    /// how cases are generated and what makes one non-trivial / distinct (goes to evidence)
    pub rule: &'static str,
    pub assumptions: &'static [&'static str],
    /// runs the check; called in the release binary (everything) and, when
    /// `both_profiles` says so, again in the dbg binary (`opts.is_dbg()`), where it
    /// should run the profile-sensitive subset
    pub run: fn(&Opts, &mut Acc),
    /// re-runs one saved case (the `detail` object of a replay/regression file)
    pub replay: fn(&Opts, &Value, &mut Acc),
    pub both_profiles: fn(&Opts) -> bool,
}

macro_rules! props {
    ($($m:ident),* $(,)?) => {
        $(pub mod $m;)*
        pub fn all() -> Vec<&'static Prop> {
            vec![$(&$m::PROP),*]
        }
    };
}

props!(c01, c02, c03, c04, c05, c06, c07, c08, c09, c10, c11, c12, c13, c14, c15, c16, c17, c18, c19, c20);

pub fn find(id: &str) -> Option<&'static Prop> {
    all().into_iter().find(|p| p.id == id)
}

/// Saved minimal cases under /verif/regressions/<ID>/*.json are replayed first on every run.
pub fn replay_regressions(prop: &'static Prop, opts: &Opts, acc: &mut Acc) {
    let dir = std::path::Path::new(crate::engine::VERIF_ROOT)
        .join("regressions")
        .join(prop.id);
    let mut files: Vec<_> = match std::fs::read_dir(&dir) {
        Ok(rd) => rd.filter_map(|e| e.ok()).map(|e| e.path()).collect(),
        Err(_) => return,
    };
    files.sort();
    let mut n = 0u64;
    for f in files {
        if f.extension().and_then(|e| e.to_str()) != Some("json") {
            continue;
        }
        let Ok(body) = std::fs::read_to_string(&f) else { continue };
        let Ok(v) = serde_json::from_str::<Value>(&body) else {
            acc.inconclusive.push(format!("unparsable regression file {}", f.display()));
            continue;
        };
        let detail = v.get("detail").cloned().unwrap_or(v);
        (prop.replay)(opts, &detail, acc);
        n += 1;
    }
    acc.note("regressions_replayed", serde_json::json!(n));
}

pub fn always_both(_: &Opts) -> bool {
    true
}
pub fn thorough_both(o: &Opts) -> bool {
    o.tier == crate::engine::Tier::Thorough
}

/// Entry points for coverage-guided fuzzing (libFuzzer targets under /verif/fuzz): decode the
/// bytes as a genome for the property's random generator and run its oracle once.
pub fn fuzz_entry(id: &str) -> Option<fn(&[u8], &mut Acc) -> Vec<crate::engine::Failure>> {
    Some(match id {
        "C01" => c01::fuzz_case,
        "C01src" => c01::fuzz_source,
        "C02" => c02::fuzz_case,
        "C05" => c05::fuzz_case,
        "C06" => c06::fuzz_case,
        "C07" => c07::fuzz_case,
        "C08" => c08::fuzz_case,
        "C09" => c09::fuzz_case,
        "C10" => c10::fuzz_case,
        "C11" => c11::fuzz_case,
        "C17" => c17::fuzz_case,
        "C03" => c03::fuzz_case,
        "C04" => c04::fuzz_case,
        "C12" => c12::fuzz_case,
        "C13" => c13::fuzz_case,
        "C14" => c14::fuzz_case,
        "C15" => c15::fuzz_case,
        "C16" => c16::fuzz_case,
        "C18" => c18::fuzz_case,
        "C19" => c19::fuzz_case,
        "C20" => c20::fuzz_case,
        _ => return None,
    })
}
