//! C09 — constant folding is invisible: compile-time and run-time evaluation agree.
//!
//! Metamorphic relation: replacing a variable by a literal of its bound value (or a literal
//! by a fresh variable bound to that value) must not change the result. The all-variable form
//! is executed by the VM, the substituted forms are (partly) evaluated by the compiler.

use super::Prop;
use crate::engine::{par_chunks, random_genomes, Acc, Failure, Opts};
use crate::expr::*;
use crate::g::G;
use crate::gen::{gen_env, gen_expr, substitute, Cfg, Env, Ty};
use crate::run::{compile, eval, Res, Res2, Sum};
use crate::val::V;
use rscel::{ByteCode, CelValue};
use serde_json::{json, Value};

pub static PROP: Prop = Prop {
    id: "C09",
    rule: "expressions from the full-language generator (built-ins not rebound) over an environment of bound and unbound \
           variables; forms = the all-variable form, the all-literal form, every single-variable substitution and random \
           subsets (all subsets when <=4 variables), plus literal->fresh-variable hoisting; all forms are evaluated under the \
           same bindings and must give the same value (canonical, doubles bit-exact) or the same error variant. A seed grid \
           covers the constructs the statement names (?: conditions of every type, duplicate map keys, calls and macros over \
           partly constant arguments, unbound variables, maps read by dot under keys spelled like built-ins: constant, bound and \
           run-time-built map alike). Clock: programs containing now()/timestamp() are compiled, then \
           after a fixed 30 ms sleep executed; the result must not predate the execution. Non-trivial = the all-literal form \
           compiles to a single Push while the variable form does not, and the expression contains a call, container, ?:, \
           ||/&& or macro; distinct by canonical source + bindings.",
    assumptions: &[
        "error messages are not compared, only the error variant",
        "values that are not part of the language's value domain (an error nested in a list) are compared by their Debug text",
        "the host clock is monotone enough over 30 ms (fixed sleep, not a timeout)",
    ],
    run,
    replay,
    both_profiles: super::thorough_both,
};

fn is_single_push(src: &str) -> Option<bool> {
    match compile(src) {
        Res2::Ok(p) => {
            let bc: Vec<ByteCode> = p.bytecode().iter().cloned().collect();
            Some(bc.len() == 1 && matches!(&bc[0], ByteCode::Push(v) if !matches!(v, CelValue::Ident(_))))
        }
        _ => None,
    }
}

fn interesting(e: &E) -> bool {
    let c = e.constructs();
    ["call", "list", "map", "ternary", "or", "and", "match", "fstring", "index"]
        .iter()
        .any(|k| c.contains(k))
}

/// Compare the forms of one case. `forms` = (label, source).
pub fn compare_forms(
    forms: &[(String, String)],
    binds: &[(String, V)],
    e: &E,
    sub: &str,
    acc: &mut Acc,
) -> Vec<Failure> {
    let base_src = &forms[0].1;
    let canon = format!("{} @ {}", base_src, crate::run::binds_json(binds));
    let base = eval(base_src, binds);
    let base_sum = base.res.sum();
    let all_lit = forms.iter().find(|(l, _)| l == "all-literal");
    let folded = all_lit.and_then(|(_, s)| is_single_push(s)).unwrap_or(false);
    let var_folded = is_single_push(base_src).unwrap_or(false);
    let nontrivial = folded && !var_folded && interesting(e);
    let class = if nontrivial { "folded-vs-vm" } else if folded { "folded-both" } else { "not-folded" };
    acc.case(sub, &canon, nontrivial, class);
    for k in e.constructs() {
        acc.class(&format!("has:{}", k));
    }
    acc.sample(&format!("{}:{:?}", class, e.constructs().iter().next()), || {
        json!({"variable_form": base_src, "bindings": crate::run::binds_json(binds),
               "other_forms": forms.iter().skip(1).map(|(l, s)| format!("{}: {}", l, s)).collect::<Vec<_>>(),
               "result": base_sum.show()})
    });
    let mut out = Vec::new();
    if let Sum::Panic(_) = base_sum {
        return out; // C01 owns panics; nothing to compare against
    }
    for (label, src) in forms.iter().skip(1) {
        let r = eval(src, binds).res.sum();
        acc.eval_only(sub, 1);
        if let Sum::Panic(_) = r {
            continue;
        }
        if r != base_sum {
            let kind = disagreement_kind(e, &base_sum, &r);
            out.push(Failure::new(
                format!("c09:{}", kind),
                format!("{} -> {} but {} ({}) -> {} under {}", base_src, base_sum.show(), src, label, r.show(), crate::run::binds_json(binds)),
                json!({"kind": "forms", "variable_form": base_src, "other_form": src, "label": label,
                       "bindings": binds.iter().map(|(k, v)| json!([k, super::c03::vjson(v)])).collect::<Vec<_>>(),
                       "variable_result": base_sum.show(), "other_result": r.show()}),
            ));
            break;
        }
    }
    out
}

/// coarse root-cause label for a disagreement (so that distinct causes are distinct findings)
fn disagreement_kind(e: &E, a: &Sum, b: &Sum) -> String {
    let c = e.constructs();
    let what = match (a, b) {
        (Sum::Err(x), Sum::Err(y)) => format!("error-class:{}->{}", x, y),
        (Sum::Err(x), _) => format!("vm-fails({})-folded-succeeds", x),
        (_, Sum::Err(y)) => format!("vm-succeeds-folded-fails({})", y),
        _ => "different-values".to_string(),
    };
    let ctx = if c.contains("ternary") {
        "ternary"
    } else if c.contains("match") {
        "match"
    } else if c.contains("map") {
        "map-literal"
    } else if c.contains("call") {
        "call"
    } else {
        "other"
    };
    format!("{}:{}", ctx, what)
}

fn forms_for(g: &mut G, e: &E, env: &Env, max_forms: usize) -> Vec<(String, String)> {
    let fvs = free_vars(e);
    // substitutable: bound, non-loop variables with a value
    let subst: Vec<(String, V)> = env
        .vars
        .iter()
        .filter(|v| !v.loop_var && fvs.contains(&v.name))
        .filter_map(|v| v.value.clone().map(|x| (v.name.clone(), x)))
        .collect();
    let mut forms = vec![("variables".to_string(), render_min(e))];
    if subst.is_empty() {
        return forms;
    }
    let apply = |mask: u64| -> E {
        let mut cur = e.clone();
        for (i, (n, v)) in subst.iter().enumerate() {
            if mask & (1 << i) != 0 {
                cur = substitute(&cur, n, v);
            }
        }
        cur
    };
    let n = subst.len().min(20);
    let full = (1u64 << n) - 1;
    forms.push(("all-literal".to_string(), render_min(&apply(full))));
    if n <= 4 {
        for mask in 1..full {
            forms.push((format!("subset{:b}", mask), render_min(&apply(mask))));
        }
    } else {
        for i in 0..n {
            if forms.len() >= max_forms {
                break;
            }
            forms.push((format!("only-{}", subst[i].0), render_min(&apply(1 << i))));
        }
        while forms.len() < max_forms {
            let mask = g.u64() & full;
            if mask == 0 || mask == full {
                break;
            }
            forms.push((format!("subset{:b}", mask), render_min(&apply(mask))));
        }
    }
    forms.dedup_by(|a, b| a.1 == b.1);
    forms
}

/// literal -> fresh variable: replace up to `k` atomic literals by variables h0.. bound to them
fn hoist(e: &E, g: &mut G, binds: &mut Vec<(String, V)>) -> E {
    fn go(e: &E, g: &mut G, binds: &mut Vec<(String, V)>, in_pattern_head: bool) -> E {
        match e {
            E::Lit(v) if !in_pattern_head && binds.len() < 6 && g.chance(96) => {
                let name = format!("h{}", binds.len());
                binds.push((name.clone(), v.clone()));
                var(&name)
            }
            E::Lit(_) | E::Var(_) => e.clone(),
            E::Not(n, x) => E::Not(*n, Box::new(go(x, g, binds, false))),
            E::Neg(n, x) => E::Neg(*n, Box::new(go(x, g, binds, false))),
            E::Bin(op, a, b) => E::Bin(*op, Box::new(go(a, g, binds, false)), Box::new(go(b, g, binds, false))),
            E::Tern(c, a, b) => E::Tern(
                Box::new(go(c, g, binds, false)),
                Box::new(go(a, g, binds, false)),
                Box::new(go(b, g, binds, false)),
            ),
            E::List(l) => E::List(l.iter().map(|x| go(x, g, binds, false)).collect()),
            E::Map(m) => E::Map(m.iter().map(|(k, v)| (go(k, g, binds, false), go(v, g, binds, false))).collect()),
            E::Index(a, i) => E::Index(Box::new(go(a, g, binds, false)), Box::new(go(i, g, binds, false))),
            E::Field(a, f) => E::Field(Box::new(go(a, g, binds, false)), f.clone()),
            E::Call(f, args) => {
                // macro loop-variable declarations and callee names stay as they are
                let f2 = match f.as_ref() {
                    E::Field(r, n) => E::Field(Box::new(go(r, g, binds, false)), n.clone()),
                    other => other.clone(),
                };
                E::Call(Box::new(f2), args.iter().map(|x| go(x, g, binds, false)).collect())
            }
            E::FStr(_) => e.clone(),
            E::Match(s, cases) => E::Match(
                Box::new(go(s, g, binds, false)),
                cases
                    .iter()
                    .map(|(p, x)| {
                        let p2 = match p {
                            // a pattern that starts with a type-named identifier would change meaning;
                            // fresh names h0.. never collide, so hoisting inside patterns is safe
                            Pat::Cmp(op, pe) => Pat::Cmp(*op, go(pe, g, binds, false)),
                            o => o.clone(),
                        };
                        (p2, go(x, g, binds, false))
                    })
                    .collect(),
            ),
        }
    }
    go(e, g, binds, false)
}

fn check_generated(genome: &[u8], acc: &mut Acc) -> Vec<Failure> {
    let mut g = G::new(genome);
    let mut cfg = Cfg::full();
    cfg.map_iter = false;
    cfg.max_depth = 5;
    cfg.illtyped = 40;
    let env = gen_env(&mut g, &cfg);
    let ty = *g.pick(&[Ty::Any, Ty::Bool, Ty::Int, Ty::Str, Ty::List, Ty::F, Ty::Map]);
    let e = gen_expr(&mut g, &cfg, &env, ty);
    let mut binds = env.bindings();
    let mut forms = forms_for(&mut g, &e, &env, 10);
    // reverse direction
    let mut hb: Vec<(String, V)> = Vec::new();
    let hoisted = hoist(&e, &mut g, &mut hb);
    if !hb.is_empty() {
        forms.push(("hoisted".to_string(), render_min(&hoisted)));
        binds.extend(hb);
    }
    if forms.len() < 2 {
        acc.case("generated", &forms[0].1, false, "no-substitutable-variable");
        return vec![];
    }
    compare_forms(&forms, &binds, &e, "generated", acc)
}

/// the constructs the statement names, each with operands of every type
fn seed_grid() -> Vec<(E, Vec<(String, V)>)> {
    let mut out: Vec<(E, Vec<(String, V)>)> = Vec::new();
    let mut vals: Vec<V> = vec![
        V::Int(0), V::Int(1), V::Int(-3), V::UInt(0), V::UInt(2), V::F(0.0), V::F(-0.0), V::F(1.5), V::F(f64::NAN),
        V::Bool(true), V::Bool(false), V::s(""), V::s("a"), V::Bytes(vec![]), V::Bytes(vec![1]), V::List(vec![]),
        V::List(vec![V::Int(1)]), V::Null, V::Type("int".into()), V::Ts(0, 0), V::Dur(0),
    ];
    let mut m = std::collections::BTreeMap::new();
    m.insert("a".to_string(), V::Int(1));
    vals.push(V::Map(m));
    vals.push(V::Map(Default::default()));
    let x = || var("x");
    for v in &vals {
        let b = vec![("x".to_string(), v.clone())];
        // conditions of ?: and operands of the logical operators
        out.push((E::Tern(Box::new(x()), Box::new(ilit(2)), Box::new(ilit(3))), b.clone()));
        out.push((E::Tern(Box::new(E::Not(1, Box::new(x()))), Box::new(ilit(2)), Box::new(ilit(3))), b.clone()));
        out.push((bin(Op::Or, x(), E::Lit(V::Bool(false))), b.clone()));
        out.push((bin(Op::And, x(), E::Lit(V::Bool(true))), b.clone()));
        out.push((E::Not(1, Box::new(x())), b.clone()));
        out.push((call("bool", vec![x()]), b.clone()));
        out.push((method(E::List(vec![ilit(1)]), "all", vec![var("e"), x()]), b.clone()));
        out.push((method(E::List(vec![ilit(1)]), "filter", vec![var("e"), x()]), b.clone()));
        // containers and calls over partly constant arguments
        out.push((E::Map(vec![(slit("a"), x()), (slit("a"), ilit(2))]), b.clone()));
        out.push((E::Map(vec![(slit("a"), ilit(2)), (slit("a"), x())]), b.clone()));
        out.push((E::Index(Box::new(E::Map(vec![(slit("a"), x()), (slit("a"), ilit(2)), (slit("b"), ilit(3))])), Box::new(slit("a"))), b.clone()));
        out.push((E::List(vec![x(), ilit(1)]), b.clone()));
        out.push((call("size", vec![E::List(vec![x()])]), b.clone()));
        out.push((method(E::List(vec![x()]), "filter", vec![var("v"), E::Lit(V::Bool(true))]), b.clone()));
        out.push((method(E::List(vec![x(), ilit(1)]), "map", vec![var("v"), var("v")]), b.clone()));
        out.push((call("type", vec![x()]), b.clone()));
        out.push((call("string", vec![x()]), b.clone()));
        out.push((call("dyn", vec![E::List(vec![x(), x()])]), b.clone()));
        out.push((call("min", vec![x(), ilit(1)]), b.clone()));
        out.push((E::Match(Box::new(x()), vec![(Pat::Type("int".into()), ilit(1)), (Pat::Cmp(None, slit("a")), ilit(2)), (Pat::Any, ilit(3))]), b.clone()));
        out.push((E::FStr(vec![FSeg::Lit("v=".into()), FSeg::Expr(x())]), b.clone()));
        out.push((call("coalesce", vec![x(), ilit(7)]), b.clone()));
        out.push((call("has", vec![E::Field(Box::new(x()), "a".into())]), b.clone()));
        // failing sub-expressions in conditions
        out.push((E::Tern(Box::new(bin(Op::Gt, bin(Op::Div, x(), ilit(0)), ilit(0))), Box::new(slit("a")), Box::new(slit("b"))), b.clone()));
        out.push((E::Tern(Box::new(E::Index(Box::new(E::List(vec![])), Box::new(x()))), Box::new(slit("a")), Box::new(slit("b"))), b.clone()));
    }
    // macros over a constant receiver whose body calls a built-in on the variable, the call sitting
    // inside something that would absorb a failing argument (container, coalesce, ||, ?:)
    for v in [V::Int(7), V::s("ab"), V::List(vec![V::Int(1), V::Int(2)])] {
        let b = vec![("x".to_string(), v)];
        let calls: Vec<E> = vec![
            call("int", vec![x()]),
            call("string", vec![x()]),
            call("size", vec![x()]),
            call("type", vec![x()]),
            call("dyn", vec![x()]),
            method(x(), "size", vec![]),
            call("max", vec![x(), x()]),
        ];
        for c in &calls {
            let wraps: Vec<E> = vec![
                c.clone(),
                E::List(vec![c.clone()]),
                E::Map(vec![(slit("n"), var("v")), (slit("c"), c.clone())]),
                call("coalesce", vec![c.clone(), ilit(0)]),
                E::Tern(Box::new(E::Lit(V::Bool(true))), Box::new(E::List(vec![c.clone()])), Box::new(E::List(vec![]))),
                bin(Op::Or, bin(Op::Eq, c.clone(), c.clone()), E::Lit(V::Bool(true))),
                E::FStr(vec![FSeg::Lit("c=".into()), FSeg::Expr(c.clone())]),
            ];
            let recv = || E::List(vec![ilit(0), ilit(1)]);
            for w in &wraps {
                out.push((method(recv(), "map", vec![var("v"), w.clone()]), b.clone()));
                out.push((method(recv(), "map", vec![var("v"), E::Lit(V::Bool(true)), w.clone()]), b.clone()));
                out.push((method(recv(), "filter", vec![var("v"), E::List(vec![w.clone()])]), b.clone()));
                out.push((method(recv(), "all", vec![var("v"), E::List(vec![w.clone()])]), b.clone()));
                out.push((method(recv(), "exists", vec![var("v"), E::List(vec![w.clone()])]), b.clone()));
                out.push((method(recv(), "exists_one", vec![var("v"), E::List(vec![w.clone()])]), b.clone()));
                out.push((method(recv(), "reduce", vec![var("acc"), var("v"), bin(Op::Add, var("acc"), E::List(vec![w.clone()])), E::List(vec![])]), b.clone()));
                out.push((method(recv(), "reduce", vec![var("acc"), var("v"), var("acc"), E::List(vec![w.clone()])]), b.clone()));
                out.push((method(E::Map(vec![(slit("k"), ilit(1))]), "map", vec![var("v"), w.clone()]), b.clone()));
                out.push((method(E::Map(vec![(slit("k"), ilit(1))]), "filter", vec![var("v"), E::List(vec![w.clone()])]), b.clone()));
                // nested: the inner macro's receiver is constant too
                out.push((method(recv(), "map", vec![var("v"), method(E::List(vec![ilit(5)]), "map", vec![var("u"), w.clone()])]), b.clone()));
            }
        }
    }
    // a map read with dot notation under a key spelled like a built-in function, macro or type:
    // the entry wins over the method of that name, for a constant map (folded by the compiler)
    // exactly as for a bound one or one built at run time (round 5, C09-m9)
    for name in ["size", "min", "max", "round", "contains", "map", "filter", "all", "exists", "has", "reduce", "abs",
                 "startsWith", "matches", "sort", "coalesce", "int", "string", "type", "dyn", "timestamp", "now", "a"] {
        for v in [V::Int(10), V::s("s"), V::Bool(false), V::Null, V::List(vec![V::Int(1)])] {
            let mut m = std::collections::BTreeMap::new();
            m.insert(name.to_string(), v.clone());
            m.insert("zz".to_string(), V::Int(1));
            let bm = vec![("x".to_string(), V::Map(m))];
            let fld = |r: E| E::Field(Box::new(r), name.to_string());
            out.push((fld(x()), bm.clone()));
            out.push((bin(Op::Eq, fld(x()), fld(x())), bm.clone()));
            out.push((call("has", vec![fld(x())]), bm.clone()));
            out.push((E::Index(Box::new(x()), Box::new(slit(name))), bm.clone()));
            out.push((call("coalesce", vec![fld(x()), ilit(7)]), bm.clone()));
            let bv = vec![("x".to_string(), v.clone())];
            out.push((fld(E::Map(vec![(slit(name), x()), (slit("zz"), ilit(1))])), bv.clone()));
            out.push((E::List(vec![fld(E::Map(vec![(slit("zz"), ilit(1)), (slit(name), x())]))]), bv.clone()));
            out.push((call("has", vec![fld(E::Map(vec![(slit(name), x())]))]), bv.clone()));
        }
    }
    // variables that stay unbound in every form, next to a substitutable one
    for v in [V::Int(1), V::Bool(true), V::Bool(false), V::s("a")] {
        let b = vec![("x".to_string(), v)];
        out.push((E::Tern(Box::new(var("w")), Box::new(x()), Box::new(ilit(2))), b.clone()));
        out.push((bin(Op::Or, x(), var("w")), b.clone()));
        out.push((bin(Op::And, x(), var("w")), b.clone()));
        out.push((E::List(vec![x(), var("w")]), b.clone()));
        out.push((call("size", vec![E::List(vec![var("w"), x()])]), b.clone()));
        out.push((method(E::List(vec![x()]), "map", vec![var("e"), E::List(vec![var("w")])]), b.clone()));
        out.push((method(E::List(vec![x()]), "map", vec![var("e"), E::Tern(Box::new(var("w")), Box::new(ilit(1)), Box::new(ilit(2)))]), b.clone()));
        out.push((call("coalesce", vec![var("w"), x()]), b.clone()));
        out.push((call("dyn", vec![E::Map(vec![(slit("k"), var("w")), (slit("j"), x())])]), b.clone()));
    }
    out
}

fn check_seed(e: &E, binds: &[(String, V)], acc: &mut Acc) -> Vec<Failure> {
    let lit = {
        let mut cur = e.clone();
        for (n, v) in binds {
            cur = substitute(&cur, n, v);
        }
        cur
    };
    let forms = vec![
        ("variables".to_string(), render_min(e)),
        ("all-literal".to_string(), render_min(&lit)),
    ];
    compare_forms(&forms, binds, e, "seedgrid", acc)
}

// ---------------------------------------------------------------------------
// clock

const CLOCK_EXPRS: &[&str] = &[
    "now()",
    "timestamp()",
    "[now()][0]",
    "now() + duration(0)",
    "timestamp() - duration(0)",
    "{'t': now()}.t",
    "true ? now() : timestamp(0)",
    "coalesce(null, now())",
    "[1].map(x, now())[0]",
    "dyn(now())",
    "timestamp(timestamp())",
    "max(timestamp(0), now())",
];

fn check_clock(src: &str, acc: &mut Acc) -> Vec<Failure> {
    acc.case("clock", src, true, "clock");
    let prog = match compile(src) {
        Res2::Ok(p) => p,
        _ => return vec![],
    };
    std::thread::sleep(std::time::Duration::from_millis(30));
    let t0 = chrono::Utc::now();
    let r = crate::run::exec_prog(&prog, &[]);
    let bc: Vec<ByteCode> = prog.bytecode().iter().cloned().collect();
    let frozen_const = bc.len() == 1 && matches!(&bc[0], ByteCode::Push(CelValue::TimeStamp(_)));
    acc.sample(src, || json!({"source": src, "bytecode": bc.iter().map(|b| format!("{:?}", b)).collect::<Vec<_>>(), "result": r.sum().show()}));
    match r {
        Res::Ok(CelValue::TimeStamp(t)) => {
            let lag_ms = (t0 - t).num_milliseconds();
            if lag_ms > 5 || frozen_const {
                vec![Failure::new(
                    "c09:clock-frozen-at-compile-time",
                    format!("{} returned an instant {} ms before execution started (compiled 30 ms earlier): the clock read was folded into the program", src, lag_ms),
                    json!({"kind": "clock", "source": src, "lag_ms": lag_ms}),
                )]
            } else {
                vec![]
            }
        }
        _ => vec![],
    }
}

fn run(opts: &Opts, acc: &mut Acc) {
    let grid = seed_grid();
    par_chunks(acc, opts.threads, &grid, |(e, b), a| {
        for f in check_seed(e, b, a) {
            a.fail(f);
        }
    });
    acc.mark_exhaustive("seedgrid", "constructs named by the statement x one operand of every type and truthiness");
    if !opts.is_dbg() {
        let clock: Vec<&str> = CLOCK_EXPRS.to_vec();
        par_chunks(acc, opts.threads, &clock, |s, a| {
            for f in check_clock(s, a) {
                a.fail(f);
            }
        });
    }
    let n = match (opts.tier, opts.is_dbg()) {
        (crate::engine::Tier::Quick, _) => 200_000,
        (_, false) => 2_000_000,
        (_, true) => 300_000,
    };
    random_genomes(acc, opts, "generated", n, 500, |gn, a| check_generated(gn, a));
}

fn replay(_opts: &Opts, d: &Value, acc: &mut Acc) {
    match d.get("kind").and_then(|k| k.as_str()).unwrap_or("") {
        "forms" => {
            let a = d.get("variable_form").and_then(|s| s.as_str()).unwrap_or("");
            let b = d.get("other_form").and_then(|s| s.as_str()).unwrap_or("");
            let mut binds = Vec::new();
            if let Some(arr) = d.get("bindings").and_then(|b| b.as_array()) {
                for kv in arr {
                    if let (Some(k), Some(v)) = (kv.get(0).and_then(|k| k.as_str()), kv.get(1).and_then(super::c03::vunjson)) {
                        binds.push((k.to_string(), v));
                    }
                }
            }
            acc.case("replay", a, true, "replay");
            let ra = eval(a, &binds).res.sum();
            let rb = eval(b, &binds).res.sum();
            if ra != rb && !ra.is_panic() && !rb.is_panic() {
                acc.fail(Failure::new(
                    d.get("sig").and_then(|s| s.as_str()).unwrap_or("c09:replay:forms-disagree"),
                    format!("{} -> {} but {} -> {}", a, ra.show(), b, rb.show()),
                    d.clone(),
                ));
            }
        }
        "clock" => {
            let src = d.get("source").and_then(|s| s.as_str()).unwrap_or("");
            for f in check_clock(src, acc) {
                acc.fail(f);
            }
        }
        k => {
            if let Some(hex) = d.get("genome_hex").and_then(|h| h.as_str()) {
                for f in check_generated(&crate::engine::unhex(hex), acc) {
                    acc.fail(f);
                }
            } else {
                acc.inconclusive.push(format!("unknown C09 replay kind {:?}", k));
            }
        }
    }
}

/// libFuzzer entry: one generated expression and its forms
pub fn fuzz_case(genome: &[u8], acc: &mut Acc) -> Vec<Failure> {
    check_generated(genome, acc)
}
