//! C17 — the reported parameter list covers every variable a program can read.

use super::Prop;
use crate::engine::{guard, random_genomes, Acc, Failure, Opts};
use crate::expr::*;
use crate::g::G;
use crate::gen::{gen_env, gen_expr, is_type_name, Cfg, Ty};
use crate::run::{compile, Res2};
use crate::val::V;
use rscel::{BindContext, CelContext, CelError, CelValue};
use serde_json::{json, Value};
use std::collections::BTreeSet;

pub static PROP: Prop = Prop {
    id: "C17",
    rule: "programs from the full-language generator with variables in every syntactic position (operands, call arguments \
           and receivers, macro ranges and bodies, f-strings, index expressions, map keys/values, match scrutinees, patterns \
           and arms, untaken ?:/||/&& branches, folded sub-expressions) plus a position grid that plants one variable in each \
           listed position. Checked: (1) harness free-variable set is a subset of Program::params(); (2) every reported name \
           is an identifier token of the source; (3) with every reported non-function/macro/type name bound, execution never \
           fails as unbound; (4) dropping the bindings of unreported names does not change the result; (5) \
           filter_from_bindings leaves exactly params() minus the names bound as variable, function or macro. \
           Non-trivial = a free variable sits inside a call argument, receiver, macro body, f-string or untaken branch; \
           distinct by source.",
    assumptions: &[
        "macro loop variables are bound inside the macro body (all/exists/exists_one/filter/map: arg 0; reduce: args 0,1 in the step)",
        "names in call position and member names are functions/fields, not variables; reporting them too is allowed (superset)",
    ],
    run,
    replay,
    both_profiles: |_| false,
};

pub const DEFAULT_FUNCS: &[&str] = &[
    "contains", "containsI", "size", "sort", "startsWith", "endsWith", "startsWithI", "endsWithI", "matches",
    "matchCaptures", "matchReplaceOnce", "matchReplace", "toLower", "toUpper", "remove", "replace", "rsplit", "split",
    "splitAt", "trim", "trimStart", "trimStartMatches", "trimEnd", "trimEndMatches", "splitWhiteSpace", "abs", "sqrt",
    "pow", "log", "lg", "ceil", "floor", "round", "min", "max", "getDate", "getDayOfMonth", "getDayOfWeek",
    "getDayOfYear", "getFullYear", "getHours", "getMilliseconds", "getMinutes", "getMonth", "getSeconds", "now", "zip",
    "uomConvert",
];
pub const DEFAULT_MACROS: &[&str] = &["has", "all", "exists", "exists_one", "filter", "map", "reduce", "coalesce"];

fn is_default_callable(n: &str) -> bool {
    DEFAULT_FUNCS.contains(&n) || DEFAULT_MACROS.contains(&n)
}

/// identifier tokens of a source text (independent scan; string literal contents skipped,
/// f-string placeholders scanned)
pub fn ident_tokens(src: &str) -> BTreeSet<String> {
    let cs: Vec<char> = src.chars().collect();
    let mut out = BTreeSet::new();
    let mut i = 0;
    while i < cs.len() {
        let c = cs[i];
        if c == '"' || c == '\'' {
            // which prefix?
            let prefix = if i > 0 && matches!(cs[i - 1], 'f' | 'r' | 'b') && (i < 2 || !(cs[i - 2].is_ascii_alphanumeric() || cs[i - 2] == '_')) {
                cs[i - 1]
            } else {
                ' '
            };
            let q = c;
            let mut j = i + 1;
            let mut body = String::new();
            while j < cs.len() && cs[j] != q {
                if cs[j] == '\\' && prefix != 'r' {
                    body.push(cs[j]);
                    j += 1;
                    if j < cs.len() {
                        body.push(cs[j]);
                    }
                } else {
                    body.push(cs[j]);
                }
                j += 1;
            }
            if prefix == 'f' {
                // scan placeholders
                let b: Vec<char> = body.chars().collect();
                let mut k = 0;
                while k < b.len() {
                    if b[k] == '{' {
                        if k + 1 < b.len() && b[k + 1] == '{' {
                            k += 2;
                            continue;
                        }
                        let mut depth = 1;
                        let mut inner = String::new();
                        k += 1;
                        while k < b.len() && depth > 0 {
                            if b[k] == '{' {
                                depth += 1;
                            } else if b[k] == '}' {
                                depth -= 1;
                                if depth == 0 {
                                    break;
                                }
                            }
                            inner.push(b[k]);
                            k += 1;
                        }
                        out.extend(ident_tokens(&inner));
                    }
                    k += 1;
                }
            }
            i = j + 1;
            continue;
        }
        if c.is_ascii_alphabetic() || c == '_' {
            let mut j = i;
            let mut w = String::new();
            while j < cs.len() && (cs[j].is_ascii_alphanumeric() || cs[j] == '_') {
                w.push(cs[j]);
                j += 1;
            }
            // string prefixes are not identifiers
            let is_prefix = (w == "f" || w == "r" || w == "b") && j < cs.len() && (cs[j] == '"' || cs[j] == '\'');
            // digits followed by letters (1u, 1e5, 0x1F) never reach here because numbers are skipped below
            if !is_prefix {
                out.insert(w);
            }
            i = j;
            continue;
        }
        if c.is_ascii_digit() {
            let mut j = i;
            while j < cs.len() && (cs[j].is_ascii_alphanumeric() || cs[j] == '.') {
                j += 1;
            }
            i = j;
            continue;
        }
        i += 1;
    }
    out
}

/// free variables together with the kind of position they were found in
fn positions(e: &E) -> BTreeSet<&'static str> {
    let mut out = BTreeSet::new();
    pos(e, "plain", &mut Vec::new(), &mut out);
    out
}

fn pos(e: &E, ctx: &'static str, bound: &mut Vec<String>, out: &mut BTreeSet<&'static str>) {
    match e {
        E::Var(n) => {
            if !bound.contains(n) {
                out.insert(ctx);
            }
        }
        E::Call(f, args) => {
            match f.as_ref() {
                E::Field(recv, name) => {
                    pos(recv, "receiver", bound, out);
                    let mac = MACROS_WITH_VAR.iter().find(|(m, _)| m == name);
                    if let Some((_, nv)) = mac {
                        let names: Vec<String> = args.iter().take(*nv).filter_map(|a| if let E::Var(v) = a { Some(v.clone()) } else { None }).collect();
                        let n0 = bound.len();
                        for (k, a) in args.iter().enumerate().skip(*nv) {
                            if !(name == "reduce" && k >= 3) {
                                bound.extend(names.iter().cloned());
                            }
                            pos(a, "macro-body", bound, out);
                            bound.truncate(n0);
                        }
                    } else {
                        for a in args {
                            pos(a, "call-arg", bound, out);
                        }
                    }
                }
                E::Var(_) => {
                    for a in args {
                        pos(a, "call-arg", bound, out);
                    }
                }
                other => {
                    pos(other, "receiver", bound, out);
                    for a in args {
                        pos(a, "call-arg", bound, out);
                    }
                }
            }
        }
        E::FStr(segs) => {
            for s in segs {
                if let FSeg::Expr(x) = s {
                    pos(x, "fstring", bound, out);
                }
            }
        }
        E::Tern(c, a, b) => {
            pos(c, ctx, bound, out);
            pos(a, "branch", bound, out);
            pos(b, "branch", bound, out);
        }
        E::Bin(Op::Or, a, b) | E::Bin(Op::And, a, b) => {
            pos(a, ctx, bound, out);
            pos(b, "branch", bound, out);
        }
        E::Index(a, i) => {
            pos(a, ctx, bound, out);
            pos(i, "index", bound, out);
        }
        E::Match(s, cases) => {
            pos(s, "match", bound, out);
            for (p, x) in cases {
                if let Pat::Cmp(_, pe) = p {
                    pos(pe, "match", bound, out);
                }
                pos(x, "branch", bound, out);
            }
        }
        E::Map(m) => {
            for (k, v) in m {
                pos(k, "map-key", bound, out);
                pos(v, "map-value", bound, out);
            }
        }
        other => {
            for c in other.children() {
                pos(c, ctx, bound, out);
            }
        }
    }
}

fn exec_with(prog: &rscel::Program, binds: &[(String, V)]) -> Result<Result<CelValue, CelError>, crate::engine::PanicInfo> {
    guard(|| {
        let mut ctx = CelContext::new();
        ctx.add_program("main", prog.clone());
        let mut b = BindContext::new();
        for (k, v) in binds {
            b.bind_param(k, v.to_cel());
        }
        ctx.exec("main", &b)
    })
}

fn summarize(r: &Result<Result<CelValue, CelError>, crate::engine::PanicInfo>) -> String {
    match r {
        Ok(Ok(v)) => crate::run::canon_cel(v),
        Ok(Err(e)) => format!("Err({})", crate::run::err_class(e)),
        Err(p) => format!("PANIC {}", p.msg),
    }
}

pub fn check_expr(e: &E, src: &str, binds: &[(String, V)], sub: &str, acc: &mut Acc) -> Vec<Failure> {
    let fvs = free_vars(e);
    let poss = positions(e);
    let nontrivial = poss.iter().any(|p| matches!(*p, "call-arg" | "receiver" | "macro-body" | "fstring" | "branch"));
    let prog = match compile(src) {
        Res2::Ok(p) => p,
        _ => {
            acc.case(sub, src, false, "does-not-compile");
            return vec![];
        }
    };
    acc.case(sub, src, nontrivial, if nontrivial { "nontrivial-position" } else { "plain-position" });
    for p in &poss {
        acc.class(&format!("pos:{}", p));
    }
    let reported: BTreeSet<String> = prog.params().iter().map(|s| s.to_string()).collect();
    acc.sample(&format!("{:?}", poss), || json!({"source": src, "free_variables": fvs, "reported": reported, "positions": poss}));
    let detail = |extra: Value| {
        json!({"kind": "source", "source": src, "free_variables": fvs, "reported": reported, "extra": extra,
               "bindings": crate::run::binds_json(binds)})
    };
    let mut out = Vec::new();
    // (1) completeness
    let missing: Vec<&String> = fvs.iter().filter(|v| !reported.contains(*v)).collect();
    if !missing.is_empty() {
        let where_ = poss.iter().cloned().collect::<Vec<_>>().join("+");
        out.push(Failure::new(
            format!("c17:missing:{}", classify_missing(e, &missing)),
            format!("{} reads {:?} but params() reports only {:?} (positions {})", src, missing, reported, where_),
            detail(json!({"missing": missing})),
        ));
    }
    // (2) soundness
    let toks = ident_tokens(src);
    let invented: Vec<&String> = reported.iter().filter(|r| !toks.contains(*r)).collect();
    if !invented.is_empty() {
        out.push(Failure::new(
            "c17:invented-name",
            format!("{} reports {:?} which do not occur in the source", src, invented),
            detail(json!({"invented": invented})),
        ));
    }
    // (3) sufficiency: bind every reported variable-like name
    let mut full: Vec<(String, V)> = binds.to_vec();
    for r in &reported {
        if !is_default_callable(r) && !is_type_name(r) && !full.iter().any(|(k, _)| k == r) {
            full.push((r.clone(), V::Int(1)));
        }
    }
    // a type name that occurs in the source is not a variable read (a type name resolves first,
    // C12): a binding of that name is unreported and must be irrelevant - see (4)
    for t in &toks {
        if is_type_name(t) && !reported.contains(t) && !full.iter().any(|(k, _)| k == t) {
            full.push((t.clone(), V::s("a variable named like a type")));
        }
    }
    let r_full = exec_with(&prog, &full);
    acc.eval_only(sub, 1);
    if let Ok(Err(CelError::Binding { symbol })) = &r_full {
        // only a violation when the unbound symbol is one the generator knows to be a variable read
        if !is_default_callable(symbol) && !is_type_name(symbol) {
            out.push(Failure::new(
                "c17:insufficient",
                format!("{}: all reported names are bound, yet execution fails: symbol not bound: {}", src, symbol),
                detail(json!({"unbound": symbol})),
            ));
        }
    }
    // (4) relevance: bindings that agree on all reported names give the same result
    let restricted: Vec<(String, V)> = full.iter().filter(|(k, _)| reported.contains(k)).cloned().collect();
    if restricted.len() != full.len() {
        let r_restr = exec_with(&prog, &restricted);
        acc.eval_only(sub, 1);
        let (a, b) = (summarize(&r_full), summarize(&r_restr));
        if a != b {
            out.push(Failure::new(
                "c17:unreported-name-changes-result",
                format!("{}: {} with all variables bound but {} when only the reported names {:?} are bound", src, a, b, reported),
                detail(json!({"all_bound": a, "reported_only": b})),
            ));
        }
    }
    // (5) filter_from_bindings
    let mut details = prog.details().clone();
    let half: Vec<&String> = reported.iter().step_by(2).collect();
    let f = |_: CelValue, _: Vec<CelValue>| CelValue::from_int(0);
    let filtered: BTreeSet<String> = {
        let mut b = BindContext::new();
        for h in &half {
            b.bind_param(h, CelValue::from_int(0));
        }
        b.bind_func("custom_fn", &f);
        details.filter_from_bindings(&b);
        details.params().iter().map(|s| s.to_string()).collect()
    };
    let expected: BTreeSet<String> = reported
        .iter()
        .filter(|r| !half.contains(r) && !is_default_callable(r) && *r != "custom_fn")
        .cloned()
        .collect();
    if filtered != expected {
        out.push(Failure::new(
            "c17:filter-mismatch",
            format!("{}: filter_from_bindings left {:?}, expected {:?}", src, filtered, expected),
            detail(json!({"filtered": filtered, "expected": expected, "bound": half})),
        ));
    }
    out
}

/// where the first missing variable sits: used in signatures so that distinct root causes
/// are distinct findings
fn classify_missing(e: &E, missing: &[&String]) -> String {
    let target = missing[0];
    let mut found: Option<&'static str> = None;
    fn go(e: &E, ctx: &'static str, t: &str, found: &mut Option<&'static str>) {
        if found.is_some() {
            return;
        }
        match e {
            E::Var(n) if n == t => *found = Some(ctx),
            E::Call(f, args) => {
                match f.as_ref() {
                    E::Field(r, name) => {
                        go(r, "call-receiver", t, found);
                        let is_macro = MACROS_WITH_VAR.iter().any(|(m, _)| m == name);
                        for a in args {
                            go(a, if is_macro { "macro-arg" } else { "method-arg" }, t, found);
                        }
                    }
                    E::Var(name) => {
                        let c = if name == "has" || name == "coalesce" { "has-coalesce-arg" } else { "call-arg" };
                        for a in args {
                            go(a, c, t, found);
                        }
                    }
                    o => {
                        go(o, "call-receiver", t, found);
                        for a in args {
                            go(a, "call-arg", t, found);
                        }
                    }
                }
            }
            E::FStr(segs) => {
                for s in segs {
                    if let FSeg::Expr(x) = s {
                        go(x, "fstring", t, found);
                    }
                }
            }
            other => {
                for c in other.children() {
                    go(c, ctx, t, found);
                }
            }
        }
    }
    go(e, "plain", target, &mut found);
    found.unwrap_or("unknown").to_string()
}

fn check_generated(genome: &[u8], acc: &mut Acc) -> Vec<Failure> {
    let mut g = G::new(genome);
    let mut cfg = Cfg::full();
    cfg.big_numbers = false;
    cfg.unbound = false;
    cfg.map_iter = false; // results are compared across bindings: keep them deterministic
    let env = gen_env(&mut g, &cfg);
    let ty = *g.pick(&[Ty::Any, Ty::Bool, Ty::Int, Ty::Str, Ty::List]);
    let e = gen_expr(&mut g, &cfg, &env, ty);
    let src = render(&e, Parens::Minimal, Space::Single, &mut g);
    check_expr(&e, &src, &env.bindings(), "generated", acc)
}

/// one variable `v` planted in each syntactic position the statement lists
fn position_grid() -> Vec<(&'static str, E)> {
    let v = || var("v");
    let t = || E::Lit(V::Bool(true));
    let f = || E::Lit(V::Bool(false));
    vec![
        ("operand", bin(Op::Add, v(), ilit(1))),
        ("operand-rhs", bin(Op::Mul, ilit(2), v())),
        ("unary", E::Neg(1, Box::new(v()))),
        ("not", E::Not(1, Box::new(v()))),
        ("call-arg", call("size", vec![v()])),
        ("call-arg-2", call("min", vec![ilit(1), v()])),
        ("ctor-arg", call("int", vec![v()])),
        ("receiver", method(v(), "size", vec![])),
        ("method-arg", method(slit("abc"), "contains", vec![v()])),
        ("chain", E::Index(Box::new(method(var("w"), "f", vec![v()])), Box::new(var("k")))),
        ("macro-range", method(v(), "map", vec![var("x"), var("x")])),
        ("macro-body", method(E::List(vec![ilit(1)]), "map", vec![var("x"), bin(Op::Add, var("x"), v())])),
        ("macro-pred", method(E::List(vec![ilit(1)]), "all", vec![var("x"), bin(Op::Lt, var("x"), v())])),
        ("macro-3", method(E::List(vec![ilit(1)]), "map", vec![var("x"), t(), v()])),
        ("reduce-step", method(E::List(vec![ilit(1)]), "reduce", vec![var("a"), var("x"), bin(Op::Add, var("a"), v()), ilit(0)])),
        ("reduce-seed", method(E::List(vec![ilit(1)]), "reduce", vec![var("a"), var("x"), var("a"), v()])),
        ("nested-macro", method(E::List(vec![ilit(1)]), "map", vec![var("x"), method(E::List(vec![ilit(2)]), "map", vec![var("x"), bin(Op::Add, var("x"), v())])])),
        // the loop variable's name also read outside the loop scope of the same call
        ("macro-range-same-name", method(v(), "map", vec![v(), bin(Op::Add, v(), ilit(1))])),
        ("macro-range-expr-same-name", method(E::List(vec![v(), bin(Op::Add, v(), ilit(1))]), "exists", vec![v(), bin(Op::Gt, v(), var("k"))])),
        ("filter-range-same-name", method(v(), "filter", vec![v(), t()])),
        ("reduce-seed-same-name", method(E::List(vec![ilit(1), ilit(2)]), "reduce", vec![var("a"), v(), bin(Op::Add, var("a"), v()), v()])),
        ("reduce-seed-acc-name", method(E::List(vec![ilit(1), ilit(2)]), "reduce", vec![v(), var("x"), bin(Op::Add, v(), var("x")), v()])),
        ("nested-range-same-name", method(v(), "map", vec![v(), method(v(), "map", vec![v(), v()])])),
        ("loop-var-only", method(E::List(vec![ilit(1)]), "map", vec![v(), v()])),
        ("has", call("has", vec![E::Field(Box::new(v()), "a".into())])),
        ("coalesce", call("coalesce", vec![E::Lit(V::Null), v()])),
        ("fstring", E::FStr(vec![FSeg::Lit("a".into()), FSeg::Expr(v())])),
        ("fstring-expr", E::FStr(vec![FSeg::Expr(bin(Op::Add, v(), ilit(1)))])),
        ("index-expr", E::Index(Box::new(E::List(vec![ilit(1), ilit(2)])), Box::new(v()))),
        ("indexed", E::Index(Box::new(v()), Box::new(ilit(0)))),
        ("field", E::Field(Box::new(v()), "a".into())),
        ("list-elem", E::List(vec![ilit(1), v()])),
        ("map-key", E::Map(vec![(v(), ilit(1))])),
        ("map-value", E::Map(vec![(slit("k"), v())])),
        ("match-scrutinee", E::Match(Box::new(v()), vec![(Pat::Any, ilit(1))])),
        ("match-pattern", E::Match(Box::new(ilit(1)), vec![(Pat::Cmp(Some(Op::Lt), v()), ilit(1))])),
        ("match-pattern-eq", E::Match(Box::new(ilit(1)), vec![(Pat::Cmp(None, bin(Op::Add, v(), ilit(0))), ilit(1))])),
        ("match-arm", E::Match(Box::new(ilit(1)), vec![(Pat::Any, v())])),
        ("match-type-pattern", E::Match(Box::new(v()), vec![(Pat::Type("int".into()), slit("an int")), (Pat::Type("string".into()), slit("a string")), (Pat::Any, slit("other"))])),
        ("match-type-pattern-in-macro", method(E::List(vec![v(), ilit(2)]), "map", vec![var("x"), E::Match(Box::new(var("x")), vec![(Pat::Type("int".into()), ilit(1)), (Pat::Type("bool".into()), ilit(2)), (Pat::Any, ilit(0))])])),
        ("type-value", bin(Op::Eq, call("type", vec![v()]), var("int"))),
        ("match-arm-untaken", E::Match(Box::new(ilit(1)), vec![(Pat::Cmp(None, ilit(2)), v()), (Pat::Any, ilit(0))])),
        ("ternary-cond", E::Tern(Box::new(v()), Box::new(ilit(1)), Box::new(ilit(2)))),
        ("ternary-untaken-else", E::Tern(Box::new(t()), Box::new(ilit(1)), Box::new(v()))),
        ("ternary-untaken-then", E::Tern(Box::new(f()), Box::new(v()), Box::new(ilit(2)))),
        ("or-untaken", bin(Op::Or, t(), v())),
        ("and-untaken", bin(Op::And, f(), v())),
        ("folded-neighbour", bin(Op::Add, bin(Op::Mul, ilit(2), ilit(3)), v())),
        ("paren", bin(Op::Mul, bin(Op::Add, v(), ilit(1)), ilit(2))),
        ("call-in-arg", call("size", vec![call("string", vec![v()])])),
        ("arg-of-method-on-call", method(call("string", vec![var("w")]), "contains", vec![v()])),
    ]
}

fn run(opts: &Opts, acc: &mut Acc) {
    for (label, e) in position_grid() {
        let src = render_min(&e);
        let fs = check_expr(&e, &src, &[], "grid", acc);
        acc.class(&format!("grid:{}", label));
        for f in fs {
            acc.fail(f);
        }
    }
    acc.mark_exhaustive("grid", "one variable planted in each syntactic position listed by the property");
    let n = opts.tier.pick(400_000, 4_000_000);
    random_genomes(acc, opts, "generated", n, 400, |gn, a| check_generated(gn, a));
}

fn replay(_opts: &Opts, d: &Value, acc: &mut Acc) {
    // replays re-derive the expression from the source through the position grid or, for
    // generated cases, from the genome
    if let Some(hex) = d.get("genome_hex").and_then(|h| h.as_str()) {
        let gn = crate::engine::unhex(hex);
        for f in check_generated(&gn, acc) {
            acc.fail(f);
        }
        return;
    }
    let src = d.get("source").and_then(|s| s.as_str()).unwrap_or("");
    for (_, e) in position_grid() {
        if render_min(&e) == src {
            for f in check_expr(&e, src, &[], "replay", acc) {
                acc.fail(f);
            }
            return;
        }
    }
    acc.inconclusive.push("C17 replay: source not found in the position grid and no genome given".into());
}

/// libFuzzer entry: one generated program
pub fn fuzz_case(genome: &[u8], acc: &mut Acc) -> Vec<Failure> {
    check_generated(genome, acc)
}
