//! C13 — literals denote exactly the value they spell; out-of-range ones are rejected.
//!
//! Round-trip oracle: the harness generates a VALUE, renders it as a literal in one of the
//! supported spellings (the renderer is written here, independently of rscel's tokenizer),
//! evaluates the rendering and requires exactly the generated value. A second family of
//! generators produces literals the statement says must be rejected (out-of-range integers,
//! invalid code points, truncated escapes, unterminated literals): those must be
//! `CelError::Syntax` at compile time.

use super::c03::{vjson, vunjson};
use super::Prop;
use crate::engine::{hash64, par_chunks, random_genomes, Acc, Failure, Opts, Tier};
use crate::g::G;
use crate::run::{eval, Res, RunOut, Stage, Sum};
use crate::val::*;
use rscel::CelError;
use serde_json::{json, Value};

pub static PROP: Prop = Prop {
    id: "C13",
    rule: "round trip: a generated value (int64/uint64 boundary pools + random 64-bit patterns; finite doubles from the pool \
           and from random bit patterns; strings over arbitrary Unicode scalar values; byte strings 0..255; true/false/null) \
           is rendered as a literal and evaluated; the result must be exactly that value (canonical text, doubles bit-exact). \
           Spellings: int/uint decimal and hex (0x/0X, digit case lower/upper/mixed, u/U suffix, negative = unary minus on the \
           magnitude); doubles as shortest round-trip, d.ddde[+-]x with e/E, decimal point shifted with the exponent adjusted, \
           leading zeros in the fraction, trailing zeros, leading '.', trailing '.', exponent-free decimal expansion, and \
           17..800 significant digits; strings with an escape form chosen per character (raw, \\xHH, \\XHH, \\uHHHH, \\UHHHHHHHH, \
           3-digit octal, named) in both quote styles, r'..' and f'..' (braces doubled); bytes with \\xHH, \\XHH, octal, named, \
           raw ASCII and raw non-ASCII (UTF-8). Exhaustive grids: every byte 0..255 in every byte-escape form, every code point \
           0..255 in every string escape form, every named escape, the code point class boundaries in every applicable form, a \
           \\u sweep over the BMP (strided in the quick tier, all surrogates included), the int/uint/double pools in every spelling. \
           Rejections (must be CelError::Syntax from compilation): unsuffixed integers in (i64::MAX, u64::MAX], integers above \
           u64::MAX with and without suffix, \\u/\\U naming surrogates or values above 10FFFF, truncated \\x \\u \\U and octal \
           escapes, bytes octal above 377, unterminated literals. Random: proptest genomes choose value, spelling and escapes. \
           Non-trivial = the literal uses a non-default spelling (hex, exponent or any float form other than the shortest one, \
           any escape, r/f prefix), or spells a pool boundary value, or belongs to the rejection set; distinct by source text.",
    assumptions: &[
        "Rust's float formatting ({:?}, {:e}, {:.Ne}, {}) is correctly rounded / shortest round-trip, so every rendered decimal lies inside the rounding interval of the generated double and any correctly rounding reader returns it",
        "the spelling -9223372036854775808 may evaluate to i64::MIN or fail (left open by the statement)",
        "a backslash followed by 8 or 9 is a malformed octal escape (the tokenizer routes every digit to the octal arm), hence rejected; \
         only non-digit unknown escapes are left open",
        "unknown escapes ('\\q'), octal 400-777 in strings and a raw string ending in a backslash are unspecified: only 'no panic' is checked",
        "a raw (unescaped) newline or carriage return inside a quoted literal may be accepted (then with exactly that character) or rejected with a syntax error",
        "error messages are not compared, only the error variant and the stage (compile) at which it is raised",
    ],
    run,
    replay,
    both_profiles: super::thorough_both,
};

// ---------------------------------------------------------------------------
// Expectation and judge

#[derive(Clone, Debug)]
pub enum Exp {
    /// exactly this value
    Val(V),
    /// CelError::Syntax raised by compilation
    Syntax,
    /// this value, or any error (the one spelling the statement leaves open)
    ValOrErr(V),
    /// this value, or a syntax error from compilation
    ValOrSyntax(V),
    /// nothing is asserted beyond "no panic"
    Unspecified,
}

impl Exp {
    fn show(&self) -> String {
        match self {
            Exp::Val(v) => v.canon(),
            Exp::Syntax => "a syntax error from compilation".to_string(),
            Exp::ValOrErr(v) => format!("{} or an error", v.canon()),
            Exp::ValOrSyntax(v) => format!("{} or a syntax error", v.canon()),
            Exp::Unspecified => "unspecified".to_string(),
        }
    }
    fn to_json(&self) -> Value {
        match self {
            Exp::Val(v) => json!({"mode": "val", "value": vjson(v)}),
            Exp::Syntax => json!({"mode": "syntax"}),
            Exp::ValOrErr(v) => json!({"mode": "val-or-err", "value": vjson(v)}),
            Exp::ValOrSyntax(v) => json!({"mode": "val-or-syntax", "value": vjson(v)}),
            Exp::Unspecified => json!({"mode": "unspecified"}),
        }
    }
    fn from_json(j: &Value) -> Option<Exp> {
        let mode = j.get("mode")?.as_str()?;
        let val = || j.get("value").and_then(vunjson);
        Some(match mode {
            "val" => Exp::Val(val()?),
            "syntax" => Exp::Syntax,
            "val-or-err" => Exp::ValOrErr(val()?),
            "val-or-syntax" => Exp::ValOrSyntax(val()?),
            "unspecified" => Exp::Unspecified,
            _ => return None,
        })
    }
}

#[derive(Clone, Debug)]
pub struct Case {
    pub src: String,
    pub exp: Exp,
    /// spelling class: histogram label and the input-class part of the signature
    pub class: String,
    pub nontrivial: bool,
    /// further histogram labels (escape forms used, sign, ...)
    pub tags: Vec<&'static str>,
}

fn is_syntax_at_compile(out: &RunOut) -> bool {
    out.stage == Stage::Compile && matches!(&out.res, Res::Err(CelError::Syntax(_)))
}

/// None = as expected; Some(mode) = failure mode for the signature.
fn judge(exp: &Exp, out: &RunOut, sum: &Sum) -> Option<String> {
    if let Sum::Panic(p) = sum {
        return Some(format!("panic-{}", p.split('@').next().unwrap_or("other")));
    }
    let is_val = |v: &V| matches!(sum, Sum::Val(s) if *s == v.canon());
    let is_err = matches!(sum, Sum::Err(_));
    match exp {
        Exp::Unspecified => None,
        Exp::Val(v) => {
            if is_val(v) {
                None
            } else if is_err {
                Some("error-instead-of-value".to_string())
            } else {
                Some("wrong-value".to_string())
            }
        }
        Exp::Syntax => {
            if is_syntax_at_compile(out) {
                None
            } else if is_err {
                Some("wrong-error-class".to_string())
            } else {
                Some("value-instead-of-syntax-error".to_string())
            }
        }
        Exp::ValOrErr(v) => {
            if is_val(v) || is_err {
                None
            } else {
                Some("wrong-value".to_string())
            }
        }
        Exp::ValOrSyntax(v) => {
            if is_val(v) || is_syntax_at_compile(out) {
                None
            } else if is_err {
                Some("wrong-error-class".to_string())
            } else {
                Some("wrong-value".to_string())
            }
        }
    }
}

fn actual_show(out: &RunOut, sum: &Sum) -> String {
    match (&out.res, out.stage) {
        (Res::Err(_), Stage::Compile) => format!("{} (compile)", sum.show()),
        (Res::Err(_), Stage::Exec) => format!("{} (exec)", sum.show()),
        _ => sum.show(),
    }
}

/// Evaluate one case. A case is written to the evidence samples when the hash of its source
/// is divisible by `sample_mod` (content-based, so the choice is deterministic and spread
/// over all sub-runs instead of being used up by the first grid).
pub fn check(c: &Case, sub: &str, sample_mod: u64, acc: &mut Acc) -> Vec<Failure> {
    acc.case(sub, &c.src, c.nontrivial, &c.class);
    for t in &c.tags {
        acc.class(t);
    }
    if let Exp::Unspecified = c.exp {
        acc.skip("unspecified by the statement (unknown escape, string octal above 377, raw string ending in a backslash): only totality is checked");
    }
    let out = eval(&c.src, &[]);
    let sum = out.res.sum();
    if sample_mod > 0 && hash64(&c.src) % sample_mod == 0 {
        acc.sample(&c.src, || {
            json!({"sub": sub, "class": c.class, "source": c.src, "expected": c.exp.show(),
                   "actual": actual_show(&out, &sum), "nontrivial": c.nontrivial})
        });
    }
    match judge(&c.exp, &out, &sum) {
        None => vec![],
        Some(mode) => vec![Failure::new(
            format!("c13:{}:{}", c.class, mode),
            format!("{:?}: expected {}, got {}", c.src, c.exp.show(), actual_show(&out, &sum)),
            json!({"kind": "lit", "source": c.src, "class": c.class, "expect": c.exp.to_json(),
                   "expected": c.exp.show(), "actual": actual_show(&out, &sum)}),
        )],
    }
}

// ---------------------------------------------------------------------------
// Integers

/// How a number's digits are written.
#[derive(Clone, Copy, Debug)]
pub struct NumSp {
    pub hex: bool,
    pub big_x: bool,
    /// 0 lower, 1 upper, 2 mixed (per digit from `bits`)
    pub case_mode: u8,
    pub bits: u64,
}

const DEC: NumSp = NumSp { hex: false, big_x: false, case_mode: 0, bits: 0 };

fn case_map(s: &str, mode: u8, bits: u64) -> String {
    s.chars()
        .enumerate()
        .map(|(i, c)| match mode {
            0 => c,
            1 => c.to_ascii_uppercase(),
            _ => {
                if (bits >> (i % 64)) & 1 == 1 {
                    c.to_ascii_uppercase()
                } else {
                    c
                }
            }
        })
        .collect()
}

fn num_text(mag: u128, sp: &NumSp) -> String {
    if sp.hex {
        format!(
            "0{}{}",
            if sp.big_x { 'X' } else { 'x' },
            case_map(&format!("{:x}", mag), sp.case_mode, sp.bits)
        )
    } else {
        format!("{}", mag)
    }
}

fn num_class(kind: &str, text: &str, sp: &NumSp) -> String {
    if !sp.hex {
        format!("{}-dec", kind)
    } else if text[2..].chars().any(|c| c.is_ascii_alphabetic()) {
        format!("{}-hex-alpha", kind)
    } else {
        format!("{}-hex-09", kind)
    }
}

pub fn int_case(v: i64, sp: &NumSp, pooled: bool) -> Case {
    let mag = (v as i128).unsigned_abs();
    let body = num_text(mag, sp);
    let mut class = num_class("int", &body, sp);
    let mut tags = Vec::new();
    let src = if v < 0 {
        tags.push("sign:minus");
        format!("-{}", body)
    } else {
        body
    };
    let exp = if v == i64::MIN {
        // the literal 9223372036854775808 under unary minus: left open by the statement
        class = format!("int-min-{}", if sp.hex { "hex" } else { "dec" });
        Exp::ValOrErr(V::Int(v))
    } else {
        Exp::Val(V::Int(v))
    };
    Case { src, exp, class, nontrivial: sp.hex || pooled, tags }
}

pub fn uint_case(v: u64, sp: &NumSp, big_u: bool, pooled: bool) -> Case {
    let body = num_text(v as u128, sp);
    let class = num_class("uint", &body, sp);
    let src = format!("{}{}", body, if big_u { 'U' } else { 'u' });
    Case {
        src,
        exp: Exp::Val(V::UInt(v)),
        class,
        nontrivial: sp.hex || big_u || pooled,
        tags: vec![if big_u { "suffix:U" } else { "suffix:u" }],
    }
}

/// An integer literal whose spelled value `mag` lies outside the range of its type.
/// `suffix`: None = int literal, Some('u'|'U') = uint literal.
pub fn int_reject_case(mag: u128, sp: &NumSp, suffix: Option<char>, minus: bool) -> Case {
    let body = num_text(mag, sp);
    let mut src = String::new();
    if minus {
        src.push('-');
    }
    src.push_str(&body);
    if let Some(s) = suffix {
        src.push(s);
    }
    let radix = if sp.hex { "hex" } else { "dec" };
    if mag == (1u128 << 63) && minus && suffix.is_none() {
        return int_case(i64::MIN, sp, true);
    }
    let in_range = match suffix {
        None => mag <= i64::MAX as u128,
        Some(_) => mag <= u64::MAX as u128,
    };
    if in_range {
        // callers only pass out-of-range magnitudes; stay sound if one does not
        return Case { src, exp: Exp::Unspecified, class: "int-reject-inrange".into(), nontrivial: false, tags: vec![] };
    }
    let class = if mag > u64::MAX as u128 {
        format!("{}-above-u64-{}", if suffix.is_some() { "uint" } else { "int" }, radix)
    } else {
        format!("int-above-i64-{}", radix)
    };
    Case { src, exp: Exp::Syntax, class, nontrivial: true, tags: vec![if minus { "sign:minus" } else { "sign:none" }] }
}

fn num_spellings() -> Vec<NumSp> {
    let mut v = vec![DEC];
    for big_x in [false, true] {
        for (case_mode, bits) in [(0u8, 0u64), (1, 0), (2, 0x5555_5555_5555_5555), (2, 0xaaaa_aaaa_aaaa_aaaa)] {
            v.push(NumSp { hex: true, big_x, case_mode, bits });
        }
    }
    v
}

fn gen_numsp(g: &mut G) -> NumSp {
    match g.below(4) {
        0 => DEC,
        1 => NumSp { hex: true, big_x: g.flag(), case_mode: 0, bits: 0 },
        2 => NumSp { hex: true, big_x: g.flag(), case_mode: 1, bits: 0 },
        _ => NumSp { hex: true, big_x: g.flag(), case_mode: 2, bits: g.u32() as u64 | ((g.u32() as u64) << 32) },
    }
}

// ---------------------------------------------------------------------------
// Doubles

/// Decimal digits and exponent: value = digits (as an integer) * 10^k.
struct Dec {
    digits: String,
    k: i64,
}

fn dec_of(sci: &str) -> Option<Dec> {
    // "d.ddde-x" | "de5"
    let (mant, exp) = sci.split_once('e')?;
    let exp: i64 = exp.parse().ok()?;
    let digits: String = mant.chars().filter(|c| *c != '.').collect();
    if digits.is_empty() || !digits.chars().all(|c| c.is_ascii_digit()) {
        return None;
    }
    if digits.chars().all(|c| c == '0') {
        return Some(Dec { digits: "0".to_string(), k: 0 });
    }
    let k = exp - (digits.len() as i64 - 1);
    Some(Dec { digits, k })
}

/// How a non-negative finite double is written.
#[derive(Clone, Debug)]
pub struct FSp {
    /// 0 shortest `{:?}`; 1 decimal digits of the shortest form; 2 `prec`+1 significant digits; 3 exponent-free `{}`
    pub base: u8,
    pub prec: usize,
    /// digits before the point (clamped to 0..=n)
    pub p: usize,
    /// when no digit precedes the point: write "0." (true) or a bare "." (false)
    pub lead_zero: bool,
    /// zeros between the point and the digits (only when no digit precedes the point)
    pub frac_lead_zeros: usize,
    pub trail_zeros: usize,
    /// when no digit follows the point: 0 write ".0", 1 write no point at all, 2 write a bare trailing "."
    /// (2 only without an exponent: USAGE.md documents `1.`)
    pub frac_empty_mode: u8,
    pub big_e: bool,
    pub plus: bool,
    pub omit_zero_exp: bool,
    /// for base 3: 0 as is, 1 leading '.', 2 trailing '.', 3 trailing zeros
    pub plain_variant: u8,
}

impl FSp {
    pub fn shortest() -> FSp {
        FSp {
            base: 0,
            prec: 16,
            p: 1,
            lead_zero: true,
            frac_lead_zeros: 0,
            trail_zeros: 0,
            frac_empty_mode: 0,
            big_e: false,
            plus: false,
            omit_zero_exp: false,
            plain_variant: 0,
        }
    }
}

/// Text of `m` (finite, sign bit clear) in spelling `sp`, and its class. None = not renderable.
fn float_text(m: f64, sp: &FSp) -> Option<(String, &'static str)> {
    match sp.base {
        0 => {
            let s = format!("{:?}", m);
            let s = if s.contains('.') || s.contains('e') { s } else { format!("{}.0", s) };
            Some((s, "float-shortest"))
        }
        3 => {
            let s = format!("{}", m);
            let has_dot = s.contains('.');
            let plain = if has_dot { s.clone() } else { format!("{}.0", s) };
            Some(match sp.plain_variant {
                1 if s.starts_with("0.") => (s[1..].to_string(), "float-leading-dot"),
                2 if !has_dot => (format!("{}.", s), "float-trailing-dot"),
                3 => (format!("{}{}", plain, "0".repeat(sp.trail_zeros.max(1))), "float-trailing-zeros"),
                _ => (plain, "float-plain"),
            })
        }
        b => {
            let sci = if b == 1 { format!("{:e}", m) } else { format!("{:.*e}", sp.prec, m) };
            let d = dec_of(&sci)?;
            let n = d.digits.len();
            let p = sp.p.min(n);
            let int_part = &d.digits[..p];
            let mut frac = String::new();
            let mut e = d.k + (n - p) as i64;
            if p == 0 {
                frac.push_str(&"0".repeat(sp.frac_lead_zeros));
                e += sp.frac_lead_zeros as i64;
            }
            frac.push_str(&d.digits[p..]);
            if !frac.is_empty() {
                frac.push_str(&"0".repeat(sp.trail_zeros));
            }
            let mut class = if b == 2 {
                "float-long"
            } else if sp.trail_zeros > 0 && !frac.is_empty() {
                "float-trailing-zeros"
            } else if p == 1 {
                "float-sci"
            } else {
                "float-shifted"
            };
            let mut out = String::new();
            let mut force_exp = false;
            if p == 0 {
                if sp.lead_zero {
                    out.push('0');
                } else {
                    class = "float-leading-dot";
                }
            } else {
                out.push_str(int_part);
            }
            if frac.is_empty() {
                match sp.frac_empty_mode {
                    1 => force_exp = true,
                    2 if e == 0 && sp.omit_zero_exp => {
                        out.push('.');
                        class = "float-trailing-dot";
                    }
                    _ => out.push_str(".0"),
                }
            } else {
                out.push('.');
                out.push_str(&frac);
            }
            if !(e == 0 && sp.omit_zero_exp && !force_exp) {
                out.push(if sp.big_e { 'E' } else { 'e' });
                if e < 0 {
                    out.push('-');
                } else if sp.plus {
                    out.push('+');
                }
                out.push_str(&e.unsigned_abs().to_string());
            }
            Some((out, class))
        }
    }
}

pub fn float_case(f: f64, sp: &FSp, pooled: bool) -> Option<Case> {
    if !f.is_finite() {
        return None;
    }
    let m = f.abs();
    let (text, class) = float_text(m, sp)?;
    // renderer self-check (guards the harness, not rscel): the text must denote m
    match text.parse::<f64>() {
        Ok(back) if back.to_bits() == m.to_bits() => {}
        _ => return None,
    }
    // the default spelling is the shortest round-trip form, whichever family produced it
    let default = float_text(m, &FSp::shortest()).map(|(t, _)| t == text).unwrap_or(false);
    let class = if default { "float-shortest" } else { class };
    let mut tags = Vec::new();
    let src = if f.is_sign_negative() {
        tags.push("sign:minus");
        format!("-{}", text)
    } else {
        text
    };
    Some(Case {
        src,
        exp: Exp::Val(V::F(f)),
        class: class.to_string(),
        nontrivial: !default || pooled,
        tags,
    })
}

fn gen_fsp(g: &mut G) -> FSp {
    let base = match g.below(8) {
        0 => 0,
        1 | 2 | 3 | 4 => 1,
        5 => 2,
        _ => 3,
    };
    FSp {
        base,
        prec: *g.pick(&[16usize, 17, 19, 24, 40, 120, 800]),
        p: g.below(20),
        lead_zero: !g.chance(96),
        frac_lead_zeros: if g.chance(64) { 1 + g.below(5) } else { 0 },
        trail_zeros: if g.chance(64) { 1 + g.below(4) } else { 0 },
        frac_empty_mode: g.below(3) as u8,
        big_e: g.flag(),
        plus: g.flag(),
        omit_zero_exp: g.flag(),
        plain_variant: g.below(4) as u8,
    }
}

/// Deterministic spelling list for the pool grid.
fn float_spellings() -> Vec<FSp> {
    let s = FSp::shortest();
    let mut v = vec![s.clone()];
    // d.ddde[+]x with e / E
    for big_e in [false, true] {
        for plus in [false, true] {
            v.push(FSp { base: 1, big_e, plus, ..s.clone() });
        }
    }
    // every point position, exponent always written / omitted when zero, each way to write "no fraction"
    for p in 0..=18 {
        for omit_zero_exp in [false, true] {
            for frac_empty_mode in 0..3u8 {
                v.push(FSp { base: 1, p, omit_zero_exp, frac_empty_mode, ..s.clone() });
            }
        }
    }
    // bare leading '.', zeros after the point, trailing zeros
    for z in [0usize, 1, 3] {
        for lead_zero in [false, true] {
            v.push(FSp { base: 1, p: 0, lead_zero, frac_lead_zeros: z, omit_zero_exp: true, ..s.clone() });
        }
    }
    for tz in [1usize, 3] {
        v.push(FSp { base: 1, p: 1, trail_zeros: tz, omit_zero_exp: true, ..s.clone() });
        v.push(FSp { base: 1, p: 2, trail_zeros: tz, big_e: true, plus: true, ..s.clone() });
    }
    for prec in [16usize, 17, 19, 24, 40, 120, 800] {
        v.push(FSp { base: 2, prec, p: 1, ..s.clone() });
        v.push(FSp { base: 2, prec, p: 5, big_e: true, plus: true, ..s.clone() });
    }
    for plain_variant in 0..4u8 {
        v.push(FSp { base: 3, plain_variant, trail_zeros: 2, ..s.clone() });
    }
    v
}

// ---------------------------------------------------------------------------
// Strings and bytes

#[derive(Clone, Copy, Debug, PartialEq, Eq)]
pub enum Esc {
    Raw,
    Named,
    X,
    BigX,
    Oct,
    U4,
    U8,
    /// `{{` / `}}` in an f-string
    Doubled,
}

impl Esc {
    fn tag(self) -> &'static str {
        match self {
            Esc::Raw => "esc:raw",
            Esc::Named => "esc:named",
            Esc::X => "esc:x",
            Esc::BigX => "esc:X",
            Esc::Oct => "esc:octal",
            Esc::U4 => "esc:u",
            Esc::U8 => "esc:U",
            Esc::Doubled => "esc:doubled-brace",
        }
    }
    fn name(self) -> &'static str {
        &self.tag()[4..]
    }
}

pub const NAMED: &[(u32, char)] = &[
    (0x07, 'a'),
    (0x08, 'b'),
    (0x0c, 'f'),
    (0x0a, 'n'),
    (0x0d, 'r'),
    (0x09, 't'),
    (0x0b, 'v'),
    (0x5c, '\\'),
    (0x27, '\''),
    (0x22, '"'),
];

fn named_of(cp: u32) -> Option<char> {
    NAMED.iter().find(|(c, _)| *c == cp).map(|(_, n)| *n)
}

fn hexw(v: u32, width: usize, mode: u8, bits: u64) -> String {
    case_map(&format!("{:0width$x}", v, width = width), mode, bits)
}

/// Text of one code point / byte in an escape form (the caller guarantees applicability).
fn esc_text(cp: u32, form: Esc, mode: u8, bits: u64) -> String {
    match form {
        Esc::Raw => char::from_u32(cp).map(|c| c.to_string()).unwrap_or_default(),
        Esc::Named => format!("\\{}", named_of(cp).unwrap_or('\\')),
        Esc::X => format!("\\x{}", hexw(cp, 2, mode, bits)),
        Esc::BigX => format!("\\X{}", hexw(cp, 2, mode, bits)),
        Esc::Oct => format!("\\{:03o}", cp),
        Esc::U4 => format!("\\u{}", hexw(cp, 4, mode, bits)),
        Esc::U8 => format!("\\U{}", hexw(cp, 8, mode, bits)),
        Esc::Doubled => {
            let c = char::from_u32(cp).unwrap_or('{');
            format!("{}{}", c, c)
        }
    }
}

/// Escape forms that spell `c` inside a string literal delimited by `q` (simplest first).
pub fn str_forms(c: char, q: char, fmt: bool) -> Vec<Esc> {
    if fmt && (c == '{' || c == '}') {
        // inside f'..' a brace is only ever written doubled (an escaped brace is not specified)
        return vec![Esc::Doubled];
    }
    let cp = c as u32;
    let mut v = Vec::new();
    if c != q && c != '\\' {
        v.push(Esc::Raw);
    }
    if named_of(cp).is_some() {
        v.push(Esc::Named);
    }
    if cp <= 0xff {
        v.extend([Esc::X, Esc::BigX, Esc::Oct]);
    }
    if cp <= 0xffff {
        v.push(Esc::U4);
    }
    v.push(Esc::U8);
    v
}

/// Escape forms that spell byte `b` inside a bytes literal delimited by `q`.
pub fn byte_forms(b: u8, q: char) -> Vec<Esc> {
    let mut v = Vec::new();
    if b < 0x80 && b as char != q && b != b'\\' {
        v.push(Esc::Raw);
    }
    if named_of(b as u32).is_some() {
        v.push(Esc::Named);
    }
    v.extend([Esc::X, Esc::BigX, Esc::Oct]);
    v
}

/// One element of a literal: what it contributes and how it is written.
#[derive(Clone, Debug)]
pub struct Unit {
    pub cp: u32,
    pub form: Esc,
    pub mode: u8,
    pub bits: u64,
}

fn finish_text_case(
    kind: &str,
    prefix: &str,
    q: char,
    units: &[Unit],
    value: V,
    pooled: bool,
    force_class: Option<String>,
) -> Case {
    let mut src = String::from(prefix);
    src.push(q);
    let mut tags: Vec<&'static str> = Vec::new();
    let mut raw_newline = false;
    let mut escaped = false;
    for u in units {
        src.push_str(&esc_text(u.cp, u.form, u.mode, u.bits));
        if !tags.contains(&u.form.tag()) {
            tags.push(u.form.tag());
        }
        if u.form == Esc::Raw && (u.cp == 0x0a || u.cp == 0x0d) {
            raw_newline = true;
        }
        if u.form != Esc::Raw {
            escaped = true;
        }
    }
    src.push(q);
    tags.push(if q == '\'' { "quote:single" } else { "quote:double" });
    let raw_trailing_backslash = prefix == "r" && units.last().map(|u| u.cp == 0x5c).unwrap_or(false);
    let exp = if raw_trailing_backslash {
        Exp::Unspecified
    } else if raw_newline {
        tags.push("raw-newline");
        Exp::ValOrSyntax(value)
    } else {
        Exp::Val(value)
    };
    let class = force_class.unwrap_or_else(|| match prefix {
        "r" => format!("{}-rawprefix", kind),
        "f" => format!("{}-fprefix", kind),
        _ => {
            if escaped {
                format!("{}-escaped", kind)
            } else {
                format!("{}-plain", kind)
            }
        }
    });
    let nontrivial = escaped || prefix == "r" || prefix == "f" || pooled;
    Case { src, exp, class, nontrivial, tags }
}

/// A string literal: `prefix` in {"", "r", "f"}; `units` spell the characters in order.
pub fn str_case(prefix: &str, q: char, units: &[Unit], pooled: bool, force_class: Option<String>) -> Case {
    let s: String = units.iter().filter_map(|u| char::from_u32(u.cp)).collect();
    finish_text_case("str", prefix, q, units, V::Str(s), pooled, force_class)
}

/// A bytes literal: a unit with cp < 0x100 and a non-Raw form is one byte; a Raw unit
/// contributes the UTF-8 encoding of its character.
pub fn bytes_case(q: char, units: &[Unit], pooled: bool, force_class: Option<String>) -> Case {
    let mut bytes = Vec::new();
    for u in units {
        if u.form == Esc::Raw {
            if let Some(c) = char::from_u32(u.cp) {
                let mut b = [0u8; 4];
                bytes.extend_from_slice(c.encode_utf8(&mut b).as_bytes());
            }
        } else {
            bytes.push((u.cp & 0xff) as u8);
        }
    }
    finish_text_case("bytes", "b", q, units, V::Bytes(bytes), pooled, force_class)
}

pub const CP_BOUNDARIES: &[u32] = &[
    0, 0x7f, 0x80, 0xff, 0x100, 0x7ff, 0x800, 0xd7ff, 0xe000, 0xffff, 0x10000, 0x10ffff,
];

const ASCII_PICKS: &[char] = &[
    'a', 'f', '0', '7', '9', 'A', 'F', ' ', 'z', 'e', 'x', 'u', 'U', 'n', '1', 'b', 'r', '.', '-', '_', '$', '(', ')',
    '~', '!', '8', 'c', 'd', 'E', 'X',
];

const SPECIAL_PICKS: &[char] = &[
    '\'', '"', '\\', '{', '}', '\n', '\r', '\t', '\0', '\x07', '\x08', '\x0b', '\x0c', '\x7f', '\x1b', '\x01',
];

fn scalar(cp: u32) -> char {
    // total: surrogates and values above 10FFFF are folded into valid scalar values
    let cp = cp % 0x110000;
    let cp = if (0xd800..=0xdfff).contains(&cp) { cp - 0x800 } else { cp };
    char::from_u32(cp).unwrap_or('a')
}

pub fn gen_char(g: &mut G) -> char {
    match g.below(10) {
        0 | 1 | 2 => *g.pick(ASCII_PICKS),
        3 => *g.pick(SPECIAL_PICKS),
        4 => scalar(0x80 + g.below(128) as u32),
        5 => scalar(*g.pick(CP_BOUNDARIES)),
        6 => scalar(g.byte() as u32),
        7 => scalar((g.byte() as u32) << 8 | g.byte() as u32),
        8 => scalar(0x10000 + (g.u32() % 0x100000)),
        _ => {
            let s: &&str = g.pick(STR_ALPHABET);
            s.chars().next().unwrap_or('a')
        }
    }
}

fn gen_form(g: &mut G, forms: &[Esc]) -> (Esc, u8, u64) {
    let form = *g.pick(forms);
    match form {
        Esc::X | Esc::BigX | Esc::U4 | Esc::U8 => {
            let mode = g.below(3) as u8;
            let bits = if mode == 2 { g.byte() as u64 } else { 0 };
            (form, mode, bits)
        }
        _ => (form, 0, 0),
    }
}

pub fn gen_str_case(g: &mut G) -> Case {
    let pooled = g.chance(48);
    let chars: Vec<char> = if pooled {
        let p = str_pool();
        g.pick(&p).chars().collect()
    } else {
        let n = g.below(11);
        (0..n).map(|_| gen_char(g)).collect()
    };
    let mut q = if g.flag() { '"' } else { '\'' };
    let mut prefix = *g.pick(&["", "", "r", "f"]);
    if prefix == "r" {
        // a raw string cannot contain its delimiter
        if chars.contains(&q) {
            q = if q == '\'' { '"' } else { '\'' };
        }
        if chars.contains(&q) {
            prefix = "";
        }
    }
    let units: Vec<Unit> = chars
        .iter()
        .map(|c| {
            if prefix == "r" {
                Unit { cp: *c as u32, form: Esc::Raw, mode: 0, bits: 0 }
            } else {
                let forms = str_forms(*c, q, prefix == "f");
                let (form, mode, bits) = gen_form(g, &forms);
                Unit { cp: *c as u32, form, mode, bits }
            }
        })
        .collect();
    str_case(prefix, q, &units, pooled, None)
}

pub fn gen_bytes_case(g: &mut G) -> Case {
    let q = if g.flag() { '"' } else { '\'' };
    let n = g.below(11);
    let mut units = Vec::new();
    for _ in 0..n {
        match g.below(8) {
            0 | 1 => {
                // raw character (ASCII or not): contributes its UTF-8 bytes
                let c = gen_char(g);
                if c == q || c == '\\' {
                    let (form, mode, bits) = gen_form(g, &byte_forms(c as u8, q));
                    units.push(Unit { cp: c as u32, form, mode, bits });
                } else {
                    units.push(Unit { cp: c as u32, form: Esc::Raw, mode: 0, bits: 0 });
                }
            }
            k => {
                let b: u8 = match k {
                    2 => *g.pick(&[0u8, 0x7f, 0x80, 0xff, 0xc3, 0xa9, 0x27, 0x22, 0x5c]),
                    3 => *g.pick(ASCII_PICKS) as u8,
                    4 => NAMED[g.below(NAMED.len())].0 as u8,
                    _ => g.byte(),
                };
                let (form, mode, bits) = gen_form(g, &byte_forms(b, q));
                units.push(Unit { cp: b as u32, form, mode, bits });
            }
        }
    }
    bytes_case(q, &units, false, None)
}

// ---------------------------------------------------------------------------
// Rejection set (and the neighbouring unspecified points)

fn reject(src: String, class: &str) -> Case {
    Case { src, exp: Exp::Syntax, class: class.to_string(), nontrivial: true, tags: vec![] }
}

fn unspecified(src: String, class: &str) -> Case {
    Case { src, exp: Exp::Unspecified, class: class.to_string(), nontrivial: false, tags: vec![] }
}

/// `pre` and `post` are plain ASCII letters/digits placed around the escape.
fn wrap(prefix: &str, q: char, pre: &str, esc: &str, post: &str) -> String {
    format!("{}{}{}{}{}{}", prefix, q, pre, esc, post, q)
}

/// Characters that can follow a truncated hex escape without completing it.
const NON_HEX: &[&str] = &["", "g", " ", "z", "-", "G", "é"];
/// Characters that can follow a truncated octal escape without completing it.
const NON_OCT: &[&str] = &["", "8", "9", " ", "a", "-"];

fn reject_grid() -> Vec<Case> {
    let mut v = Vec::new();
    // integers
    let sps = num_spellings();
    let above_i64: Vec<u128> = vec![
        1 << 63,
        (1 << 63) + 1,
        (1 << 63) + (1 << 62),
        10_000_000_000_000_000_000,
        12_345_678_901_234_567_890,
        u64::MAX as u128 - 1,
        u64::MAX as u128,
    ];
    for m in &above_i64 {
        for sp in &sps {
            v.push(int_reject_case(*m, sp, None, false));
            v.push(int_reject_case(*m, sp, None, true));
        }
    }
    let above_u64: Vec<u128> = vec![
        1 << 64,
        (1 << 64) + 1,
        1 << 65,
        (1 << 64) * 10,
        99_999_999_999_999_999_999,
        100_000_000_000_000_000_000,
        1_000_000_000_000_000_000_000_000_000_000,
        1 << 127,
        u128::MAX,
    ];
    for m in &above_u64 {
        for sp in &sps {
            for suffix in [None, Some('u'), Some('U')] {
                v.push(int_reject_case(*m, sp, suffix, false));
            }
            v.push(int_reject_case(*m, sp, None, true));
        }
    }
    // invalid code points
    for prefix in ["", "f"] {
        for q in ['\'', '"'] {
            for (pre, post) in [("", ""), ("a", "0")] {
                for cp in [0xd800u32, 0xd801, 0xdbff, 0xdc00, 0xdfff] {
                    for mode in [0u8, 1] {
                        v.push(reject(wrap(prefix, q, pre, &esc_text(cp, Esc::U4, mode, 0), post), "str-surrogate-u"));
                        v.push(reject(wrap(prefix, q, pre, &esc_text(cp, Esc::U8, mode, 0), post), "str-surrogate-U"));
                    }
                }
                for cp in [0x110000u32, 0x110001, 0x1fffff, 0x200000, 0x1000000, 0x7fffffff, 0x80000000, 0xffffffff] {
                    for mode in [0u8, 1] {
                        v.push(reject(wrap(prefix, q, pre, &esc_text(cp, Esc::U8, mode, 0), post), "str-above-10ffff"));
                    }
                }
            }
        }
    }
    // hex escapes take digits only: a sign, a blank or an underscore in any digit position is malformed
    for q in ['\'', '"'] {
        for prefix in ["", "f", "b"] {
            let kind = if prefix == "b" { "bytes" } else { "str" };
            let forms: &[(&str, usize)] = if prefix == "b" { &[("x", 2), ("X", 2)] } else { &[("x", 2), ("X", 2), ("u", 4), ("U", 8)] };
            for (letter, n) in forms {
                for bad in ["+", "-", " ", "_", ".", "g", "G"] {
                    for pos in 0..*n {
                        let mut digits: Vec<String> = (0..*n).map(|i| if i + 1 == *n { "f".to_string() } else { "0".to_string() }).collect();
                        digits[pos] = bad.to_string();
                        let esc = format!("\\{}{}", letter, digits.concat());
                        v.push(reject(wrap(prefix, q, "a", &esc, "b"), &format!("{}-hex-escape-non-digit", kind)));
                    }
                }
            }
        }
    }
    // a high surrogate followed by a second \u escape: still an invalid code point, never half of a pair
    for prefix in ["", "f"] {
        for q in ['\'', '"'] {
            for hi in ["d800", "D83D", "dbff", "DBFF"] {
                for lo in ["0041", "dc00", "DE00", "dfff", "d800", "D83D", "0000", "ffff"] {
                    v.push(reject(wrap(prefix, q, "a", &format!("\\u{}\\u{}", hi, lo), "b"), "str-surrogate-then-escape"));
                    v.push(reject(wrap(prefix, q, "", &format!("\\u{}\\U0000{}", hi, lo), ""), "str-surrogate-then-escape"));
                }
                for next in ["\\n", "\\x41", "\\101", "A", "\u{e9}"] {
                    v.push(reject(wrap(prefix, q, "", &format!("\\u{}{}", hi, next), ""), "str-surrogate-then-escape"));
                }
            }
        }
    }
    // truncated escapes
    for q in ['\'', '"'] {
        for prefix in ["", "f", "b"] {
            let kind = if prefix == "b" { "bytes" } else { "str" };
            let letters: &[(char, usize)] =
                if prefix == "b" { &[('x', 2), ('X', 2)] } else { &[('x', 2), ('X', 2), ('u', 4), ('U', 8)] };
            for (letter, need) in letters {
                for digits in ["0000004", "abcdef1"] {
                    for k in 0..*need {
                        for term in NON_HEX {
                            let esc = format!("\\{}{}", letter, &digits[digits.len() - k..]);
                            v.push(reject(wrap(prefix, q, "a", &esc, term), &format!("{}-truncated-{}", kind, letter)));
                        }
                    }
                }
            }
            for digits in ["1", "0", "7", "12", "00", "37", "04"] {
                for term in NON_OCT {
                    let esc = format!("\\{}", digits);
                    v.push(reject(wrap(prefix, q, "a", &esc, term), &format!("{}-truncated-octal", kind)));
                }
            }
        }
        // an escape that starts like an octal one (a digit) but with 8 or 9: malformed, not "unknown"
        for prefix in ["", "f", "b"] {
            let kind = if prefix == "b" { "bytes" } else { "str" };
            for digits in ["8", "9", "800", "912", "80", "99", "888", "8a", "9 "] {
                for term in ["", "0", "a", " "] {
                    v.push(reject(wrap(prefix, q, "a", &format!("\\{}", digits), term), &format!("{}-octal-first-digit-8-9", kind)));
                }
            }
        }
        // bytes octal above 377
        for o in [0o400u32, 0o401, 0o477, 0o500, 0o677, 0o700, 0o777] {
            for post in ["", "0"] {
                v.push(reject(wrap("b", q, "", &format!("\\{:03o}", o), post), "bytes-octal-above-377"));
            }
        }
        // unterminated literals
        let other = if q == '\'' { '"' } else { '\'' };
        for prefix in ["", "r", "b", "f"] {
            let class = format!("unterminated-{}", if prefix.is_empty() { "plain" } else { prefix });
            let mut bodies: Vec<String> = vec![
                String::new(),
                "abc".to_string(),
                "a b".to_string(),
                format!("abc{}", other),
                "abc\\".to_string(),
            ];
            if prefix != "r" {
                // escaped delimiter, then the input ends
                bodies.push(format!("abc\\{}", q));
                bodies.push("abc\\x4".to_string());
                bodies.push("abc\\x".to_string());
                bodies.push("abc\\1".to_string());
                bodies.push("abc\\12".to_string());
                if prefix != "b" {
                    bodies.push("abc\\u00".to_string());
                    bodies.push("abc\\U0001".to_string());
                }
            }
            for b in bodies {
                v.push(reject(format!("{}{}{}", prefix, q, b), &class));
            }
        }
    }
    v
}

/// Points the statement leaves open; generated so that "no panic" is still checked.
fn unspecified_grid() -> Vec<Case> {
    let mut v = Vec::new();
    for q in ['\'', '"'] {
        for prefix in ["", "f", "b"] {
            for e in ["q", "?", "z", " ", "é", "`", "/", "%", "N", "c", "e"] {
                v.push(unspecified(wrap(prefix, q, "a", &format!("\\{}", e), "b"), "unknown-escape"));
            }
        }
        for prefix in ["", "f"] {
            for o in [0o400u32, 0o401, 0o577, 0o777] {
                v.push(unspecified(wrap(prefix, q, "", &format!("\\{:03o}", o), ""), "str-octal-above-377"));
            }
        }
        v.push(unspecified(format!("r{}abc\\{}", q, q), "rawstr-trailing-backslash"));
    }
    v
}

pub fn gen_reject_case(g: &mut G) -> Case {
    let q = if g.flag() { '"' } else { '\'' };
    let pre: String = (0..g.below(3)).map(|_| *g.pick(ASCII_PICKS)).filter(|c| c.is_ascii_alphanumeric()).collect();
    match g.below(9) {
        0 => {
            // unsuffixed, in (i64::MAX, u64::MAX]
            let m = (1u128 << 63) | (g.u64() as u128 >> 1);
            let sp = gen_numsp(g);
            int_reject_case(m, &sp, None, g.chance(64))
        }
        1 => {
            // above u64::MAX
            let m = match g.below(3) {
                0 => (1u128 << 64) + g.u64() as u128,
                1 => ((1u128 << 64) + g.u64() as u128).saturating_mul(1 + g.u32() as u128),
                _ => ((g.u64() as u128) << 64 | g.u64() as u128) | (1u128 << (64 + g.below(64))),
            };
            let sp = gen_numsp(g);
            let suffix = *g.pick(&[None, Some('u'), Some('U')]);
            let minus = suffix.is_none() && g.chance(48);
            int_reject_case(m, &sp, suffix, minus)
        }
        2 => {
            let prefix = if g.chance(64) { "f" } else { "" };
            let cp = 0xd800 + (g.u32() % 0x800);
            let mode = g.below(3) as u8;
            let bits = g.byte() as u64;
            let post: String = (0..g.below(3)).map(|_| *g.pick(&['0', 'a', 'F', 'z', '7'])).collect();
            if g.flag() {
                reject(wrap(prefix, q, &pre, &esc_text(cp, Esc::U4, mode, bits), &post), "str-surrogate-u")
            } else {
                reject(wrap(prefix, q, &pre, &esc_text(cp, Esc::U8, mode, bits), &post), "str-surrogate-U")
            }
        }
        3 => {
            let prefix = if g.chance(64) { "f" } else { "" };
            let r = g.u32();
            let cp = if g.flag() { 0x110000 + (r % 0x100000) } else { r.max(0x110000) };
            let mode = g.below(3) as u8;
            let bits = g.byte() as u64;
            let post: String = (0..g.below(3)).map(|_| *g.pick(&['0', 'a', 'F', 'z', '7'])).collect();
            reject(wrap(prefix, q, &pre, &esc_text(cp, Esc::U8, mode, bits), &post), "str-above-10ffff")
        }
        4 => {
            // truncated hex escape
            let prefix = *g.pick(&["", "f", "b"]);
            let kind = if prefix == "b" { "bytes" } else { "str" };
            let (letter, need) = if prefix == "b" {
                *g.pick(&[('x', 2usize), ('X', 2)])
            } else {
                *g.pick(&[('x', 2usize), ('X', 2), ('u', 4), ('U', 8)])
            };
            let k = g.below(need);
            let digits: String = (0..k).map(|_| *g.pick(&['0', '4', '9', 'a', 'f', 'A', 'F', '1'])).collect();
            let term = *g.pick(NON_HEX);
            reject(
                wrap(prefix, q, &pre, &format!("\\{}{}", letter, digits), term),
                &format!("{}-truncated-{}", kind, letter),
            )
        }
        5 => {
            let prefix = *g.pick(&["", "f", "b"]);
            let kind = if prefix == "b" { "bytes" } else { "str" };
            let k = 1 + g.below(2);
            let digits: String = (0..k).map(|_| *g.pick(&['0', '1', '3', '7', '2'])).collect();
            let term = *g.pick(NON_OCT);
            reject(wrap(prefix, q, &pre, &format!("\\{}", digits), term), &format!("{}-truncated-octal", kind))
        }
        6 => {
            let o = 0o400 + g.below(0o400) as u32;
            let post = if g.flag() { "7" } else { "" };
            reject(wrap("b", q, &pre, &format!("\\{:03o}", o), post), "bytes-octal-above-377")
        }
        7 => {
            let prefix = *g.pick(&["", "r", "b", "f"]);
            let class = format!("unterminated-{}", if prefix.is_empty() { "plain" } else { prefix });
            let body: String = (0..g.below(6))
                .map(|_| *g.pick(ASCII_PICKS))
                .filter(|c| *c != '{' && *c != '}')
                .collect();
            let tail = if prefix != "r" && g.chance(64) { format!("\\{}", q) } else { String::new() };
            reject(format!("{}{}{}{}", prefix, q, body, tail), &class)
        }
        _ => {
            // unspecified neighbours
            let prefix = *g.pick(&["", "f", "b"]);
            if prefix != "b" && g.flag() {
                let o = 0o400 + g.below(0o400) as u32;
                unspecified(wrap(prefix, q, &pre, &format!("\\{:03o}", o), ""), "str-octal-above-377")
            } else {
                let e = *g.pick(&['q', '?', 'z', ' ', '8', '9', 'é', '`', '/', 'N', 'c', 'e', 'w', 'y']);
                unspecified(wrap(prefix, q, &pre, &format!("\\{}", e), "b"), "unknown-escape")
            }
        }
    }
}

// ---------------------------------------------------------------------------
// Exhaustive grids

fn unit(cp: u32, form: Esc, mode: u8) -> Unit {
    Unit { cp, form, mode, bits: 0x5a }
}

fn int_grid() -> Vec<Case> {
    let mut v = Vec::new();
    let sps = num_spellings();
    for i in int_pool() {
        for sp in &sps {
            v.push(int_case(i, sp, true));
        }
    }
    for u in uint_pool() {
        for sp in &sps {
            for big_u in [false, true] {
                v.push(uint_case(u, sp, big_u, true));
            }
        }
    }
    // every hex digit in every position class
    for d in 0..16u64 {
        for sp in &sps {
            if sp.hex {
                v.push(int_case(d as i64, sp, true));
                v.push(int_case(((d << 4) | (0xf - d)) as i64, sp, true));
                v.push(uint_case((d << 60) | d, sp, false, true));
            }
        }
    }
    for kw in [("true", V::Bool(true)), ("false", V::Bool(false)), ("null", V::Null)] {
        v.push(Case { src: kw.0.to_string(), exp: Exp::Val(kw.1), class: "keyword".into(), nontrivial: false, tags: vec![] });
    }
    v
}

fn float_grid() -> Vec<Case> {
    let mut v = Vec::new();
    let sps = float_spellings();
    let mut pool = f64_pool();
    pool.extend([
        5e-324,
        1.7976931348623157e308,
        2.2250738585072011e-308, // largest subnormal
        4.9406564584124654e-324,
        0.30000000000000004,
        1e21,
        1e22,
        1e23,
        123456789012345680.0,
        9007199254740993.0,
        0.000001,
        1e-5,
        299792458.0,
        6.02214076e23,
        1e15,
        1e16,
        1e17,
    ]);
    for f in pool {
        for sp in &sps {
            if let Some(c) = float_case(f, sp, true) {
                v.push(c);
            }
        }
    }
    v
}

fn bytes_grid() -> Vec<Case> {
    let mut v = Vec::new();
    for q in ['\'', '"'] {
        for b in 0..=255u32 {
            for form in byte_forms(b as u8, q) {
                let modes: &[u8] = if matches!(form, Esc::X | Esc::BigX) { &[0, 1, 2] } else { &[0] };
                for mode in modes {
                    let class = Some(format!("bytes-{}", form.name()));
                    // alone, and followed by a character that is both a hex and an octal digit
                    v.push(bytes_case(q, &[unit(b, form, *mode)], true, class.clone()));
                    v.push(bytes_case(q, &[unit(b, form, *mode), unit('7' as u32, Esc::Raw, 0)], true, class));
                }
            }
        }
        // raw non-ASCII characters contribute their UTF-8 encoding
        for cp in CP_BOUNDARIES.iter().copied().chain([0xe9, 0x3a3, 0x65e5, 0x1f600]) {
            if cp >= 0x80 {
                v.push(bytes_case(q, &[unit(cp, Esc::Raw, 0)], true, Some("bytes-raw-utf8".into())));
            }
        }
        v.push(bytes_case(q, &[], true, Some("bytes-empty".into())));
    }
    v
}

fn str_grid(tier: Tier) -> Vec<Case> {
    let mut v = Vec::new();
    for q in ['\'', '"'] {
        for prefix in ["", "f"] {
            // every code point 0..255 in every applicable form
            for cp in 0..=255u32 {
                let c = scalar(cp);
                for form in str_forms(c, q, prefix == "f") {
                    let modes: &[u8] = if matches!(form, Esc::X | Esc::BigX | Esc::U4 | Esc::U8) { &[0, 1, 2] } else { &[0] };
                    for mode in modes {
                        let class = Some(format!("str-{}{}", form.name(), if prefix == "f" { "-fprefix" } else { "" }));
                        v.push(str_case(prefix, q, &[unit(cp, form, *mode)], true, class.clone()));
                        if form != Esc::Raw && form != Esc::Doubled {
                            v.push(str_case(prefix, q, &[unit(cp, form, *mode), unit('7' as u32, Esc::Raw, 0)], true, class));
                        }
                    }
                }
            }
            // class boundaries in every applicable form
            for cp in CP_BOUNDARIES {
                for form in str_forms(scalar(*cp), q, prefix == "f") {
                    for mode in [0u8, 1] {
                        let class = Some(format!("str-boundary-{}", form.name()));
                        v.push(str_case(prefix, q, &[unit('a' as u32, Esc::Raw, 0), unit(*cp, form, mode), unit('0' as u32, Esc::Raw, 0)], true, class));
                    }
                }
            }
        }
        // raw strings: boundaries, backslash sequences that would be escapes elsewhere
        for cp in CP_BOUNDARIES {
            v.push(str_case("r", q, &[unit(*cp, Esc::Raw, 0)], true, None));
        }
        for body in ["", "\\n", "\\x41", "\\u0041", "\\101", "\\\\", "a\\qb", "{}", "\\U0001F600", "\\t\\", "é😀"] {
            let units: Vec<Unit> = body.chars().map(|c| unit(c as u32, Esc::Raw, 0)).collect();
            v.push(str_case("r", q, &units, true, None));
        }
        for prefix in ["", "f"] {
            v.push(str_case(prefix, q, &[], true, None));
        }
        // f-string braces
        for body in ["{", "}", "{}", "}{", "a{b}c", "{{", "}}"] {
            let units: Vec<Unit> = body
                .chars()
                .map(|c| unit(c as u32, if c == '{' || c == '}' { Esc::Doubled } else { Esc::Raw }, 0))
                .collect();
            v.push(str_case("f", q, &units, true, None));
        }
        // the pool strings, written plainly and fully \U-escaped
        for s in str_pool() {
            let forms_u8: Vec<Unit> = s.chars().map(|c| unit(c as u32, Esc::U8, 1)).collect();
            v.push(str_case("", q, &forms_u8, true, None));
            let plain: Vec<Unit> = s
                .chars()
                .map(|c| unit(c as u32, if c == q || c == '\\' { Esc::Named } else { Esc::Raw }, 0))
                .collect();
            v.push(str_case("", q, &plain, true, None));
        }
    }
    // \u sweep over the BMP (surrogates must be rejected), \U sweep over all planes
    let (ustep, big_step) = tier.pick((16u32, 4099u32), (1, 17));
    let mut cp = 0u32;
    while cp <= 0xffff {
        v.push(sweep_case(cp, Esc::U4));
        cp += ustep;
    }
    for cp in 0xd7f0..=0xe010u32 {
        v.push(sweep_case(cp, Esc::U4));
        v.push(sweep_case(cp, Esc::U8));
    }
    let mut cp = 0u32;
    while cp <= 0x110100 {
        v.push(sweep_case(cp, Esc::U8));
        cp += big_step;
    }
    for cp in 0x10fff0..=0x110010u32 {
        v.push(sweep_case(cp, Esc::U8));
    }
    v
}

fn sweep_case(cp: u32, form: Esc) -> Case {
    let valid = char::from_u32(cp).is_some();
    if valid {
        str_case("", '\'', &[unit(cp, form, (cp % 3) as u8)], true, Some(format!("str-sweep-{}", form.name())))
    } else if (0xd800..=0xdfff).contains(&cp) {
        reject(wrap("", '\'', "", &esc_text(cp, form, (cp % 3) as u8, 0x5a), ""), &format!("str-surrogate-{}", form.name()))
    } else {
        reject(wrap("", '\'', "", &esc_text(cp, form, (cp % 3) as u8, 0x5a), ""), "str-above-10ffff")
    }
}

// ---------------------------------------------------------------------------
// Driver

fn run_grid(acc: &mut Acc, opts: &Opts, sub: &str, cases: Vec<Case>, note: &str) {
    // distinct by source text: drop duplicates so that counts are honest
    let mut seen = std::collections::BTreeSet::new();
    let cases: Vec<Case> = cases.into_iter().filter(|c| seen.insert(c.src.clone())).collect();
    let sample_mod = (cases.len() as u64 / 2).max(1);
    par_chunks(acc, opts.threads, &cases, |c, a| {
        for f in check(c, sub, sample_mod, a) {
            a.fail(f);
        }
    });
    acc.mark_exhaustive(sub, &format!("{} ({} distinct literals)", note, cases.len()));
}

fn gen_number_case(g: &mut G) -> Case {
    if g.flag() {
        let v = gen_uint(g);
        let pooled = uint_pool().contains(&v);
        let sp = gen_numsp(g);
        uint_case(v, &sp, g.flag(), pooled)
    } else {
        let v = gen_int(g);
        let pooled = int_pool().contains(&v);
        let sp = gen_numsp(g);
        int_case(v, &sp, pooled)
    }
}

fn gen_float_case(g: &mut G) -> Option<Case> {
    let f = match g.below(4) {
        0 => {
            let p = f64_pool();
            *g.pick(&p)
        }
        1 => g.range(-4000, 4000) as f64 / 8.0,
        _ => f64::from_bits(g.u64()),
    };
    let pooled = f64_pool().iter().any(|x| x.to_bits() == f.to_bits());
    let sp = gen_fsp(g);
    float_case(f, &sp, pooled)
}

/// about two samples per random sub-run in the quick tier
const RAND_SAMPLE_MOD: u64 = 3_000;

fn run(opts: &Opts, acc: &mut Acc) {
    run_grid(acc, opts, "int-grid", int_grid(), "int and uint boundary pools and every hex digit x decimal / 0x / 0X x lower / upper / mixed digit case x u / U; true false null");
    run_grid(acc, opts, "float-grid", float_grid(), "finite double pool (both signs) x every spelling family and every point position");
    run_grid(acc, opts, "bytes-grid", bytes_grid(), "every byte 0..255 x every applicable escape form (raw, named, \\x, \\X, octal; hex digit case lower/upper/mixed) x both quotes, alone and followed by '7'; raw non-ASCII characters");
    run_grid(acc, opts, "str-grid", str_grid(opts.tier), "every code point 0..255 x every applicable escape form x both quotes x plain/f prefix; class boundaries in every form; raw strings; f-string braces; \\u sweep over the BMP and \\U sweep over all planes (strided in the quick tier; D7F0..E010 and 10FFF0..110010 complete)");
    run_grid(acc, opts, "reject-grid", reject_grid(), "out-of-range integers, surrogate and above-10FFFF escapes, truncated \\x \\X \\u \\U and octal escapes x terminators, bytes octal above 377, unterminated literals");
    run_grid(acc, opts, "unspecified-grid", unspecified_grid(), "unknown escapes, string octal 400-777, raw string ending in a backslash: only totality");

    let scale: u32 = match (opts.tier, opts.is_dbg()) {
        (Tier::Quick, false) => 5,
        (Tier::Quick, true) => 1,
        (Tier::Thorough, false) => 150,
        (Tier::Thorough, true) => 12,
    };
    random_genomes(acc, opts, "rand-number", 6_000 * scale, 40, |gn, a| {
        let mut g = G::new(gn);
        check(&gen_number_case(&mut g), "rand-number", RAND_SAMPLE_MOD, a)
    });
    random_genomes(acc, opts, "rand-float", 10_000 * scale, 48, |gn, a| {
        let mut g = G::new(gn);
        match gen_float_case(&mut g) {
            Some(c) => check(&c, "rand-float", RAND_SAMPLE_MOD, a),
            None => vec![], // non-finite bit pattern (has no literal) or renderer self-check declined
        }
    });
    random_genomes(acc, opts, "rand-str", 12_000 * scale, 160, |gn, a| {
        let mut g = G::new(gn);
        check(&gen_str_case(&mut g), "rand-str", RAND_SAMPLE_MOD, a)
    });
    random_genomes(acc, opts, "rand-bytes", 6_000 * scale, 160, |gn, a| {
        let mut g = G::new(gn);
        check(&gen_bytes_case(&mut g), "rand-bytes", RAND_SAMPLE_MOD, a)
    });
    random_genomes(acc, opts, "rand-reject", 6_000 * scale, 64, |gn, a| {
        let mut g = G::new(gn);
        check(&gen_reject_case(&mut g), "rand-reject", RAND_SAMPLE_MOD, a)
    });
}

fn replay(_opts: &Opts, d: &Value, acc: &mut Acc) {
    // `check --replay FILE` hands over the whole replay file, the regression runner only its
    // `detail` object: accept both
    let d = d.get("detail").unwrap_or(d);
    let kind = d.get("kind").and_then(|k| k.as_str()).unwrap_or("");
    if kind != "lit" {
        acc.inconclusive.push(format!("unknown C13 replay kind {:?}", kind));
        return;
    }
    let (Some(src), Some(exp)) = (
        d.get("source").and_then(|s| s.as_str()),
        d.get("expect").and_then(Exp::from_json),
    ) else {
        acc.inconclusive.push("bad C13 replay file".into());
        return;
    };
    let class = d.get("class").and_then(|s| s.as_str()).unwrap_or("replay").to_string();
    let c = Case { src: src.to_string(), exp, class, nontrivial: true, tags: vec![] };
    for f in check(&c, "replay", 0, acc) {
        acc.fail(f);
    }
}

/// libFuzzer entry: the first byte selects the literal family
pub fn fuzz_case(genome: &[u8], acc: &mut Acc) -> Vec<Failure> {
    let Some((k, rest)) = genome.split_first() else { return vec![] };
    let mut g = G::new(rest);
    match k % 5 {
        0 => check(&gen_number_case(&mut g), "fuzz", RAND_SAMPLE_MOD, acc),
        1 => match gen_float_case(&mut g) {
            Some(c) => check(&c, "fuzz", RAND_SAMPLE_MOD, acc),
            None => vec![],
        },
        2 => check(&gen_str_case(&mut g), "fuzz", RAND_SAMPLE_MOD, acc),
        3 => check(&gen_bytes_case(&mut g), "fuzz", RAND_SAMPLE_MOD, acc),
        _ => check(&gen_reject_case(&mut g), "fuzz", RAND_SAMPLE_MOD, acc),
    }
}
