//! C19 — serialized programs (JSON, bincode) behave exactly like the original.
//!
//! For every generated program P (compiled by `Program::from_source`) and each of the two
//! formats the bindings use (`serde_json::to_string`/`from_str`, `bincode::serialize`/
//! `deserialize`): serialization succeeds, deserialization succeeds, the round-tripped P'
//! reports the same source and the same parameter set, has structurally the same bytecode,
//! evaluates like P under several bindings and serializes again to the same text/bytes.

use super::Prop;
use crate::engine::{guard, par_chunks, random_genomes, Acc, Failure, Opts};
use crate::expr::*;
use crate::g::G;
use crate::gen::{gen_env, gen_expr, is_type_name, substitute, value_of_type, Cfg, Env, Ty};
use crate::run::{bind_all, compile, err_class, exec_prog, Res, Res2, Sum};
use crate::val::*;
use rscel::{BindContext, ByteCode, CelContext, CelValue, Program};
use serde_json::{json, Value};
use std::collections::{BTreeMap, BTreeSet};

pub static PROP: Prop = Prop {
    id: "C19",
    rule: "programs = (a) a fixed grid: every boundary-pool constant of every value type (ints, uints, doubles incl. -0.0, \
           subnormals, +-inf, NaN, strings, bytes incl. invalid UTF-8, timestamps and durations truncated to milliseconds), alone \
           and inside a list and a map, every error-producing constant expression alone / in a list / in a map / in a branch / in \
           a macro body, type values, and one program per bytecode-producing construct (calls, macros, f-strings, match, ?:, \
           ||/&&, index/access/list/map with variable parts); (b) random genomes in three modes: constant-only expressions from \
           a dedicated constant generator (nested lists/maps and computed constants of all of the above), constant-rich \
           expressions that wrap such constants in every construct with variable parts, and the full-language generator with a \
           random subset of variables replaced by their (millisecond-truncated) values. Each program x {serde_json, bincode}: \
           serialize, deserialize, compare source(), params() as sets, the canonical bytecode (map keys sorted, doubles \
           bit-exact with one NaN, errors by variant), the results of exec under the generator's bindings, the empty binding \
           and a perturbed binding (canonical value or error variant), and the re-serialized form (JSON: equal up to the order \
           of map keys and params; bincode: identical bytes when the program holds no multi-entry map constant and at most one \
           parameter, else equal length and byte histogram). Programs holding a sub-millisecond time constant are skipped \
           (documented to be stored at millisecond resolution). Non-trivial = the bytecode contains a constant that is not an \
           int, an error constant, or a nested block; distinct by canonical bytecode rendering. Classes record which CelValue \
           and ByteCode variants occurred in the serialized programs (cel:*, bc:*, const:*).",
    assumptions: &[
        "serde_json::to_string/from_str and bincode::serialize/deserialize (bincode 1.3.3 defaults) are the formats in use, as in python/src/py_cel_program.rs and wasm/src/cel_program.rs",
        "error messages are not compared, only the error variant; all NaNs are one value",
        "the order of params() and of map entries in the serialized form is a HashMap artefact and not compared",
        "a result mismatch is only reported when 16 fresh compilations of the same source all reproduce the original's result (guards against HashMap-order dependent programs such as string(map))",
        "panics of the original program are owned by C01 and not compared",
    ],
    run,
    replay,
    both_profiles: never,
};

fn never(_: &Opts) -> bool {
    false
}

// ---------------------------------------------------------------------------
// Formats

#[derive(Clone, Copy, PartialEq, Eq, Debug)]
enum Fmt {
    Json,
    Bincode,
}

const FORMATS: &[Fmt] = &[Fmt::Json, Fmt::Bincode];

impl Fmt {
    fn name(self) -> &'static str {
        match self {
            Fmt::Json => "json",
            Fmt::Bincode => "bincode",
        }
    }
}

/// Ok(bytes) / Err((mode, message)); mode is "error" or "panic"
type Step<T> = Result<T, (&'static str, String)>;

fn ser_prog(fmt: Fmt, p: &Program) -> Step<Vec<u8>> {
    let r = guard(|| match fmt {
        Fmt::Json => serde_json::to_string(p).map(|s| s.into_bytes()).map_err(|e| e.to_string()),
        Fmt::Bincode => bincode::serialize(p).map_err(|e| e.to_string()),
    });
    match r {
        Ok(Ok(b)) => Ok(b),
        Ok(Err(e)) => Err(("error", e)),
        Err(p) => Err(("panic", format!("{} at {}", p.msg, p.loc))),
    }
}

fn de_prog(fmt: Fmt, b: &[u8]) -> Step<Program> {
    let r = guard(|| match fmt {
        Fmt::Json => match std::str::from_utf8(b) {
            Ok(s) => serde_json::from_str::<Program>(s).map_err(|e| e.to_string()),
            Err(e) => Err(e.to_string()),
        },
        Fmt::Bincode => bincode::deserialize::<Program>(b).map_err(|e| e.to_string()),
    });
    match r {
        Ok(Ok(p)) => Ok(p),
        Ok(Err(e)) => Err(("error", e)),
        Err(p) => Err(("panic", format!("{} at {}", p.msg, p.loc))),
    }
}

fn value_roundtrips(fmt: Fmt, v: &CelValue) -> bool {
    let r = guard(|| match fmt {
        Fmt::Json => match serde_json::to_string(v) {
            Ok(s) => serde_json::from_str::<CelValue>(&s).is_ok(),
            Err(_) => false,
        },
        Fmt::Bincode => match bincode::serialize(v) {
            Ok(b) => bincode::deserialize::<CelValue>(&b).is_ok(),
            Err(_) => false,
        },
    });
    matches!(r, Ok(true))
}

// ---------------------------------------------------------------------------
// Walking the bytecode

fn cel_name(v: &CelValue) -> &'static str {
    match v {
        CelValue::Int(_) => "Int",
        CelValue::UInt(_) => "UInt",
        CelValue::Float(_) => "Float",
        CelValue::Bool(_) => "Bool",
        CelValue::String(_) => "String",
        CelValue::Bytes(_) => "Bytes",
        CelValue::List(_) => "List",
        CelValue::Map(_) => "Map",
        CelValue::Null => "Null",
        CelValue::Ident(_) => "Ident",
        CelValue::Type(_) => "Type",
        CelValue::TimeStamp(_) => "TimeStamp",
        CelValue::Duration(_) => "Duration",
        CelValue::ByteCode(_) => "ByteCode",
        CelValue::Err(_) => "Err",
        _ => "Unserializable",
    }
}

/// the constant class used in failure signatures
fn leaf_class(v: &CelValue) -> &'static str {
    match v {
        CelValue::Int(_) => "int",
        CelValue::UInt(_) => "uint",
        CelValue::Float(f) if f.is_finite() => "double",
        CelValue::Float(_) => "nonfinite-double",
        CelValue::Bool(_) => "bool",
        CelValue::String(_) => "string",
        CelValue::Bytes(_) => "bytes",
        CelValue::List(_) => "list",
        CelValue::Map(_) => "map",
        CelValue::Null => "null",
        CelValue::Ident(_) => "ident",
        CelValue::Type(_) => "type",
        CelValue::TimeStamp(_) => "timestamp",
        CelValue::Duration(_) => "duration",
        CelValue::ByteCode(_) => "block",
        CelValue::Err(_) => "err-constant",
        _ => "unserializable-variant",
    }
}

fn bc_name(b: &ByteCode) -> &'static str {
    match b {
        ByteCode::Push(_) => "Push",
        ByteCode::Pop => "Pop",
        ByteCode::Test => "Test",
        ByteCode::Dup => "Dup",
        ByteCode::Or => "Or",
        ByteCode::And => "And",
        ByteCode::Not => "Not",
        ByteCode::Neg => "Neg",
        ByteCode::Add => "Add",
        ByteCode::Sub => "Sub",
        ByteCode::Mul => "Mul",
        ByteCode::Div => "Div",
        ByteCode::Mod => "Mod",
        ByteCode::Lt => "Lt",
        ByteCode::Le => "Le",
        ByteCode::Eq => "Eq",
        ByteCode::Ne => "Ne",
        ByteCode::Ge => "Ge",
        ByteCode::Gt => "Gt",
        ByteCode::In => "In",
        ByteCode::Jmp(_) => "Jmp",
        ByteCode::JmpCond { when, .. } => {
            if when.as_bool() {
                "JmpCond:True"
            } else {
                "JmpCond:False"
            }
        }
        ByteCode::MkList(_) => "MkList",
        ByteCode::MkDict(_) => "MkDict",
        ByteCode::Index => "Index",
        ByteCode::Access => "Access",
        ByteCode::Call(_) => "Call",
        ByteCode::FmtString(_) => "FmtString",
    }
}

pub const ALL_BC: &[&str] = &[
    "Push", "Pop", "Test", "Dup", "Or", "And", "Not", "Neg", "Add", "Sub", "Mul", "Div", "Mod", "Lt", "Le", "Eq", "Ne", "Ge",
    "Gt", "In", "Jmp", "JmpCond:True", "JmpCond:False", "MkList", "MkDict", "Index", "Access", "Call", "FmtString",
];

#[derive(Default, Debug)]
struct Walk {
    cel: BTreeSet<&'static str>,
    bc: BTreeSet<&'static str>,
    fine: BTreeSet<String>,
    /// variants seen inside a nested block / inside a list or map constant
    inblock: BTreeSet<String>,
    incontainer: BTreeSet<&'static str>,
    nonint_const: bool,
    err_const: bool,
    nested_block: bool,
    sub_ms: bool,
    /// a map constant with two or more entries: its serialized entry order is a HashMap artefact
    multi_map: bool,
    block_depth: usize,
    instructions: usize,
}

fn walk_block<'a>(code: impl Iterator<Item = &'a ByteCode>, depth: usize, w: &mut Walk) {
    w.block_depth = w.block_depth.max(depth);
    for b in code {
        w.instructions += 1;
        w.bc.insert(bc_name(b));
        if depth > 0 {
            w.inblock.insert(format!("bc:{}", bc_name(b)));
        }
        if let ByteCode::Push(v) = b {
            walk_value(v, 0, depth, w);
        }
    }
}

fn walk_value(v: &CelValue, cdepth: usize, bdepth: usize, w: &mut Walk) {
    let name = cel_name(v);
    w.cel.insert(name);
    if !matches!(v, CelValue::Int(_) | CelValue::Ident(_) | CelValue::ByteCode(_)) {
        w.nonint_const = true;
    }
    if bdepth > 0 {
        w.inblock.insert(format!("cel:{}", name));
    }
    if cdepth > 0 {
        w.incontainer.insert(name);
    }
    let mut f = |s: &str| {
        w.fine.insert(s.to_string());
    };
    match v {
        CelValue::Int(i) => {
            if *i == i64::MIN {
                f("int:min");
            } else if *i == i64::MAX {
                f("int:max");
            } else if i.unsigned_abs() > (1u64 << 53) {
                f("int:beyond-2^53");
            } else if *i < 0 {
                f("int:negative");
            } else {
                f("int:small-nonnegative");
            }
        }
        CelValue::UInt(u) => {
            if *u == u64::MAX {
                f("uint:max");
            } else if *u > i64::MAX as u64 {
                f("uint:above-i64-max");
            } else {
                f("uint:other");
            }
        }
        CelValue::Float(x) => {
            if x.is_nan() {
                f("double:nan");
            } else if *x == f64::INFINITY {
                f("double:+inf");
            } else if *x == f64::NEG_INFINITY {
                f("double:-inf");
            } else if *x == 0.0 && x.is_sign_negative() {
                f("double:-0.0");
            } else if *x == 0.0 {
                f("double:+0.0");
            } else if x.is_subnormal() {
                f("double:subnormal");
            } else if x.abs() == f64::MAX {
                f("double:max");
            } else if x.abs() >= 9007199254740992.0 {
                f("double:beyond-2^53");
            } else if x.fract() == 0.0 {
                f("double:integral");
            } else {
                f("double:fractional");
            }
        }
        CelValue::Bool(_) | CelValue::Null | CelValue::Ident(_) => {}
        CelValue::String(s) => {
            if s.is_empty() {
                f("string:empty");
            } else if !s.is_ascii() {
                f("string:non-ascii");
            } else if s.chars().any(|c| (c as u32) < 0x20 || c == '"' || c == '\\') {
                f("string:needs-json-escape");
            } else {
                f("string:plain");
            }
        }
        CelValue::Bytes(b) => {
            let s = b.as_slice();
            if s.is_empty() {
                f("bytes:empty");
            } else if std::str::from_utf8(s).is_err() {
                f("bytes:invalid-utf8");
            } else {
                f("bytes:valid-utf8");
            }
        }
        CelValue::Type(t) => f(&format!("type:{}", t)),
        CelValue::TimeStamp(t) => {
            let n = t.timestamp_subsec_nanos();
            if n % 1_000_000 != 0 {
                w.sub_ms = true;
                w.fine.insert("timestamp:sub-millisecond(skipped)".into());
            } else if n != 0 {
                w.fine.insert("timestamp:millisecond-fraction".into());
            } else {
                w.fine.insert("timestamp:whole-seconds".into());
            }
            if t.timestamp() < 0 {
                w.fine.insert("timestamp:before-epoch".into());
            }
            if t.timestamp() > 253402300799 || t.timestamp() < -62167219200 {
                w.fine.insert("timestamp:outside-years-0-9999".into());
            }
        }
        CelValue::Duration(d) => {
            let n = d.subsec_nanos();
            if n % 1_000_000 != 0 {
                w.sub_ms = true;
                w.fine.insert("duration:sub-millisecond(skipped)".into());
            } else if n != 0 {
                w.fine.insert("duration:millisecond-fraction".into());
            } else {
                w.fine.insert("duration:whole-seconds".into());
            }
            if *d < chrono::Duration::zero() {
                w.fine.insert("duration:negative".into());
            }
            if d.num_seconds().unsigned_abs() >= 9223372036854775 {
                w.fine.insert("duration:extreme".into());
            }
        }
        CelValue::List(l) => {
            if l.is_empty() {
                f("list:empty");
            }
            if l.iter().any(|x| matches!(x, CelValue::List(_) | CelValue::Map(_))) {
                f("list:nested-container");
            }
            for x in l {
                walk_value(x, cdepth + 1, bdepth, w);
            }
        }
        CelValue::Map(m) => {
            if m.is_empty() {
                f("map:empty");
            }
            if m.len() >= 2 {
                w.multi_map = true;
                w.fine.insert("map:multi-entry".into());
            }
            if m.keys().any(|k| !k.is_ascii() || k.is_empty()) {
                w.fine.insert("map:non-ascii-or-empty-key".into());
            }
            if m.values().any(|x| matches!(x, CelValue::List(_) | CelValue::Map(_))) {
                w.fine.insert("map:nested-container".into());
            }
            let mut ks: Vec<&String> = m.keys().collect();
            ks.sort();
            for k in ks {
                walk_value(&m[k], cdepth + 1, bdepth, w);
            }
        }
        CelValue::ByteCode(inner) => {
            w.nested_block = true;
            walk_block(inner.iter(), bdepth + 1, w);
        }
        CelValue::Err(e) => {
            w.err_const = true;
            w.fine.insert(format!("err:{}", err_class(e)));
        }
        _ => f("unserializable-variant"),
    }
}

fn walk_program(p: &Program) -> Walk {
    let mut w = Walk::default();
    walk_block(p.bytecode().iter(), 0, &mut w);
    w
}

/// canonical text of a constant: map keys sorted, doubles bit-exact (one NaN), errors by variant
fn canon_const(v: &CelValue, o: &mut String) {
    use std::fmt::Write;
    match v {
        CelValue::Int(i) => {
            let _ = write!(o, "{}", i);
        }
        CelValue::UInt(u) => {
            let _ = write!(o, "{}u", u);
        }
        CelValue::Float(f) => o.push_str(&canon_f64(*f)),
        CelValue::Bool(b) => {
            let _ = write!(o, "{}", b);
        }
        CelValue::String(s) => {
            let _ = write!(o, "{:?}", s);
        }
        CelValue::Bytes(b) => {
            o.push_str("b[");
            for x in b.as_slice() {
                let _ = write!(o, "{:02x}", x);
            }
            o.push(']');
        }
        CelValue::List(l) => {
            o.push('[');
            for (i, x) in l.iter().enumerate() {
                if i > 0 {
                    o.push_str(", ");
                }
                canon_const(x, o);
            }
            o.push(']');
        }
        CelValue::Map(m) => {
            let mut ks: Vec<&String> = m.keys().collect();
            ks.sort();
            o.push('{');
            for (i, k) in ks.iter().enumerate() {
                if i > 0 {
                    o.push_str(", ");
                }
                let _ = write!(o, "{:?}: ", k);
                canon_const(&m[*k], o);
            }
            o.push('}');
        }
        CelValue::Null => o.push_str("null"),
        CelValue::Ident(s) => {
            let _ = write!(o, "ident({})", s);
        }
        CelValue::Type(t) => {
            let _ = write!(o, "type({})", t);
        }
        CelValue::TimeStamp(t) => {
            let _ = write!(o, "ts({}.{:09})", t.timestamp(), t.timestamp_subsec_nanos());
        }
        CelValue::Duration(d) => {
            let _ = write!(o, "dur({}ns)", chrono_dur_nanos(d));
        }
        CelValue::ByteCode(inner) => {
            o.push_str("{ ");
            canon_block(inner.iter(), o);
            o.push_str(" }");
        }
        CelValue::Err(e) => {
            let _ = write!(o, "Err({})", err_class(e));
        }
        other => {
            let _ = write!(o, "<{}>", cel_name(other));
        }
    }
}

fn canon_instr(b: &ByteCode, o: &mut String) {
    use std::fmt::Write;
    match b {
        ByteCode::Push(v) => {
            o.push_str("PUSH ");
            canon_const(v, o);
        }
        other => {
            let _ = write!(o, "{:?}", other);
        }
    }
}

fn canon_block<'a>(code: impl Iterator<Item = &'a ByteCode>, o: &mut String) {
    for (i, b) in code.enumerate() {
        if i > 0 {
            o.push_str("; ");
        }
        canon_instr(b, o);
    }
}

fn canon_program(p: &Program) -> String {
    let mut s = String::new();
    canon_block(p.bytecode().iter(), &mut s);
    s
}

fn short(s: &str) -> String {
    if s.chars().count() > 300 {
        let t: String = s.chars().take(300).collect();
        format!("{}…", t)
    } else {
        s.to_string()
    }
}

// ---------------------------------------------------------------------------
// Attribution of a failure to a constant class

/// the class of the first constant that cannot make the round trip on its own
fn offender_value(fmt: Fmt, v: &CelValue) -> Option<String> {
    if value_roundtrips(fmt, v) {
        return None;
    }
    match v {
        CelValue::List(l) => {
            for x in l {
                if let Some(c) = offender_value(fmt, x) {
                    return Some(c);
                }
            }
            Some("list".into())
        }
        CelValue::Map(m) => {
            let mut ks: Vec<&String> = m.keys().collect();
            ks.sort();
            for k in ks {
                if let Some(c) = offender_value(fmt, &m[k]) {
                    return Some(c);
                }
            }
            Some("map".into())
        }
        CelValue::ByteCode(inner) => {
            for b in inner.iter() {
                if let ByteCode::Push(x) = b {
                    if let Some(c) = offender_value(fmt, x) {
                        return Some(c);
                    }
                }
            }
            Some("block".into())
        }
        other => Some(leaf_class(other).to_string()),
    }
}

fn offender_program(fmt: Fmt, p: &Program) -> String {
    for b in p.bytecode().iter() {
        if let ByteCode::Push(v) = b {
            if let Some(c) = offender_value(fmt, v) {
                return c;
            }
        }
    }
    "program".to_string()
}

/// the class of the first constant that differs between two programs' bytecode
fn diff_values(a: &CelValue, b: &CelValue) -> Option<String> {
    let (mut x, mut y) = (String::new(), String::new());
    canon_const(a, &mut x);
    canon_const(b, &mut y);
    if x == y {
        return None;
    }
    match (a, b) {
        (CelValue::List(l), CelValue::List(r)) if l.len() == r.len() => {
            for (p, q) in l.iter().zip(r.iter()) {
                if let Some(c) = diff_values(p, q) {
                    return Some(c);
                }
            }
            Some("list".into())
        }
        (CelValue::Map(l), CelValue::Map(r)) if l.len() == r.len() && l.keys().all(|k| r.contains_key(k)) => {
            let mut ks: Vec<&String> = l.keys().collect();
            ks.sort();
            for k in ks {
                if let Some(c) = diff_values(&l[k], &r[k]) {
                    return Some(c);
                }
            }
            Some("map".into())
        }
        (CelValue::ByteCode(l), CelValue::ByteCode(r)) => Some(diff_blocks(l.as_slice(), r.as_slice()).unwrap_or_else(|| "block".into())),
        _ => Some(leaf_class(a).to_string()),
    }
}

fn diff_blocks(a: &[ByteCode], b: &[ByteCode]) -> Option<String> {
    if a.len() != b.len() {
        return Some("program".into());
    }
    for (p, q) in a.iter().zip(b.iter()) {
        match (p, q) {
            (ByteCode::Push(x), ByteCode::Push(y)) => {
                if let Some(c) = diff_values(x, y) {
                    return Some(c);
                }
            }
            _ => {
                let (mut s, mut t) = (String::new(), String::new());
                canon_instr(p, &mut s);
                canon_instr(q, &mut t);
                if s != t {
                    return Some("instruction".into());
                }
            }
        }
    }
    None
}

// ---------------------------------------------------------------------------
// The check on one source

type Binds = Vec<(String, V)>;

fn exec_shared(p: &Program, b: &BindContext) -> Res {
    let mut ctx = CelContext::new();
    ctx.add_program("main", p.clone());
    match guard(|| ctx.exec("main", b)) {
        Ok(Ok(v)) => Res::Ok(v),
        Ok(Err(e)) => Res::Err(e),
        Err(p) => Res::Panic(p),
    }
}

/// true when fresh compilations of the same source do not reproduce `base`: the original's
/// result depends on something outside the program (HashMap iteration order), so the
/// comparison with the round-tripped program says nothing
fn reference_unstable(src: &str, binds: &Binds, base: &Sum) -> bool {
    for _ in 0..16 {
        if let Res2::Ok(p2) = compile(src) {
            if &exec_prog(&p2, binds).sum() != base {
                return true;
            }
        }
    }
    false
}

fn sets_json(sets: &[Binds]) -> Value {
    Value::Array(
        sets.iter()
            .map(|b| Value::Array(b.iter().map(|(k, v)| json!([k, super::c03::vjson(v)])).collect()))
            .collect(),
    )
}

fn byte_histogram(b: &[u8]) -> [u32; 256] {
    let mut h = [0u32; 256];
    for x in b {
        h[*x as usize] = h[*x as usize].wrapping_add(1);
    }
    h
}

/// JSON text up to the order of object keys and of the params array
fn json_normal(text: &[u8]) -> Option<Value> {
    let mut v: Value = serde_json::from_slice(text).ok()?;
    if let Some(Value::Array(a)) = v.get_mut("details").and_then(|d| d.get_mut("params")) {
        a.sort_by(|x, y| x.as_str().unwrap_or("").cmp(y.as_str().unwrap_or("")));
    }
    Some(v)
}

fn check_program(src: &str, sets: &[Binds], sub: &str, mode: &str, acc: &mut Acc) -> Vec<Failure> {
    let mut out = Vec::new();
    let prog = match compile(src) {
        Res2::Ok(p) => p,
        Res2::Err(_) => {
            acc.case(sub, src, false, &format!("{}:does-not-compile", mode));
            return out;
        }
        Res2::Panic(_) => {
            // a compiler panic is C01's finding; there is no program to serialize
            acc.case(sub, src, false, &format!("{}:compiler-panic", mode));
            return out;
        }
    };
    let w = walk_program(&prog);
    let canon = canon_program(&prog);
    let nontrivial = w.nonint_const || w.err_const || w.nested_block;
    acc.case(sub, &canon, nontrivial, mode);
    for n in &w.cel {
        acc.class(&format!("cel:{}", n));
    }
    for n in &w.bc {
        acc.class(&format!("bc:{}", n));
    }
    for n in &w.fine {
        acc.class(&format!("const:{}", n));
    }
    for n in &w.inblock {
        acc.class(&format!("in-nested-block:{}", n));
    }
    for n in &w.incontainer {
        acc.class(&format!("in-list-or-map:cel:{}", n));
    }
    acc.class(if nontrivial { "nontrivial" } else { "trivial(only int constants, no block)" });
    for n in w.cel.iter().chain(w.bc.iter()) {
        acc.sample(&format!("{}:{}", sub, n), || json!({"source": src, "bytecode": short(&canon), "has": n}));
    }
    let detail = |extra: Value| -> Value {
        let mut d = json!({"kind": "program", "source": src, "bindings": sets_json(sets), "bytecode": short(&canon)});
        if let (Value::Object(m), Value::Object(e)) = (&mut d, extra) {
            for (k, v) in e {
                m.insert(k, v);
            }
        }
        d
    };
    if w.sub_ms {
        // outside the domain: time constants are documented to be stored at millisecond
        // resolution. Only "no panic" is asserted.
        acc.skip("sub-millisecond time constant (stored at millisecond resolution by design)");
        for &fmt in FORMATS {
            match ser_prog(fmt, &prog) {
                Err(("panic", m)) => out.push(Failure::new(
                    format!("c19:{}:sub-ms-time:serialize-panic", fmt.name()),
                    format!("{} [{}]: serializing panicked: {}", src, fmt.name(), m),
                    detail(json!({"format": fmt.name()})),
                )),
                Ok(b) => {
                    if let Err(("panic", m)) = de_prog(fmt, &b) {
                        out.push(Failure::new(
                            format!("c19:{}:sub-ms-time:deserialize-panic", fmt.name()),
                            format!("{} [{}]: deserializing panicked: {}", src, fmt.name(), m),
                            detail(json!({"format": fmt.name()})),
                        ));
                    }
                }
                _ => {}
            }
        }
        return out;
    }

    // the original's results, one bind context per binding set shared by all programs
    let mut ctxs: Vec<BindContext> = Vec::new();
    for b in sets {
        let mut bc = BindContext::new();
        bind_all(&mut bc, b);
        ctxs.push(bc);
    }
    let base: Vec<Sum> = ctxs.iter().map(|b| exec_shared(&prog, b).sum()).collect();
    acc.eval_only(sub, base.len() as u64);
    for s in &base {
        acc.class(match s {
            Sum::Val(_) => "result:value",
            Sum::Odd(_) => "result:value-outside-domain",
            Sum::Err(_) => "result:error",
            Sum::Panic(_) => "result:panic(original; not compared)",
        });
    }
    let params0: BTreeSet<String> = prog.params().iter().map(|s| s.to_string()).collect();

    for &fmt in FORMATS {
        let f = fmt.name();
        acc.eval_only(sub, 1);
        let bytes = match ser_prog(fmt, &prog) {
            Ok(b) => b,
            Err((m, msg)) => {
                let class = offender_program(fmt, &prog);
                out.push(Failure::new(
                    format!("c19:{}:{}:serialize-{}", f, class, m),
                    format!("{} [{}]: cannot be serialized: {} (bytecode: {})", src, f, msg, short(&canon)),
                    detail(json!({"format": f, "message": msg})),
                ));
                continue;
            }
        };
        let back = match de_prog(fmt, &bytes) {
            Ok(p) => p,
            Err((m, msg)) => {
                let class = offender_program(fmt, &prog);
                let shown = match fmt {
                    Fmt::Json => short(&String::from_utf8_lossy(&bytes)),
                    Fmt::Bincode => format!("{} bytes", bytes.len()),
                };
                out.push(Failure::new(
                    format!("c19:{}:{}:deserialize-{}", f, class, m),
                    format!("{} [{}]: serialized ({}) but cannot be read back: {} (bytecode: {})", src, f, shown, msg, short(&canon)),
                    detail(json!({"format": f, "message": msg})),
                ));
                continue;
            }
        };
        // structure
        let canon2 = canon_program(&back);
        let diff = if canon2 != canon {
            Some(diff_blocks(prog.bytecode().as_slice(), back.bytecode().as_slice()).unwrap_or_else(|| "program".into()))
        } else {
            None
        };
        let class = diff.clone().unwrap_or_else(|| "program".to_string());
        if back.source() != prog.source() {
            out.push(Failure::new(
                format!("c19:{}:{}:source-differs", f, class),
                format!("{} [{}]: source() is {:?} after the round trip, was {:?}", src, f, back.source(), prog.source()),
                detail(json!({"format": f})),
            ));
        }
        let params1: BTreeSet<String> = back.params().iter().map(|s| s.to_string()).collect();
        if params1 != params0 {
            out.push(Failure::new(
                format!("c19:{}:{}:params-differ", f, class),
                format!("{} [{}]: params() is {:?} after the round trip, was {:?}", src, f, params1, params0),
                detail(json!({"format": f})),
            ));
        }
        // behaviour
        let mut behaviour: Option<(usize, Sum)> = None;
        let mut order_dependent = false;
        for (k, b) in ctxs.iter().enumerate() {
            acc.eval_only(sub, 1);
            if base[k].is_panic() {
                continue;
            }
            let mut r = exec_shared(&back, b).sum();
            if r == base[k] && w.multi_map {
                // a map constant is rebuilt by every deserialization: read the same bytes back a few
                // more times, each copy must behave like the original too
                for _ in 0..6 {
                    if let Ok(again) = de_prog(fmt, &bytes) {
                        let r2 = exec_shared(&again, b).sum();
                        acc.eval_only(sub, 1);
                        if r2 != base[k] {
                            r = r2;
                            break;
                        }
                    }
                }
            }
            if r == base[k] {
                continue;
            }
            if reference_unstable(src, &sets[k], &base[k]) {
                // the original is self-consistent (its map constant is built once) but what a copy
                // does depends on how its map happens to be laid out: the copy is not the original
                order_dependent = true;
            }
            behaviour = Some((k, r));
            break;
        }
        if diff.is_some() {
            // one finding per cause: an observed difference in behaviour is part of the report
            let seen = match &behaviour {
                Some((k, r)) => format!(
                    "; under {} the original -> {}, the round-tripped -> {}",
                    crate::run::binds_json(&sets[*k]),
                    base[*k].show(),
                    r.show()
                ),
                None => String::new(),
            };
            out.push(Failure::new(
                format!("c19:{}:{}:bytecode-differs", f, class),
                format!("{} [{}]: the program read back differs silently: {} became {}{}", src, f, short(&canon), short(&canon2), seen),
                detail(json!({"format": f, "original": canon, "read_back": canon2, "behaviour_differs": behaviour.is_some()})),
            ));
            continue;
        }
        if let Some((k, r)) = behaviour {
            let mode_s = if r.is_panic() {
                "exec-panic-after-roundtrip"
            } else if order_dependent {
                "result-depends-on-map-layout"
            } else {
                "result-differs"
            };
            out.push(Failure::new(
                format!("c19:{}:{}:{}", f, class, mode_s),
                format!(
                    "{} [{}] under {}: original -> {}, round-tripped -> {} (same canonical bytecode)",
                    src,
                    f,
                    crate::run::binds_json(&sets[k]),
                    base[k].show(),
                    r.show()
                ),
                detail(json!({"format": f, "binding_index": k, "original_result": base[k].show(), "roundtrip_result": r.show()})),
            ));
        }
        // idempotence of the serialized form
        match ser_prog(fmt, &back) {
            Err((m, msg)) => out.push(Failure::new(
                format!("c19:{}:{}:reserialize-{}", f, class, m),
                format!("{} [{}]: the program read back cannot be serialized again: {}", src, f, msg),
                detail(json!({"format": f, "message": msg})),
            )),
            Ok(again) => {
                let same = if again == bytes {
                    true
                } else {
                    match fmt {
                        Fmt::Json => {
                            let (a, b) = (json_normal(&bytes), json_normal(&again));
                            a.is_some() && a == b
                        }
                        Fmt::Bincode => {
                            // entry order of maps and params is a HashMap artefact
                            (w.multi_map || params0.len() > 1)
                                && again.len() == bytes.len()
                                && byte_histogram(&again) == byte_histogram(&bytes)
                        }
                    }
                };
                if !same {
                    let shown = match fmt {
                        Fmt::Json => format!("{} vs {}", short(&String::from_utf8_lossy(&bytes)), short(&String::from_utf8_lossy(&again))),
                        Fmt::Bincode => format!("{} vs {} bytes", bytes.len(), again.len()),
                    };
                    out.push(Failure::new(
                        format!("c19:{}:{}:reserialize-differs", f, class),
                        format!("{} [{}]: serialize(deserialize(serialize(P))) differs from serialize(P): {}", src, f, shown),
                        detail(json!({"format": f})),
                    ));
                }
            }
        }
    }
    out
}

// ---------------------------------------------------------------------------
// Constant generator

fn ms_value(v: &V) -> V {
    match v {
        V::Ts(s, n) => V::Ts(*s, n - n % 1_000_000),
        V::Dur(n) => V::Dur(n - n % 1_000_000),
        V::List(l) => V::List(l.iter().map(ms_value).collect()),
        V::Map(m) => V::Map(m.iter().map(|(k, x)| (k.clone(), ms_value(x))).collect()),
        other => other.clone(),
    }
}

fn map_e(e: &E, f: &dyn Fn(&E) -> Option<E>) -> E {
    if let Some(r) = f(e) {
        return r;
    }
    let m = |x: &E| map_e(x, f);
    match e {
        E::Lit(_) | E::Var(_) => e.clone(),
        E::Not(n, x) => E::Not(*n, Box::new(m(x))),
        E::Neg(n, x) => E::Neg(*n, Box::new(m(x))),
        E::Bin(op, a, b) => E::Bin(*op, Box::new(m(a)), Box::new(m(b))),
        E::Tern(c, a, b) => E::Tern(Box::new(m(c)), Box::new(m(a)), Box::new(m(b))),
        E::List(l) => E::List(l.iter().map(m).collect()),
        E::Map(kv) => E::Map(kv.iter().map(|(k, v)| (m(k), m(v))).collect()),
        E::Index(a, i) => E::Index(Box::new(m(a)), Box::new(m(i))),
        E::Field(a, n) => E::Field(Box::new(m(a)), n.clone()),
        E::Call(fun, args) => E::Call(Box::new(m(fun)), args.iter().map(m).collect()),
        E::FStr(segs) => E::FStr(
            segs.iter()
                .map(|s| match s {
                    FSeg::Lit(l) => FSeg::Lit(l.clone()),
                    FSeg::Expr(x) => FSeg::Expr(m(x)),
                })
                .collect(),
        ),
        E::Match(s, cases) => E::Match(
            Box::new(m(s)),
            cases
                .iter()
                .map(|(p, x)| {
                    let p2 = match p {
                        Pat::Cmp(op, pe) => Pat::Cmp(*op, m(pe)),
                        o => o.clone(),
                    };
                    (p2, m(x))
                })
                .collect(),
        ),
    }
}

/// round the nanosecond argument of every literal `duration(s, n)` down to whole milliseconds
/// (time literals are rendered as `timestamp(s) + duration(0, n)` / `duration(s, n)`)
fn ms_expr(e: &E) -> E {
    map_e(e, &|x| {
        if let E::Call(f, args) = x {
            if matches!(f.as_ref(), E::Var(n) if n == "duration") && args.len() == 2 {
                if let E::Lit(V::Int(n)) = &args[1] {
                    if n % 1_000_000 != 0 {
                        return Some(call("duration", vec![ms_expr(&args[0]), E::Lit(V::Int(n - n % 1_000_000))]));
                    }
                }
            }
        }
        None
    })
}

const TS_TEXTS: &[&str] = &[
    "2024-01-10T08:57:45.123Z",
    "2024-01-10T08:57:45Z",
    "1969-12-31T23:59:59.999Z",
    "2024-02-29T12:00:00.5+05:30",
    "0001-01-01T00:00:00Z",
    "9999-12-31T23:59:59.999Z",
    "1970-01-01T00:00:00.001Z",
];

const DUR_TEXTS: &[&str] = &["1h", "90s", "2h30m", "1d", "1ms", "1500ms", "1h1m1s", "0s", "250ms"];

const TYPE_IDENTS: &[&str] = &[
    "int", "uint", "double", "float", "bool", "string", "bytes", "type", "timestamp", "duration", "null_type",
];

fn c_type(g: &mut G) -> E {
    match g.below(3) {
        0 | 1 => var(g.pick_str(TYPE_IDENTS)),
        _ => call("type", vec![gen_const(g, 0)]),
    }
}

fn c_ts(g: &mut G) -> E {
    match g.below(4) {
        0 => {
            let (s, _) = gen_ts(g);
            call("timestamp", vec![E::from_value(&V::Int(s))])
        }
        1 => {
            let (s, n) = gen_ts(g);
            E::from_value(&V::Ts(s, n - n % 1_000_000))
        }
        2 => {
            // RFC 3339 text with a millisecond fraction, 1900..2100
            let s = -2208988800i64 + (g.u64() % 6311520000) as i64;
            let ms = g.below(1000) as u32;
            match ts_to_chrono(s, ms * 1_000_000) {
                Some(t) => call("timestamp", vec![slit(&t.to_rfc3339_opts(chrono::SecondsFormat::Millis, true))]),
                None => call("timestamp", vec![ilit(0)]),
            }
        }
        _ => call("timestamp", vec![slit(g.pick_str(TS_TEXTS))]),
    }
}

fn c_dur(g: &mut G) -> E {
    match g.below(4) {
        0 => call("duration", vec![slit(g.pick_str(DUR_TEXTS))]),
        1 => {
            let d = clamp_dur(gen_dur(g));
            E::from_value(&V::Dur(d - d % 1_000_000))
        }
        2 => call("duration", vec![E::from_value(&V::Int(g.range(-100_000, 100_000)))]),
        _ => bin(Op::Sub, c_ts(g), c_ts(g)),
    }
}

/// constant expressions that evaluate to an error (which of them the compiler folds into an
/// error constant is measured, not assumed: see the const:err:* classes)
fn err_pool() -> Vec<E> {
    let s = |x: &str| slit(x);
    vec![
        bin(Op::Div, ilit(1), ilit(0)),
        bin(Op::Rem, ilit(1), ilit(0)),
        bin(Op::Div, E::Lit(V::UInt(1)), E::Lit(V::UInt(0))),
        bin(Op::Add, ilit(1), s("a")),
        E::Index(Box::new(E::List(vec![ilit(1)])), Box::new(ilit(5))),
        call("int", vec![s("x")]),
        E::Field(Box::new(E::Map(vec![])), "a".into()),
        E::Index(Box::new(E::Map(vec![])), Box::new(s("a"))),
        call("min", vec![]),
        E::Neg(1, Box::new(s("a"))),
        E::Not(1, Box::new(ilit(1))),
        bin(Op::Add, E::Lit(V::Int(i64::MAX)), ilit(1)),
        bin(Op::Sub, E::Lit(V::UInt(0)), E::Lit(V::UInt(1))),
        call("timestamp", vec![s("bogus")]),
        call("duration", vec![s("bogus")]),
        call("uint", vec![E::from_value(&V::Int(-1))]),
        method(s("a"), "nosuch", vec![]),
        call("nosuchfn", vec![ilit(1)]),
        method(ilit(1), "size", vec![]),
        call("bytes", vec![ilit(1)]),
        bin(Op::Lt, ilit(1), s("a")),
        bin(Op::In, ilit(1), ilit(2)),
        call("sqrt", vec![s("a")]),
        call("uomConvert", vec![ilit(1), s("kg"), s("nope")]),
        method(s("a"), "matches", vec![s("(")]),
        call("zip", vec![ilit(1)]),
        E::Index(Box::new(s("abc")), Box::new(ilit(1))),
        call("double", vec![s("x")]),
        call("bool", vec![s("x")]),
        E::Map(vec![(ilit(1), ilit(2))]),
        method(E::List(vec![ilit(1)]), "map", vec![var("x"), bin(Op::Div, var("x"), ilit(0))]),
        E::Tern(Box::new(s("a")), Box::new(ilit(1)), Box::new(ilit(2))),
        call("size", vec![ilit(1)]),
        call("abs", vec![s("a")]),
        call("string", vec![E::Lit(V::Bytes(vec![0xff, 0xfe]))]),
        // a failing call is folded only inside a macro body; indexing brings the error to the top
        in_macro(call("min", vec![])),
        in_macro(call("size", vec![ilit(1)])),
        in_macro(method(s("a"), "nosuch", vec![])),
        in_macro(call("int", vec![s("x")])),
        in_macro(call("timestamp", vec![s("bogus")])),
        in_macro(call("uomConvert", vec![ilit(1), s("kg"), s("nope")])),
    ]
}

/// `[1].map(x, [e])[0][0]`
fn in_macro(e: E) -> E {
    let m = method(E::List(vec![ilit(1)]), "map", vec![var("x"), E::List(vec![e])]);
    E::Index(Box::new(E::Index(Box::new(m), Box::new(ilit(0)))), Box::new(ilit(0)))
}

fn c_err(g: &mut G) -> E {
    let p = err_pool();
    g.pick(&p).clone()
}

/// Like `E::from_value`, but negative numbers are written as a subtraction from zero, which
/// the compiler folds into one constant (a unary minus is compiled to a NEG instruction).
fn folded_num(v: &V) -> E {
    let fl = |x: f64| E::Lit(V::F(x));
    match v {
        V::Int(i) if *i == i64::MIN => bin(Op::Sub, bin(Op::Sub, ilit(0), E::Lit(V::Int(i64::MAX))), ilit(1)),
        V::Int(i) if *i < 0 => bin(Op::Sub, ilit(0), E::Lit(V::Int(-*i))),
        V::F(f) if f.is_nan() || *f == f64::INFINITY => E::from_value(v),
        V::F(f) if *f == f64::NEG_INFINITY => bin(Op::Div, bin(Op::Sub, fl(0.0), fl(1.0)), fl(0.0)),
        V::F(f) if *f == 0.0 && f.is_sign_negative() => bin(Op::Mul, bin(Op::Sub, fl(0.0), fl(1.0)), fl(0.0)),
        V::F(f) if f.is_sign_negative() => bin(Op::Sub, fl(0.0), fl(-*f)),
        _ => E::from_value(v),
    }
}

fn num_const(g: &mut G, v: V) -> E {
    if g.below(4) == 0 {
        E::from_value(&v)
    } else {
        folded_num(&v)
    }
}

const ARITH: &[Op] = &[Op::Add, Op::Sub, Op::Mul, Op::Div, Op::Rem];
const REL: &[Op] = &[Op::Lt, Op::Le, Op::Gt, Op::Ge, Op::Eq, Op::Ne];

/// A closed (variable-free) expression; the compiler folds most of them into one Push.
fn gen_const(g: &mut G, depth: u32) -> E {
    let kinds = if depth == 0 { 13 } else { 19 };
    match g.below(kinds) {
        0 => {
            let v = V::Int(gen_int(g));
            num_const(g, v)
        }
        1 => E::from_value(&V::UInt(gen_uint(g))),
        2 | 3 => {
            let v = V::F(gen_f64(g));
            num_const(g, v)
        }
        4 => E::Lit(V::Bool(g.flag())),
        5 => E::Lit(V::Str(gen_string(g, 6))),
        6 => E::Lit(V::Bytes(gen_bytes(g, 6))),
        7 => E::Lit(V::Null),
        8 => c_type(g),
        9 => c_ts(g),
        10 => c_dur(g),
        11 | 12 => c_err(g),
        13 | 14 => {
            let n = g.below(4);
            E::List((0..n).map(|_| gen_const(g, depth - 1)).collect())
        }
        15 | 16 => {
            let n = g.below(4);
            E::Map((0..n).map(|_| (slit(g.pick_str(KEY_ALPHABET)), gen_const(g, depth - 1))).collect())
        }
        17 => {
            let op = if g.flag() { *g.pick(ARITH) } else { *g.pick(REL) };
            bin(op, gen_const(g, depth - 1), gen_const(g, depth - 1))
        }
        _ => match g.below(6) {
            0 => call("size", vec![gen_const(g, depth - 1)]),
            1 => call("string", vec![gen_const(g, depth - 1)]),
            2 => call("dyn", vec![gen_const(g, depth - 1)]),
            3 => E::Index(
                Box::new(E::List(vec![gen_const(g, depth - 1), gen_const(g, depth - 1)])),
                Box::new(ilit(g.range(-1, 2))),
            ),
            4 => E::Tern(
                Box::new(E::Lit(V::Bool(g.flag()))),
                Box::new(gen_const(g, depth - 1)),
                Box::new(gen_const(g, depth - 1)),
            ),
            _ => call("bytes", vec![E::Lit(V::Str(gen_string(g, 4)))]),
        },
    }
}

// ---------------------------------------------------------------------------
// Constant-rich generator: every construct, with constants and variable parts

const ENV_NAMES: &[&str] = &["i", "j", "u", "d", "p", "q", "s", "t", "y", "l", "ls", "m", "ts", "du", "n", "zz"];

struct Rich {
    fuel: i32,
}

fn unsafe_in_placeholder(e: &E) -> bool {
    render_min(e).contains(['{', '}', '"', '\\', '\''])
}

impl Rich {
    fn leaf(&mut self, g: &mut G, vars: &[String]) -> E {
        if g.below(3) == 0 {
            var(&g.pick(vars).clone())
        } else {
            gen_const(g, 1)
        }
    }

    fn list_src(&mut self, g: &mut G, vars: &[String], d: u32) -> E {
        match g.below(3) {
            0 => var(g.pick_str(&["l", "ls"])),
            _ => {
                let n = g.below(4);
                E::List((0..n).map(|_| self.e(g, vars, d.min(1))).collect())
            }
        }
    }

    fn pattern_operand(&mut self, g: &mut G, vars: &[String]) -> (Option<Op>, E) {
        let e = if g.below(4) == 0 { var(&g.pick(vars).clone()) } else { gen_const(g, 0) };
        let op = if g.flag() { Some(*g.pick(REL)) } else { None };
        let head: String = render_min(&e).chars().take_while(|c| c.is_ascii_alphanumeric() || *c == '_').collect();
        if op.is_none() && (is_type_name(&head) || head == "_") {
            (Some(Op::Eq), e)
        } else {
            (op, e)
        }
    }

    fn e(&mut self, g: &mut G, vars: &[String], depth: u32) -> E {
        self.fuel -= 1;
        if depth == 0 || self.fuel <= 0 || g.below(8) == 0 {
            return self.leaf(g, vars);
        }
        let d = depth - 1;
        match g.below(22) {
            0 | 1 => {
                let n = 1 + g.below(3);
                E::List((0..n).map(|_| self.e(g, vars, d)).collect())
            }
            2 | 3 => {
                let n = 1 + g.below(3);
                E::Map(
                    (0..n)
                        .map(|_| {
                            let k = if g.below(4) == 0 { var(g.pick_str(&["s", "t"])) } else { slit(g.pick_str(KEY_ALPHABET)) };
                            (k, self.e(g, vars, d))
                        })
                        .collect(),
                )
            }
            4 => bin(*g.pick(ARITH), self.e(g, vars, d), self.e(g, vars, d)),
            5 => bin(*g.pick(REL), self.e(g, vars, d), self.e(g, vars, d)),
            6 => bin(*g.pick(&[Op::Or, Op::And]), self.e(g, vars, d), self.e(g, vars, d)),
            7 => {
                if g.flag() {
                    E::Not(1 + g.below(2) as u8, Box::new(self.e(g, vars, d)))
                } else {
                    E::Neg(1 + g.below(2) as u8, Box::new(self.e(g, vars, d)))
                }
            }
            8 => {
                let c = if g.flag() { var(g.pick_str(&["p", "q", "i", "n"])) } else { self.e(g, vars, d) };
                E::Tern(Box::new(c), Box::new(self.e(g, vars, d)), Box::new(self.e(g, vars, d)))
            }
            9 => {
                let idx = match g.below(3) {
                    0 => var(g.pick_str(&["i", "j", "s"])),
                    1 => ilit(g.range(-2, 3)),
                    _ => self.e(g, vars, d),
                };
                E::Index(Box::new(self.e(g, vars, d)), Box::new(idx))
            }
            10 => {
                let base = if g.flag() { var("m") } else { self.e(g, vars, d) };
                E::Field(Box::new(base), g.pick_str(&["a", "b", "k", "size"]).to_string())
            }
            11 | 12 => {
                let f = g.pick_str(&["size", "string", "type", "dyn", "int", "uint", "double", "bool", "bytes", "max", "min", "abs", "coalesce"]);
                let n = match f {
                    "max" | "min" | "coalesce" => 1 + g.below(3),
                    _ => 1,
                };
                call(f, (0..n).map(|_| self.e(g, vars, d)).collect())
            }
            13 => match g.below(4) {
                0 => call("has", vec![E::Field(Box::new(var("m")), g.pick_str(&["a", "b", "zz"]).to_string())]),
                // timestamp(null) reads the clock: the argument is forced to be an int or an error
                1 => call("timestamp", vec![call("int", vec![self.e(g, vars, d)])]),
                2 => call("duration", vec![call("int", vec![self.e(g, vars, d)])]),
                _ => call("zip", vec![self.e(g, vars, d), self.e(g, vars, d)]),
            },
            14 => {
                let f = g.pick_str(&["contains", "startsWith", "endsWith", "matches", "split"]);
                method(self.e(g, vars, d), f, vec![self.e(g, vars, d)])
            }
            15 => {
                let f = g.pick_str(&["size", "toLower", "toUpper", "trim", "sort", "getFullYear", "getHours", "getMilliseconds", "getSeconds"]);
                method(self.e(g, vars, d), f, vec![])
            }
            16 | 17 => {
                let x = g.pick_str(&["x", "e", "it"]).to_string();
                let range = self.list_src(g, vars, d);
                let mut inner: Vec<String> = vars.to_vec();
                inner.push(x.clone());
                inner.push(x.clone());
                let f = g.pick_str(&["map", "filter", "all", "exists", "exists_one"]);
                let body = self.e(g, &inner, d);
                if f == "map" && g.below(4) == 0 {
                    let second = self.e(g, &inner, d);
                    method(range, "map", vec![var(&x), body, second])
                } else {
                    method(range, f, vec![var(&x), body])
                }
            }
            18 => {
                let range = self.list_src(g, vars, d);
                let mut inner: Vec<String> = vars.to_vec();
                inner.push("acc".into());
                inner.push("x".into());
                let step = self.e(g, &inner, d);
                let seed = self.e(g, vars, d);
                method(range, "reduce", vec![var("acc"), var("x"), step, seed])
            }
            19 => {
                let n = 1 + g.below(3);
                let mut segs = Vec::new();
                for k in 0..n {
                    if k % 2 == 0 && g.flag() {
                        segs.push(FSeg::Lit(g.pick_str(&["a", "x=", " ", "{", "}", "é", "q'q", "日本"]).to_string()));
                    }
                    let e = self.e(g, vars, d.min(1));
                    if unsafe_in_placeholder(&e) {
                        segs.push(FSeg::Expr(var(&g.pick(vars).clone())));
                    } else {
                        segs.push(FSeg::Expr(e));
                    }
                }
                E::FStr(segs)
            }
            20 => {
                let scrut = self.e(g, vars, d);
                let n = 1 + g.below(3);
                let mut cases = Vec::new();
                for _ in 0..n {
                    let pat = match g.below(5) {
                        0 => Pat::Any,
                        1 => Pat::Type(g.pick_str(&["int", "uint", "float", "double", "string", "bool", "bytes", "timestamp", "duration"]).to_string()),
                        _ => {
                            let (op, pe) = self.pattern_operand(g, vars);
                            Pat::Cmp(op, pe)
                        }
                    };
                    cases.push((pat, self.e(g, vars, d)));
                }
                E::Match(Box::new(scrut), cases)
            }
            _ => bin(Op::In, self.e(g, vars, d), self.e(g, vars, d)),
        }
    }
}

fn gen_rich(g: &mut G) -> E {
    let vars: Vec<String> = ENV_NAMES.iter().map(|s| s.to_string()).collect();
    let mut r = Rich { fuel: 40 };
    let d = 1 + g.below(4) as u32;
    r.e(g, &vars, d)
}

// ---------------------------------------------------------------------------
// Cases

fn perturb(g: &mut G, env: &Env) -> Binds {
    let mut out = Vec::new();
    for v in env.vars.iter().filter(|v| !v.loop_var) {
        match g.below(5) {
            0 => {
                if let Some(x) = &v.value {
                    out.push((v.name.clone(), x.clone()));
                }
            }
            1 => {}
            2 => {
                let x = gen_value(g, 2);
                out.push((v.name.clone(), x));
            }
            _ => {
                let big = g.flag();
                let x = value_of_type(g, v.ty, big);
                out.push((v.name.clone(), x));
            }
        }
    }
    out
}

fn check_generated(genome: &[u8], acc: &mut Acc) -> Vec<Failure> {
    let mut g = G::new(genome);
    let mut cfg = Cfg::full();
    cfg.map_iter = false;
    cfg.clock = false;
    cfg.max_depth = 5;
    let mut env = gen_env(&mut g, &cfg);
    for v in env.vars.iter_mut() {
        if let Some(x) = &v.value {
            v.value = Some(ms_value(x));
        }
    }
    let (mode, e) = match g.below(8) {
        0 | 1 => ("const-only", gen_const(&mut g, 3)),
        2 | 3 | 4 => ("const-rich", gen_rich(&mut g)),
        _ => {
            let ty = *g.pick(&[Ty::Any, Ty::Bool, Ty::Int, Ty::Str, Ty::List, Ty::F, Ty::Map, Ty::Ts, Ty::Dur, Ty::Bytes]);
            let mut e = gen_expr(&mut g, &cfg, &env, ty);
            // fold some of the variables: replace them by literals of their values
            let fvs = free_vars(&e);
            for v in env.vars.iter().filter(|v| !v.loop_var) {
                if let Some(x) = &v.value {
                    if fvs.contains(&v.name) && g.flag() {
                        e = substitute(&e, &v.name, x);
                    }
                }
            }
            ("general+substitution", e)
        }
    };
    let e = ms_expr(&e);
    let src = render_min(&e);
    let sets = vec![env.bindings(), Vec::new(), perturb(&mut g, &env)];
    check_program(&src, &sets, "generated", mode, acc)
}

/// the grid: one program per constant class and per construct
fn grid() -> Vec<String> {
    let mut out: Vec<String> = Vec::new();
    let mut consts: Vec<String> = Vec::new();
    for i in int_pool() {
        consts.extend(V::Int(i).lit());
        consts.push(render_min(&folded_num(&V::Int(i))));
    }
    for u in uint_pool() {
        consts.extend(V::UInt(u).lit());
    }
    for f in f64_pool() {
        consts.extend(V::F(f).lit());
        consts.push(render_min(&folded_num(&V::F(f))));
    }
    for s in str_pool() {
        consts.extend(V::Str(s).lit());
    }
    for s in STR_ALPHABET {
        consts.extend(V::s(s).lit());
    }
    for b in bytes_pool() {
        consts.extend(V::Bytes(b).lit());
    }
    for (s, n) in ts_pool() {
        consts.extend(V::Ts(s, n - n % 1_000_000).lit());
    }
    for d in dur_pool() {
        consts.extend(V::Dur(d - d % 1_000_000).lit());
    }
    for t in TS_TEXTS {
        consts.push(format!("timestamp('{}')", t));
    }
    for t in DUR_TEXTS {
        consts.push(format!("duration('{}')", t));
    }
    consts.push("duration(1, 500000000)".into());
    consts.push("timestamp(1704877065)".into());
    for t in TYPE_IDENTS {
        consts.push(t.to_string());
    }
    for t in ["type(1)", "type(type(1))", "type([])", "type({})", "type(null)", "type(1.5)", "type(b'a')", "type(timestamp(0))", "type(duration(0))"] {
        consts.push(t.to_string());
    }
    for t in ["true", "false", "null", "[]", "{}", "[[]]", "[{}]", "{'a': {}}", "{'a': []}", "[1, 2u, 2.5, 'x', b'y', null, true, int, [1], {'k': 1}]",
              "{'a': 1, 'b': [2u, {'c': -0.0}], 'é': 'ü', '': null, 'x y': b'\\xff\\xfe'}", "[[[[1.5]]]]", "{'a': {'a': {'a': {'a': 'deep'}}}}"] {
        consts.push(t.to_string());
    }
    for e in err_pool() {
        consts.push(render_min(&e));
    }
    for c in &consts {
        out.push(c.clone());
        out.push(format!("[{}, v]", c));
        out.push(format!("{{'k': {}, 'j': [{}]}}", c, c));
        out.push(format!("v ? ({}) : [{}]", c, c));
        out.push(format!("[1, 2].map(x, [x, {}])", c));
        out.push(format!("v == ({})", c));
    }
    // one program per bytecode-producing construct, with variable parts
    for s in [
        "v", "!v", "-v", "!!v", "--v", "v + 1", "v - 1", "v * 2", "v / 2", "v % 2", "1 / v", "v < 1", "v <= 1", "v > 1", "v >= 1",
        "v == 1", "v != 1", "v in [1, 2]", "v in {'a': 1}", "'a' in w", "v || true", "v && false", "v || w", "v && w", "true || v",
        "false && v", "v ? 1 : 2", "v ? w : 2.5", "true ? v : 2", "v ? (w ? 1 : 2) : 3", "[v]", "[v, 2.5, 'x']", "[[v], [w]]",
        "{'a': v}", "{'k': v, 'j': [1u]}", "{w: v}", "{'a': v}.a", "{'a': v}['a']", "[1, v][0]", "[1, 2][v]", "w[0]", "w.a", "w.a.b",
        "v.size", "size(v)", "v.size()", "size(w)", "string(v)", "type(v)", "dyn(v)", "int(v)", "max(v, 1)", "min(v, 1, 2)",
        "w.contains('a')", "'abc'.contains(w)", "w.startsWith('a')", "w.matches('a+')", "w.split(',')", "timestamp(int(v))",
        "duration(int(v))", "timestamp(1704877065).getFullYear()", "timestamp(int(v)).getFullYear('US/Pacific')", "has(w.a)",
        "has(w.a.b)", "coalesce(v, 1)", "coalesce(null, v, 2)", "[1, 2].map(x, x + v)", "[1, 2].map(x, x > v, x * 2)",
        "[1, 2].filter(x, x > v)", "[1, 2].all(x, x > v)", "[1, 2].exists(x, x == v)", "[1, 2].exists_one(x, x == v)",
        "[1, 2].reduce(acc, x, acc + x + v, 0)", "[[1.5, 'a'], [b'\\xff']].map(x, x[0])", "[1, 2].map(x, [3, 4].map(y, x * y + v))",
        "w.map(x, x)", "f'a{v}'", "f'a{v}b{w}c'", "f'{{literal}} {v}'", "f'é{v}日本'", "f'{v + 1}'", "f'{1.5}{v}'",
        "match v { case 1: 'one', case int: 'int', case _: 'other' }", "match v { case > 2: 1.5, case <= 2: -0.0 }",
        "match v { case string: b'\\xff', case 'a': 1/0, case _: [1/0] }", "match w { case 'a': v, case _: null }",
        "match v { case 1.5: timestamp(0), case float: duration('1h'), case _: int }",
        "v ? 1/0 : 2", "[1, 2].map(x, 1/0)", "[1, 2].map(x, x / v)", "v || 1/0", "coalesce(1/0, v)", "[1/0, v]", "{'a': 1/0, 'b': v}",
        "f'{v}{1.0/0.0}'", "v + 1.0/0.0", "[0.0/0.0, v]", "v ? 0.0/0.0 : -1.0/0.0", "[1, 2].map(x, x * (1.0/0.0))",
        "v == timestamp('2024-01-10T08:57:45.123Z')", "timestamp(int(v)) + duration('1h')", "[duration(1, 500000000), v]",
        "zz", "zz + v", "zz.a", "[zz]",
        // map constants as macro ranges, bodies that fail differently per key (the visiting order would decide)
        "{'p': 0, 'q': 1, 'r': 2}.map(k, [v][{'p': 0, 'q': 1, 'r': 2}[k]])",
        "{'p': 0, 'q': 1, 'r': 2}.filter(k, 10 / {'p': 0, 'q': 1, 'r': 2}[k] > 20 || [v][3])",
        "{'p': 0, 'q': 1, 'r': 2}.all(k, 10 / {'p': 0, 'q': 1, 'r': 2}[k] > 20 && [v][0] == v)",
        "{'p': 0, 'q': 1, 'r': 2}.exists(k, 10 / {'p': 0, 'q': 1, 'r': 2}[k] < 20 && [v][0] == v)",
        "{'p': 0, 'q': 1, 'r': 2}.exists_one(k, 10 / {'p': 0, 'q': 1, 'r': 2}[k] < 20 && [v][0] == v)",
        "{'p': 0, 'q': 1, 'r': 2}.reduce(a, k, a + [10 / {'p': 0, 'q': 1, 'r': 2}[k], v][0], 0)",
        "[{'p': 0, 'q': 1, 'r': 2, 's': 3}, v].map(x, string(x))",
        "[{'b': 1, 'a': 2, 'c': 3} == {'b': 1 / 0, 'a': 3, 'c': 3}, v]",
    ] {
        out.push(s.to_string());
    }
    // outside the domain (sub-millisecond time constants): measured as skipped, only "no panic"
    for s in ["timestamp('2024-01-10T08:57:45.123456Z')", "duration(0, 1)", "timestamp(0) + duration(0, 1500)", "[duration(1, 500000001), v]"] {
        out.push(s.to_string());
    }
    out.sort();
    out.dedup();
    out
}

fn grid_bindings() -> Vec<Binds> {
    let mut m = BTreeMap::new();
    m.insert("a".to_string(), V::Int(1));
    let mut m2 = BTreeMap::new();
    let mut inner = BTreeMap::new();
    inner.insert("b".to_string(), V::s("x"));
    m2.insert("a".to_string(), V::Map(inner));
    vec![
        vec![("v".to_string(), V::Int(1)), ("w".to_string(), V::Map(m))],
        vec![],
        vec![("v".to_string(), V::Bool(true)), ("w".to_string(), V::s("a,b"))],
        vec![("v".to_string(), V::F(2.5)), ("w".to_string(), V::Map(m2))],
        vec![("v".to_string(), V::s("a")), ("w".to_string(), V::List(vec![V::Int(3), V::Int(4)]))],
    ]
}

fn run(opts: &Opts, acc: &mut Acc) {
    let g = grid();
    let sets = grid_bindings();
    par_chunks(acc, opts.threads, &g, |src, a| {
        for f in check_program(src, &sets, "grid", "grid", a) {
            a.fail(f);
        }
    });
    acc.mark_exhaustive(
        "grid",
        "every boundary-pool constant of every value type and every error-producing constant expression, alone and inside a list, \
         a map, a branch, a macro body and a comparison; one program per bytecode-producing construct; 5 bindings each",
    );
    let n = opts.tier.pick(200_000, 5_000_000);
    random_genomes(acc, opts, "generated", n, 400, |gn, a| check_generated(gn, a));
    // which variants never occurred (a generator bug if a variant the compiler can emit is missing)
    let missing_bc: Vec<&str> = ALL_BC.iter().copied().filter(|n| !acc.classes.contains_key(&format!("bc:{}", n))).collect();
    let missing_cel: Vec<&str> = [
        "Int", "UInt", "Float", "Bool", "String", "Bytes", "List", "Map", "Null", "Ident", "Type", "TimeStamp", "Duration", "ByteCode", "Err",
    ]
    .iter()
    .copied()
    .filter(|n| !acc.classes.contains_key(&format!("cel:{}", n)))
    .collect();
    acc.note("bytecode_variants_never_seen", json!(missing_bc));
    acc.note("celvalue_variants_never_seen", json!(missing_cel));
}

fn replay(_opts: &Opts, d: &Value, acc: &mut Acc) {
    let d = d.get("detail").unwrap_or(d);
    if let Some(src) = d.get("source").and_then(|s| s.as_str()) {
        let mut sets: Vec<Binds> = Vec::new();
        if let Some(arr) = d.get("bindings").and_then(|b| b.as_array()) {
            for set in arr {
                let mut b: Binds = Vec::new();
                for kv in set.as_array().map(|a| a.as_slice()).unwrap_or(&[]) {
                    if let (Some(k), Some(v)) = (kv.get(0).and_then(|k| k.as_str()), kv.get(1).and_then(super::c03::vunjson)) {
                        b.push((k.to_string(), v));
                    }
                }
                sets.push(b);
            }
        }
        if sets.is_empty() {
            sets.push(Vec::new());
        }
        for f in check_program(src, &sets, "replay", "replay", acc) {
            acc.fail(f);
        }
        return;
    }
    if let Some(hex) = d.get("genome_hex").and_then(|h| h.as_str()) {
        for f in check_generated(&crate::engine::unhex(hex), acc) {
            acc.fail(f);
        }
        return;
    }
    acc.inconclusive.push("C19 replay file has neither source nor genome_hex".to_string());
}

/// libFuzzer entry: one generated program through both formats
pub fn fuzz_case(genome: &[u8], acc: &mut Acc) -> Vec<Failure> {
    check_generated(genome, acc)
}
