//! C18 — syntax-tree spans are exact and nested; syntax errors point inside the source.
//!
//! Every source (generated, enumerated or corrupted) goes through one function,
//! `check_source`, whose verdict depends on the source text alone:
//!   (c) the tokenizer is run over the whole text: token spans lie inside the source, are
//!       non-empty, strictly increasing and non-overlapping, and re-lexing exactly the spanned
//!       text gives exactly one token equal to the original;
//!   then the text is compiled;
//!   (a)(b) if it compiles, the exposed tree is walked (`astn::walk`) and every span is
//!       converted from (line, column-in-characters) to byte offsets with an independent
//!       line/character count: inside the source, start <= end; expression nodes are contained
//!       in their enclosing expression node, have no surrounding white space, siblings are
//!       disjoint and in source order, the root equals the source trimmed of white space, and
//!       compiling the spanned text on its own gives a tree of the same `Shape`;
//!   (d) if it is rejected with `CelError::Syntax`, 0 <= line < number of lines and
//!       0 <= col <= characters in that line. Any other outcome asserts nothing.

use super::Prop;
use crate::astn::{shape_of, walk, Kind, SpanNode};
use crate::engine::{guard, par_chunks, random_genomes, Acc, Failure, Opts};
use crate::expr::*;
use crate::g::G;
use crate::gen::{gen_env, gen_expr, Cfg, Ty};
use crate::run::{compile, Res2};
use rscel::{CelError, StringTokenizer, Tokenizer};
use serde_json::{json, Value};
use std::collections::{BTreeMap, BTreeSet};

pub static PROP: Prop = Prop {
    id: "C18",
    rule: "exhaustive: every single-token source (all punctuation, keywords, literal spellings, identifiers, illegal \
           characters) in 7 white-space surroundings; every binary operator between an identifier / non-ASCII string and \
           an identifier with 0/1/2 spaces/newlines on each side; a list of fixed multi-line layouts, each also truncated \
           at every character offset. random: full-language expressions (generator of C09/C10/C17, optionally wrapped so \
           that a non-ASCII string literal precedes the expression) rendered with random redundant parentheses and random \
           runs of space/tab/newline, string literals optionally re-spelled with raw newlines/tabs and single quotes; each \
           valid source is then corrupted (delete / duplicate / swap / replace / insert a vocabulary token, truncate, \
           insert an illegal character; 7 per source) and truncated at 12 (quick) / 64 (thorough) evenly spread character offsets. Every source, valid or not, gets the \
           token check; compiled ones the span checks; CelError::Syntax outcomes the location check. Non-trivial = a \
           compiled multi-line or non-ASCII source with >= 3 distinct (non-wrapper) expression nodes, or a corrupted source \
           that is rejected with a syntax error after at least one token was lexed; distinct by source text.",
    assumptions: &[
        "line/column are 0-based, columns count characters, '\\n' ends a line (string_scanner.rs); number of lines = count('\\n') + 1",
        "white space is space, tab and newline only (the tokenizer's set)",
        "a wrapper level with a single child (Expr::Unary(ConditionalOr::Unary(..)) chains, a Member without postfix) denotes the \
         same sub-expression as its child, so its exact span equals the child's; exactness is then checked on the child only",
        "NotList/NegList, MemberPrime, ExprList, ObjInits, ObjInit, MatchCase and field identifiers are only required to lie inside \
         the source; match pattern nodes are not checked (the expression inside a comparison pattern is)",
        "tokens are compared through their Debug text (the type is not nameable)",
        "a panic outside the parser files (constant folding) belongs to C01 and is skipped here",
    ],
    run,
    replay,
    both_profiles: |_| false,
};

// ---------------------------------------------------------------------------
// independent (line, col-in-chars) -> byte offset conversion

struct LineIndex {
    /// byte offset of the first character of each line
    starts: Vec<usize>,
    /// byte offset just after the last character of each line (before its '\n')
    ends: Vec<usize>,
    /// characters in each line, not counting the terminating '\n'
    chars: Vec<usize>,
}

impl LineIndex {
    fn new(src: &str) -> LineIndex {
        let mut starts = vec![0usize];
        let mut ends = Vec::new();
        let mut chars = Vec::new();
        let mut n = 0usize;
        for (i, c) in src.char_indices() {
            if c == '\n' {
                ends.push(i);
                chars.push(n);
                n = 0;
                starts.push(i + 1);
            } else {
                n += 1;
            }
        }
        ends.push(src.len());
        chars.push(n);
        LineIndex { starts, ends, chars }
    }

    fn lines(&self) -> usize {
        self.starts.len()
    }

    /// byte offset of (line, col); None if the location is not inside the source (or at the
    /// end of one of its lines)
    fn byte(&self, src: &str, line: usize, col: usize) -> Option<usize> {
        if line >= self.starts.len() || col > self.chars[line] {
            return None;
        }
        let (s, e) = (self.starts[line], self.ends[line]);
        if col == self.chars[line] {
            return Some(e);
        }
        if e - s == self.chars[line] {
            return Some(s + col); // ASCII line
        }
        src[s..e].char_indices().nth(col).map(|(i, _)| s + i)
    }
}

type R4 = (usize, usize, usize, usize);

fn is_ws(c: char) -> bool {
    c == ' ' || c == '\t' || c == '\n'
}

fn r4_json(r: R4) -> Value {
    json!({"start": [r.0, r.1], "end": [r.2, r.3]})
}

// ---------------------------------------------------------------------------
// (c) tokens

struct Lexed {
    /// (Debug text of the token, span)
    toks: Vec<(String, R4)>,
    /// location of the tokenizer's syntax error, if it stopped with one
    err: Option<(usize, usize)>,
    panic: Option<String>,
}

fn lex(src: &str) -> Lexed {
    let r = guard(|| {
        let mut out = Vec::new();
        let mut err = None;
        let mut t = StringTokenizer::with_input(src);
        // a token consumes at least one character: the bound only guards against a tokenizer
        // that stops making progress
        for _ in 0..src.len() + 2 {
            match t.next() {
                Ok(Some(tok)) => out.push((format!("{:?}", tok.token), crate::astn::rng(tok.loc))),
                Ok(None) => break,
                Err(e) => {
                    err = Some((e.loc().line(), e.loc().col()));
                    break;
                }
            }
        }
        (out, err)
    });
    match r {
        Ok((toks, err)) => Lexed { toks, err, panic: None },
        Err(p) => Lexed {
            toks: Vec::new(),
            err: None,
            panic: Some(format!("{} @ {}", p.msg, p.loc)),
        },
    }
}

fn check_tokens(src: &str, idx: &LineIndex, lx: &Lexed, out: &mut Vec<Failure>) {
    let mut prev_end = 0usize;
    for (k, (dbg, r)) in lx.toks.iter().enumerate() {
        let det = |what: &str| json!({"kind": "source", "source": src, "token": dbg, "token_index": k, "span": r4_json(*r), "problem": what});
        let (s, e) = match (idx.byte(src, r.0, r.1), idx.byte(src, r.2, r.3)) {
            (Some(s), Some(e)) => (s, e),
            _ => {
                out.push(Failure::new(
                    "c18:token:outside-source",
                    format!("{:?}: token #{} {} has span {:?} which is not inside the source", src, k, dbg, r),
                    det("outside"),
                ));
                return;
            }
        };
        if s >= e {
            out.push(Failure::new(
                "c18:token:empty-or-reversed-span",
                format!("{:?}: token #{} {} has span {:?} (bytes {}..{})", src, k, dbg, r, s, e),
                det("empty"),
            ));
            return;
        }
        if k > 0 && s < prev_end {
            out.push(Failure::new(
                "c18:token:overlaps-previous",
                format!("{:?}: token #{} {} starts at byte {} before the previous token's end {}", src, k, dbg, s, prev_end),
                det("overlap"),
            ));
            return;
        }
        prev_end = e;
        let text = &src[s..e];
        let re = lex(text);
        let same = re.panic.is_none() && re.err.is_none() && re.toks.len() == 1 && re.toks[0].0 == *dbg;
        if !same {
            let mode = if re.panic.is_some() {
                "relex-panic"
            } else if re.err.is_some() {
                "relex-error"
            } else if re.toks.len() != 1 {
                "relex-token-count"
            } else {
                "relex-different-token"
            };
            out.push(Failure::new(
                format!("c18:token:{}", mode),
                format!(
                    "{:?}: token #{} {} spans {:?} = {:?}, which re-lexes to {:?}{}",
                    src,
                    k,
                    dbg,
                    r,
                    text,
                    re.toks.iter().map(|t| t.0.clone()).collect::<Vec<_>>(),
                    if re.err.is_some() { " + error" } else { "" }
                ),
                det(mode),
            ));
            return;
        }
    }
}

// ---------------------------------------------------------------------------
// (d) error locations

fn check_error_loc(src: &str, idx: &LineIndex, line: usize, col: usize, from: &str, out: &mut Vec<Failure>) {
    // an f-string's placeholders are compiled by a sub-tokenizer: keep that class apart
    let class = if src.contains("f\"") || src.contains("f'") { "fstring-source" } else { "plain-source" };
    let det = || json!({"kind": "source", "source": src, "reported": [line, col], "lines": idx.lines(), "reported_by": from});
    if line >= idx.lines() {
        out.push(Failure::new(
            format!("c18:error:{}:line-out-of-range", class),
            format!("{:?}: syntax error ({}) at line {} col {}, but the source has {} line(s)", src, from, line, col, idx.lines()),
            det(),
        ));
    } else if col > idx.chars[line] {
        out.push(Failure::new(
            format!("c18:error:{}:col-out-of-range", class),
            format!(
                "{:?}: syntax error ({}) at line {} col {}, but that line has {} character(s)",
                src, from, line, col, idx.chars[line]
            ),
            det(),
        ));
    }
}

// ---------------------------------------------------------------------------
// (a)(b) spans

fn sub_shape(text: &str) -> Result<Shape, (&'static str, String)> {
    match compile(text) {
        Res2::Ok(p) => match p.ast() {
            Some(a) => Ok(shape_of(a)),
            None => Err(("subtext-rejected", "no ast".into())),
        },
        Res2::Err(e) => Err(("subtext-rejected", format!("{}", e))),
        Res2::Panic(p) => Err(("subtext-panic", p.msg)),
    }
}

/// returns the number of distinct (non-wrapper) expression nodes
fn check_spans(src: &str, idx: &LineIndex, nodes: &[SpanNode], out: &mut Vec<Failure>) -> usize {
    let n = nodes.len();
    let det = |nd: &SpanNode, extra: Value| json!({"kind": "source", "source": src, "node": nd.label, "span": r4_json(nd.range), "info": extra});
    // nearest enclosing expression node (looking through Part / OpRun / Pattern levels)
    let mut eparent: Vec<Option<usize>> = vec![None; n];
    for i in 0..n {
        let mut p = nodes[i].parent;
        while let Some(pi) = p {
            if pi >= n || nodes[pi].kind == Kind::Expr {
                break;
            }
            p = nodes[pi].parent;
        }
        eparent[i] = p.filter(|pi| *pi < n);
    }
    // operand children of every expression node, in walker (= source) order
    let mut kids: BTreeMap<usize, Vec<usize>> = BTreeMap::new();
    for i in 0..n {
        if nodes[i].kind == Kind::Expr {
            if let Some(p) = eparent[i] {
                kids.entry(p).or_default().push(i);
            }
        }
    }
    let only_child = |i: usize| -> Option<usize> {
        if !nodes[i].transparent {
            return None;
        }
        kids.get(&i).and_then(|v| if v.len() == 1 { v.first().copied() } else { None })
    };
    // (a) inside the source, start <= end. Children come after their parents in `nodes`, so
    // going backwards a wrapper whose reported range is identical to its only child's simply
    // inherits the child's verdict (one defect in a token span is then reported once, at the
    // deepest node, not once per wrapper level).
    let mut bytes: Vec<Option<(usize, usize)>> = vec![None; n];
    let mut alias = vec![false; n];
    for i in (0..n).rev() {
        let nd = &nodes[i];
        if nd.kind == Kind::Pattern {
            continue;
        }
        if let Some(c) = only_child(i) {
            if nodes[c].range == nd.range {
                bytes[i] = bytes[c];
                alias[i] = true;
                continue;
            }
        }
        let r = nd.range;
        match (idx.byte(src, r.0, r.1), idx.byte(src, r.2, r.3)) {
            (Some(s), Some(e)) if s <= e => bytes[i] = Some((s, e)),
            (Some(s), Some(e)) => {
                out.push(Failure::new(
                    format!("c18:span:{}:start-after-end", nd.label),
                    format!("{:?}: {} node has span {:?} (bytes {}..{})", src, nd.label, r, s, e),
                    det(nd, json!(null)),
                ));
            }
            _ => {
                out.push(Failure::new(
                    format!("c18:span:{}:outside-source", nd.label),
                    format!("{:?}: {} node has span {:?}, which is not inside the source", src, nd.label, r),
                    det(nd, json!(null)),
                ));
            }
        }
    }
    let mut distinct = 0usize;
    for i in 0..n {
        let nd = &nodes[i];
        if nd.kind != Kind::Expr {
            continue;
        }
        let Some((s, e)) = bytes[i] else { continue };
        // contained in the enclosing expression
        if let Some(p) = eparent[i] {
            if let Some((ps, pe)) = bytes[p] {
                if s < ps || e > pe {
                    out.push(Failure::new(
                        format!("c18:span:{}:not-in-parent", nd.label),
                        format!(
                            "{:?}: {} node {:?} = {:?} is not contained in its enclosing {} node {:?} = {:?}",
                            src,
                            nd.label,
                            nd.range,
                            &src[s..e],
                            nodes[p].label,
                            nodes[p].range,
                            &src[ps..pe]
                        ),
                        det(nd, json!({"parent": nodes[p].label, "parent_span": r4_json(nodes[p].range)})),
                    ));
                }
            }
        }
        // a wrapper denotes the same sub-expression as its only child
        if alias[i] {
            continue;
        }
        if let Some(c) = only_child(i) {
            if let Some((cs, ce)) = bytes[c] {
                out.push(Failure::new(
                    format!("c18:span:{}:wrapper-differs-from-child", nd.label),
                    format!(
                        "{:?}: {} node spans {:?} but its only child ({}) — the same sub-expression — spans {:?}",
                        src,
                        nd.label,
                        &src[s..e],
                        nodes[c].label,
                        &src[cs..ce]
                    ),
                    det(nd, json!({"child": nodes[c].label, "child_span": r4_json(nodes[c].range)})),
                ));
            }
            continue;
        }
        distinct += 1;
        let text = &src[s..e];
        match (text.chars().next(), text.chars().last()) {
            (Some(a), Some(b)) if !is_ws(a) && !is_ws(b) => {}
            (None, _) | (_, None) => {
                out.push(Failure::new(
                    format!("c18:span:{}:empty-span", nd.label),
                    format!("{:?}: {} node has the empty span {:?}", src, nd.label, nd.range),
                    det(nd, json!(null)),
                ));
                continue;
            }
            _ => {
                out.push(Failure::new(
                    format!("c18:span:{}:surrounding-whitespace", nd.label),
                    format!("{:?}: {} node spans {:?}, which begins or ends with white space", src, nd.label, text),
                    det(nd, json!({"text": text})),
                ));
                continue;
            }
        }
        // compiling the spanned text alone gives the same subtree
        let want = nd.shape.as_ref();
        match (sub_shape(text), want) {
            (Ok(got), Some(w)) => {
                if got != *w {
                    out.push(Failure::new(
                        format!("c18:span:{}:subtext-different-tree", nd.label),
                        format!(
                            "{:?}: {} node is {} but its span {:?} = {:?} compiles to {}",
                            src,
                            nd.label,
                            w.show(),
                            nd.range,
                            text,
                            got.show()
                        ),
                        det(nd, json!({"text": text, "node_tree": w.show(), "text_tree": got.show()})),
                    ));
                }
            }
            (Ok(_), None) => {}
            (Err((mode, msg)), w) => {
                out.push(Failure::new(
                    format!("c18:span:{}:{}", nd.label, mode),
                    format!(
                        "{:?}: {} node is {} but its span {:?} = {:?} does not compile: {}",
                        src,
                        nd.label,
                        w.map(|x| x.show()).unwrap_or_default(),
                        nd.range,
                        text,
                        msg
                    ),
                    det(nd, json!({"text": text, "error": msg})),
                ));
            }
        }
    }
    // siblings: disjoint and in source order
    for (p, v) in &kids {
        for w in v.windows(2) {
            if let (Some((_, ae)), Some((bs, _))) = (bytes[w[0]], bytes[w[1]]) {
                if ae > bs {
                    let (a, b) = (&nodes[w[0]], &nodes[w[1]]);
                    out.push(Failure::new(
                        format!("c18:span:{}:siblings-overlap-or-out-of-order", nodes[*p].label),
                        format!(
                            "{:?}: consecutive operands of a {} node span {:?} and {:?}: not disjoint / not in source order",
                            src, nodes[*p].label, a.range, b.range
                        ),
                        det(&nodes[*p], json!({"first": r4_json(a.range), "second": r4_json(b.range)})),
                    ));
                }
            }
        }
    }
    // the root spans the whole expression without surrounding white space
    if let Some(root) = nodes.first() {
        let lead = src.len() - src.trim_start_matches(is_ws).len();
        let end = src.trim_end_matches(is_ws).len();
        if let Some((s, e)) = bytes[0] {
            if (s, e) != (lead, end.max(lead)) {
                out.push(Failure::new(
                    format!("c18:span:{}:root-not-trimmed-source", root.label),
                    format!(
                        "{:?}: the root ({}) spans {:?} = {:?} instead of the whole expression {:?}",
                        src,
                        root.label,
                        root.range,
                        &src[s..e],
                        &src[lead..end.max(lead)]
                    ),
                    det(root, json!({"text": &src[s..e]})),
                ));
            }
        }
    }
    distinct
}

// ---------------------------------------------------------------------------
// one source

const PARSER_FILES: &[&str] = &[
    "compiler.rs",
    "string_tokenizer.rs",
    "string_scanner.rs",
    "source_range.rs",
    "source_location.rs",
    "tokenizer.rs",
    "ast_node.rs",
    "syntax_error.rs",
    "pattern_utils.rs",
];

/// `origin` = "valid" (generated as well-formed), "enumerated" (fixed grid, well-formed or
/// not) or the corruption kind.
fn check_source(src: &str, sub: &str, origin: &str, acc: &mut Acc) -> Vec<Failure> {
    let mut out = Vec::new();
    let idx = LineIndex::new(src);
    let lx = lex(src);
    if let Some(p) = &lx.panic {
        out.push(Failure::new(
            "c18:token:panic",
            format!("{:?}: the tokenizer panicked: {}", src, p),
            json!({"kind": "source", "source": src}),
        ));
    }
    check_tokens(src, &idx, &lx, &mut out);
    if let Some((l, c)) = lx.err {
        check_error_loc(src, &idx, l, c, "tokenizer", &mut out);
    }
    let multiline = src.trim_matches(is_ws).contains('\n');
    let layout = match (multiline, src.is_ascii()) {
        (true, true) => "multi-line",
        (true, false) => "multi-line+non-ascii",
        (false, true) => "one-line",
        (false, false) => "one-line+non-ascii",
    };
    let outcome: &str;
    let mut nontrivial = false;
    let mut info = json!(null);
    match compile(src) {
        Res2::Ok(p) => match guard(|| p.ast().map(walk)) {
            Ok(Some(nodes)) => {
                let distinct = check_spans(src, &idx, &nodes, &mut out);
                nontrivial = (multiline || !src.is_ascii()) && distinct >= 3;
                outcome = "compiled";
                info = json!({"ast_nodes": nodes.len(), "distinct_expression_nodes": distinct, "tokens": lx.toks.len()});
            }
            Ok(None) => {
                acc.skip("compiled program exposes no ast");
                outcome = "no-ast";
            }
            Err(_) => {
                acc.skip("harness walker panicked");
                outcome = "walker-panic";
            }
        },
        Res2::Err(CelError::Syntax(e)) => {
            let (l, c) = (e.loc().line(), e.loc().col());
            check_error_loc(src, &idx, l, c, "compiler", &mut out);
            // a generated source the parser rejects (the generator's `case int(x):` patterns) is
            // not counted as a corruption
            nontrivial = origin != "valid" && !lx.toks.is_empty();
            outcome = "syntax-error";
            info = json!({"reported": [l, c], "lines": idx.lines(), "tokens_lexed": lx.toks.len()});
        }
        Res2::Err(_) => {
            acc.skip("rejected with a non-syntax error: nothing asserted beyond the token check");
            outcome = "other-error";
        }
        Res2::Panic(p) => {
            if PARSER_FILES.contains(&p.site().as_str()) {
                out.push(Failure::new(
                    format!("c18:error:panic:{}", p.site()),
                    format!("{:?}: compiling panicked in the parser: {} @ {}", src, p.msg, p.loc),
                    json!({"kind": "source", "source": src, "panic": p.msg, "at": p.loc}),
                ));
            } else {
                acc.skip("compile panicked outside the parser (C01's domain)");
            }
            outcome = "panic";
        }
    }
    let class = if origin == "valid" || origin == "enumerated" {
        format!("{}:{}:{}", origin, outcome, layout)
    } else {
        format!("corrupt:{}:{}", origin, outcome)
    };
    acc.case(sub, src, nontrivial, &class);
    acc.sample(&class, || json!({"source": src, "class": class, "info": info}));
    // one failure per signature and source is enough
    let mut seen = BTreeSet::new();
    out.retain(|f| seen.insert(f.sig.clone()));
    out
}

// ---------------------------------------------------------------------------
// corruptions

const VOCAB: &[&str] = &[
    "?", ":", "+", "-", "*", "/", "%", "!", ".", ",", "[", "]", "{", "}", "(", ")", "<", ">", "||", "&&", "<=", ">=",
    "==", "!=", "in", "null", "match", "case", "true", "false", "1", "2u", "1.5", "\"s\"", "'é'", "x", "_", "f\"{x}\"",
    "b\"a\"", "int",
];

const ILLEGAL: &[&str] = &["#", "@", "=", "&", "|", "'", "\"", "$", "~", "\\", "`", "é", "f\"{", "\"\\u", ";", "^", "b'", "\u{00a0}", "\r"];

fn char_offset(src: &str, k: usize) -> usize {
    src.char_indices().nth(k).map(|(i, _)| i).unwrap_or(src.len())
}

/// `round` rotates kind and position so that an exhausted genome (all choices 0) still
/// produces every kind of corruption at different places
fn corrupt(g: &mut G, round: usize, toks: &[String], src: &str) -> (&'static str, String) {
    let n = toks.len().max(1);
    let nchars = src.chars().count();
    let kind = (g.below(7) + round) % 7;
    let shift = round.wrapping_mul(5);
    let mut t: Vec<String> = toks.to_vec();
    let name = match kind {
        0 => {
            if !t.is_empty() {
                t.remove((g.below(n) + shift) % n);
            }
            "delete-token"
        }
        1 => {
            if !t.is_empty() {
                let i = (g.below(n) + shift) % n;
                let x = t[i].clone();
                t.insert(i, x);
            }
            "duplicate-token"
        }
        2 => {
            if t.len() >= 2 {
                let i = (g.below(n) + shift) % n;
                let j = if g.flag() { g.below(n) } else { (i + 1) % n };
                t.swap(i, j);
            }
            "swap-tokens"
        }
        3 => {
            let v = VOCAB[(g.below(VOCAB.len()) + shift) % VOCAB.len()].to_string();
            if !t.is_empty() {
                let i = (g.below(n) + shift) % n;
                t[i] = v;
            }
            "replace-token"
        }
        4 => {
            let v = VOCAB[(g.below(VOCAB.len()) + shift) % VOCAB.len()].to_string();
            let i = (g.below(t.len() + 1) + shift) % (t.len() + 1);
            t.insert(i.min(t.len()), v);
            "insert-token"
        }
        5 => {
            let k = (g.below(nchars + 1) + shift * 3) % (nchars + 1);
            return ("truncate", src[..char_offset(src, k)].to_string());
        }
        _ => {
            let k = (g.below(nchars + 1) + shift * 3) % (nchars + 1);
            let at = char_offset(src, k);
            let ill = ILLEGAL[(g.below(ILLEGAL.len()) + shift) % ILLEGAL.len()];
            return ("illegal-char", format!("{}{}{}", &src[..at], ill, &src[at..]));
        }
    };
    let space = if g.flag() { Space::Random } else { Space::Single };
    (name, join_tokens(&t, space, Some(g)))
}

/// truncations at (up to `max`) evenly spread character offsets, 0 and the full length excluded
fn truncations(src: &str, max: usize) -> Vec<String> {
    let offs: Vec<usize> = src.char_indices().map(|(i, _)| i).skip(1).collect();
    if offs.is_empty() {
        return vec![];
    }
    let take = offs.len().min(max.max(1));
    (0..take)
        .map(|k| {
            let i = if take == offs.len() { k } else { k * offs.len() / take };
            src[..offs[i]].to_string()
        })
        .collect()
}

// ---------------------------------------------------------------------------
// random sources

const NON_ASCII: &[&str] = &["é", "日本語", "😀", "a😀b", "ß→", "e\u{0301}", "x\u{00a0}y", "Σας", "İı"];

fn decorate(g: &mut G, e: E) -> E {
    let k = g.below(12);
    if k < 6 {
        return e;
    }
    let s = slit(g.pick_str(NON_ASCII));
    match k {
        6 => E::List(vec![s, e]),
        7 => bin(Op::Add, s, e),
        8 => bin(Op::Eq, s, e),
        9 => E::Tern(Box::new(e), Box::new(s), Box::new(slit(g.pick_str(NON_ASCII)))),
        10 => E::Map(vec![(s, e)]),
        _ => method(s, "contains", vec![e]),
    }
}

/// re-spell a plain double-quoted string literal without changing its value: `\n` / `\t`
/// escapes become the raw characters, and quote-free bodies may use single quotes
fn respell(g: &mut G, tok: &str) -> String {
    if !tok.starts_with('"') || tok.len() < 2 {
        return tok.to_string();
    }
    let mut out = String::new();
    let mut it = tok.chars();
    let mut any_backslash = false;
    while let Some(c) = it.next() {
        if c == '\\' {
            match it.next() {
                Some('n') if g.chance(128) => out.push('\n'),
                Some('t') if g.chance(128) => out.push('\t'),
                Some(o) => {
                    any_backslash = true;
                    out.push('\\');
                    out.push(o);
                }
                None => out.push('\\'),
            }
        } else {
            out.push(c);
        }
    }
    if !any_backslash && !out[1..out.len() - 1].contains(['\'', '"']) && g.chance(64) {
        out = format!("'{}'", &out[1..out.len() - 1]);
    }
    out
}

fn check_generated(genome: &[u8], opts_corruptions: usize, max_trunc: usize, acc: &mut Acc) -> Vec<Failure> {
    let mut g = G::new(genome);
    let cfg = Cfg::full();
    let env = gen_env(&mut g, &cfg);
    let ty = *g.pick(&[Ty::Any, Ty::Bool, Ty::Int, Ty::Str, Ty::List, Ty::Map]);
    let e = gen_expr(&mut g, &cfg, &env, ty);
    let e = decorate(&mut g, e);
    let parens = *g.pick(&[Parens::Random, Parens::Random, Parens::Minimal, Parens::Full]);
    let toks: Vec<String> = tokens_of(&e, parens, Some(&mut g));
    let toks: Vec<String> = toks.iter().map(|t| respell(&mut g, t)).collect();
    let src = join_tokens(&toks, Space::Random, Some(&mut g));
    let mut out = check_source(&src, "generated", "valid", acc);
    for k in e.constructs() {
        acc.class(&format!("has:{}", k));
    }
    for round in 0..opts_corruptions {
        let (kind, bad) = corrupt(&mut g, round, &toks, &src);
        if bad == src {
            continue;
        }
        out.extend(check_source(&bad, "corrupted", kind, acc));
    }
    for t in truncations(&src, max_trunc) {
        out.extend(check_source(&t, "truncated", "truncate-sweep", acc));
    }
    out
}

// ---------------------------------------------------------------------------
// enumerated sources

const SINGLE_TOKENS: &[&str] = &[
    // punctuation and operators
    "?", ":", "+", "-", "*", "/", "%", "!", ".", ",", "[", "]", "{", "}", "(", ")", "<", ">", "||", "&&", "<=", ">=",
    "==", "!=",
    // keywords
    "in", "null", "match", "case", "true", "false",
    // numbers
    "0", "1", "42", "007", "9223372036854775807", "18446744073709551615", "18446744073709551616", "1u", "0u", "1U",
    "18446744073709551615u", "1.5", ".5", "1.", "1e3", "1E-3", "1.5e+10", "0x1F", "0xff", "0x", "1e", "1.5u",
    // strings, bytes, f-strings
    "\"\"", "''", "\"a\"", "'a b'", "'é'", "\"日本語\"", "'😀'", "\"a\\nb\"", "\"a\nb\"", "'\n'", "\"\\u00e9\"",
    "'\\U0001F600'", "'\\x41'", "'\\101'", "'\\q'", "r\"a\\b\"", "r''", "r'é\n'", "b\"\"", "b\"\\xff\"", "b'é'",
    "b'a\nb'", "f\"{x}\"", "f'a{x}b'", "f\"{{}}\"", "f'é{x}é'", "f'{x}\n{y}'", "f''",
    // identifiers
    "a", "_", "_a9", "A", "foo", "b", "f", "r", "bb", "fa", "ra", "inx", "matchx", "casex", "nullx", "truex", "int",
    // illegal or unterminated
    "#", "@", "=", "&", "|", "'", "\"", "$", "~", "\\", "`", "^", ";", "é", "😀", "f\"", "b'", "r\"", "\"\\u00e", "'\\x",
    "'\\1", "f'{", "f'{}'", "f'}'", "f'{x'", "\"abc", "'é", "\r", "\u{00a0}",
];

const SURROUND: &[(&str, &str)] = &[("", ""), (" ", ""), ("", " "), ("\n", ""), ("", "\n"), ("\n\t", " \n"), ("\n\n", "\t")];

const FIXED: &[&str] = &[
    "a\n+\nb",
    " \t(a)\n",
    "'é' + x",
    "[1,\n 2]",
    "f(\n a,b )",
    "x.y\n.z",
    "!\n!a",
    "-\n-a",
    "a ? b\n: c",
    "a\n?\nb\n:\nc",
    "'é' ? 'ü' : 'ß'",
    "{'é':\n1, 'b' : [2\n,3]}",
    "{}",
    "[]",
    "[ ]",
    "{ \n }",
    "f()",
    "f( )",
    "f(a,)",
    "[a,]",
    "a[\n0\n]",
    "a.b(c)[d].e",
    "'日本語'.size() + x.y",
    "'a\nb' + c",
    "\"é\nü\" + c\n+ d",
    "( ( a ) )",
    "(\na\n)\n+\n(\nb\n)",
    "! ! a",
    "!!a",
    "- - a",
    "--a",
    "-a.b",
    "!a[0]",
    "- (a)",
    "!\t'é'",
    "a - -b",
    "a-b",
    "a in b",
    "a\nin\nb",
    "a < b == c",
    "a || b && c",
    "a * b + c * d",
    "1u + 2.5 * .5",
    "f'é{x}' + y",
    "f\"{a}\n{b}\" + c",
    "x ? y : z ? 'é' : w",
    "[1, 2].map(x, x + 1)",
    "l.filter(\n x,\n x > 'é'.size()\n)",
    "has(m.a) && coalesce(null, 'é')",
    // match (the scrutinee-start defect lives here)
    "match a {case b: c}",
    "match\na\n{case 1: 2}",
    " match a { case int: 1, case _: 2 } ",
    "(match a {case _: c})",
    "x ? y : match a {case >1: c}",
    "[match a {case 'é': c}, d]",
    "match a {case b: match c {case _: d}}",
    "match a {}",
    "match a {case < b + 1: c,}",
    // error-location layouts
    "\n\nf'{1 +}'",
    "\nf'{a#}'",
    "f'{1 +}'",
    "'é' + + ",
    "a +\n\n",
    "a\n\n+",
    "(a\n",
    "'日本' #",
    "'日本'\n#",
    "a ? b\nc",
    "f(a\n,\n",
    "[1,\n 2",
    "{'é'\n 1}",
    "x.\n1",
    "a b",
    "a\nb",
    "'é' 'ü'",
    "match a {case b c}",
    "match a\n{case 'é': c case",
    "",
    " ",
    "\n",
    "\n\n",
];

fn enumerated(opts: &Opts, acc: &mut Acc) {
    // single tokens
    let mut srcs: Vec<String> = Vec::new();
    for t in SINGLE_TOKENS {
        for (a, b) in SURROUND {
            srcs.push(format!("{}{}{}", a, t, b));
        }
    }
    par_chunks(acc, opts.threads, &srcs, |s, a| {
        for f in check_source(s, "single-token", "enumerated", a) {
            a.fail(f);
        }
    });
    acc.mark_exhaustive(
        "single-token",
        "every token kind and literal spelling, plus illegal / unterminated ones, alone in the source with 7 white-space surroundings",
    );

    // binary operators with 0/1/2 spaces/newlines on each side
    let ws = ["", " ", "  ", "\n", "\n\n"];
    let mut srcs: Vec<String> = Vec::new();
    for op in ALL_OPS {
        for lhs in ["a", "'é'", "(a)"] {
            for w1 in ws {
                for w2 in ws {
                    srcs.push(format!("{}{}{}{}b", lhs, w1, op.sym(), w2));
                }
            }
        }
    }
    par_chunks(acc, opts.threads, &srcs, |s, a| {
        for f in check_source(s, "binary-layout", "enumerated", a) {
            a.fail(f);
        }
    });
    acc.mark_exhaustive(
        "binary-layout",
        "14 binary operators x 3 left operands (identifier, non-ASCII string, parenthesised) x {'', ' ', '  ', '\\n', '\\n\\n'}^2 around the operator",
    );

    // fixed layouts, each also truncated at every character offset
    let mut srcs: Vec<(String, bool)> = Vec::new();
    for s in FIXED {
        srcs.push((s.to_string(), true));
        for t in truncations(s, usize::MAX) {
            srcs.push((t, false));
        }
    }
    par_chunks(acc, opts.threads, &srcs, |(s, whole), a| {
        let (sub, origin) = if *whole { ("fixed-layout", "enumerated") } else { ("fixed-layout-truncated", "truncate-sweep") };
        for f in check_source(s, sub, origin, a) {
            a.fail(f);
        }
    });
    acc.mark_exhaustive("fixed-layout", "hand-picked multi-line / non-ASCII layouts of every construct, and malformed ones");
    acc.mark_exhaustive("fixed-layout-truncated", "every fixed layout truncated at every character offset");

    // malformed f-string placeholders: the error is found by a sub-parser whose positions are
    // relative to the placeholder; the token may start far to the right / below
    let prefixes = ["", " ", "          ", "\n", "\n\n     ", "x +\n              ", "'日本語' + ", "[1,\n2,       ", "a ? b :\t\t\t"];
    let bodies = [
        "a +", "a +\n", "a\n+\n", "\n\n1 +", "(a\n", "a#", "a\n#", "1 +\n\n\n", "[1,\n2", "\n", "", "a b", "a\nb", "'é'\n+", "a ? b\n",
        "f\"{1 +\n}\"", "x.\n1", "a\n\n\n\n\n+",
    ];
    let quotes = ["'", "\""];
    let suffixes = ["", "\n", " + y", "\n\n+ y"];
    let mut srcs: Vec<String> = Vec::new();
    for pre in prefixes {
        for body in bodies {
            for q in quotes {
                if body.contains(q) {
                    continue;
                }
                for suf in suffixes {
                    srcs.push(format!("{}f{}{{{}}}{}{}", pre, q, body, q, suf));
                    srcs.push(format!("{}f{}ab{{x}}é{{{}}} {}{}", pre, q, body, q, suf));
                }
            }
        }
    }
    par_chunks(acc, opts.threads, &srcs, |s, a| {
        for f in check_source(s, "fstring-placeholder-errors", "fstring-placeholder", a) {
            a.fail(f);
        }
    });
    acc.mark_exhaustive(
        "fstring-placeholder-errors",
        "9 prefixes (indentation, preceding lines, non-ASCII) x 18 malformed placeholder bodies (most with newlines) x 2 quote kinds x 4 suffixes, as first and as second placeholder",
    );
}

fn run(opts: &Opts, acc: &mut Acc) {
    enumerated(opts, acc);
    let n = opts.tier.pick(60_000, 1_000_000);
    let corruptions = 7;
    let max_trunc = opts.tier.pick(12, 64);
    random_genomes(acc, opts, "generated", n, 900, |gn, a| check_generated(gn, corruptions, max_trunc, a));
}

fn replay(opts: &Opts, d: &Value, acc: &mut Acc) {
    // `--replay FILE` hands over the whole file, the regression runner only its `detail`
    let d = d.get("detail").unwrap_or(d);
    if let Some(src) = d.get("source").and_then(|s| s.as_str()) {
        for f in check_source(src, "replay", "enumerated", acc) {
            acc.fail(f);
        }
        return;
    }
    if let Some(hex) = d.get("genome_hex").and_then(|h| h.as_str()) {
        let gn = crate::engine::unhex(hex);
        for f in check_generated(&gn, 7, opts.tier.pick(12, 64), acc) {
            acc.fail(f);
        }
        return;
    }
    acc.inconclusive.push("C18 replay: neither source nor genome given".into());
}

/// libFuzzer entry: one generated source with its corruptions and truncations
pub fn fuzz_case(genome: &[u8], acc: &mut Acc) -> Vec<Failure> {
    check_generated(genome, 7, 12, acc)
}
