//! C03 — numeric operators are exact or fail; no wrap-around, no profile dependence.
//!
//! Domain: {+,-,*,/,%} x ordered pairs from the boundary pools (int, uint, double, bool)
//! — exhaustive — plus one representative of every non-numeric type on either side, unary
//! minus on every pool value, and random 64-bit operand pairs. Every point is evaluated in
//! two forms (both operands literals = folded by the compiler; both bound = run by the VM).
//! Oracle: i128 arithmetic for integer results, IEEE f64 for double results.

use super::Prop;
use crate::engine::{par_chunks, random_genomes, Acc, Failure, Opts, Tier};
use crate::g::G;
use crate::run::{eval, Sum};
use crate::val::*;
use serde_json::{json, Value};

pub static PROP: Prop = Prop {
    id: "C03",
    rule: "exhaustive grid: 5 binary operators x all ordered pairs of the int/uint/double/bool boundary pools, \
           + every non-numeric representative against every numeric kind, + unary minus on every pool value; \
           random: operand pairs drawn boundary-heavy/uniform over 64-bit patterns. Each point is run with \
           literal operands (compile-time folding) and with bound operands (VM), in the release and the \
           overflow-checking (dbg) build. Non-trivial = an operand is a pool boundary value, or the exact \
           result lies within 2 of a representability edge, or the operand types differ; distinct by (op, a, b).",
    assumptions: &[
        "IEEE-754 double arithmetic of the host (f64 + - * /) is the reference for double results",
        "bool (+) bool, double % x, unary minus on bool and int (+) uint above i64::MAX are treated as unspecified/either-way as stated in DESIGN 3.3",
    ],
    run,
    replay,
    both_profiles: super::always_both,
};

pub const OPS: &[&str] = &["+", "-", "*", "/", "%"];

#[derive(Clone, Debug, PartialEq)]
pub enum Exp {
    /// exactly this value
    Val(V),
    /// must be a failure (any error class)
    Fail,
    /// this value or a failure
    ValOrFail(V),
    /// nothing is asserted beyond "no panic"
    Unspecified,
}

fn as_int(v: &V) -> Option<i128> {
    match v {
        V::Int(i) => Some(*i as i128),
        V::UInt(u) => Some(*u as i128),
        V::Bool(b) => Some(*b as i128),
        _ => None,
    }
}

fn as_f64(v: &V) -> Option<f64> {
    match v {
        V::Int(i) => Some(*i as f64),
        V::UInt(u) => Some(*u as f64),
        V::F(f) => Some(*f),
        V::Bool(b) => Some(if *b { 1.0 } else { 0.0 }),
        _ => None,
    }
}

fn is_num(v: &V) -> bool {
    matches!(v, V::Int(_) | V::UInt(_) | V::F(_) | V::Bool(_))
}

fn timeish(v: &V) -> bool {
    matches!(v, V::Ts(..) | V::Dur(_))
}

/// The reference semantics, one rule per sentence of the property statement.
pub fn model_bin(op: &str, a: &V, b: &V) -> Exp {
    if !is_num(a) || !is_num(b) {
        // "every other operand combination except string/bytes/list concatenation and
        //  timestamp/duration arithmetic is an error"
        if op == "+" {
            match (a, b) {
                (V::Str(_), V::Str(_)) | (V::Bytes(_), V::Bytes(_)) | (V::List(_), V::List(_)) => {
                    return Exp::Unspecified
                }
                _ => {}
            }
        }
        if (op == "+" || op == "-") && timeish(a) && timeish(b) {
            return Exp::Unspecified;
        }
        return Exp::Fail;
    }
    if matches!(a, V::F(_)) || matches!(b, V::F(_)) {
        // "anything with double gives the nearest double"; "double arithmetic is IEEE-754"
        let x = as_f64(a).unwrap();
        let y = as_f64(b).unwrap();
        return match op {
            "+" => Exp::Val(V::F(x + y)),
            "-" => Exp::Val(V::F(x - y)),
            "*" => Exp::Val(V::F(x * y)),
            "/" => Exp::Val(V::F(x / y)),
            _ => Exp::Unspecified, // remainder on doubles is not defined by the statement
        };
    }
    if matches!(a, V::Bool(_)) && matches!(b, V::Bool(_)) {
        return Exp::Unspecified;
    }
    // integer result: "int with uint gives int, bool counts as 0/1"
    let unsigned = !matches!(a, V::Int(_)) && !matches!(b, V::Int(_));
    let x = as_int(a).unwrap();
    let y = as_int(b).unwrap();
    let exact: Option<i128> = match op {
        "+" => x.checked_add(y),
        "-" => x.checked_sub(y),
        // u64::MAX * u64::MAX does not fit in i128: unrepresentable in any result type
        "*" => x.checked_mul(y),
        "/" => {
            if y == 0 {
                None
            } else {
                Some(x / y)
            }
        }
        _ => {
            if y == 0 {
                None
            } else {
                Some(x % y)
            }
        }
    };
    // a uint operand above the int range cannot be widened to int without changing its value
    let unwidenable = !unsigned
        && (matches!(a, V::UInt(u) if *u > i64::MAX as u64)
            || matches!(b, V::UInt(u) if *u > i64::MAX as u64));
    let repr = |r: i128| -> Option<V> {
        if unsigned {
            if r >= 0 && r <= u64::MAX as i128 {
                Some(V::UInt(r as u64))
            } else {
                None
            }
        } else if r >= i64::MIN as i128 && r <= i64::MAX as i128 {
            Some(V::Int(r as i64))
        } else {
            None
        }
    };
    match exact.and_then(repr) {
        None => Exp::Fail,
        Some(v) => {
            if unwidenable {
                Exp::ValOrFail(v)
            } else {
                // includes i64::MIN % -1: mathematically 0, representable, hence 0 (not the overflow
                // some CEL implementations report)
                Exp::Val(v)
            }
        }
    }
}

pub fn model_neg(a: &V) -> Exp {
    match a {
        V::Int(i) => match i.checked_neg() {
            Some(n) => Exp::Val(V::Int(n)),
            None => Exp::Fail,
        },
        V::UInt(_) => Exp::Fail, // "negating an unsigned value" is an error
        V::F(f) => Exp::Val(V::F(-*f)),
        V::Bool(_) => Exp::Unspecified,
        _ => Exp::Fail,
    }
}

fn op_name(op: &str) -> &'static str {
    match op {
        "+" => "add",
        "-" => "sub",
        "*" => "mul",
        "/" => "div",
        "%" => "rem",
        _ => "neg",
    }
}

pub fn judge(exp: &Exp, got: &Sum) -> Option<&'static str> {
    if let Sum::Panic(_) = got {
        return Some("panic");
    }
    match exp {
        Exp::Unspecified => None,
        Exp::Fail => match got {
            Sum::Err(_) => None,
            _ => Some("value-instead-of-error"),
        },
        Exp::Val(v) => match got {
            Sum::Val(s) if *s == v.canon() => None,
            Sum::Err(_) => Some("error-instead-of-value"),
            _ => Some("wrong-value"),
        },
        Exp::ValOrFail(v) => match got {
            Sum::Val(s) if *s == v.canon() => None,
            Sum::Err(_) => None,
            _ => Some("wrong-value"),
        },
    }
}

fn exp_show(e: &Exp) -> String {
    match e {
        Exp::Val(v) => v.canon(),
        Exp::Fail => "an error".to_string(),
        Exp::ValOrFail(v) => format!("{} or an error", v.canon()),
        Exp::Unspecified => "unspecified".to_string(),
    }
}

fn near_edge(exp: &Exp) -> bool {
    let v = match exp {
        Exp::Val(v) | Exp::ValOrFail(v) => v,
        Exp::Fail => return true,
        Exp::Unspecified => return false,
    };
    match v {
        V::Int(i) => *i >= i64::MAX - 2 || *i <= i64::MIN + 2,
        V::UInt(u) => *u >= u64::MAX - 2 || *u <= 2,
        V::F(f) => !f.is_finite() || *f == 0.0,
        _ => false,
    }
}

/// Check one binary point in both forms. Returns failures (0..2).
pub fn check_bin(op: &str, a: &V, b: &V, sub: &str, pooled: bool, acc: &mut Acc) -> Vec<Failure> {
    let exp = model_bin(op, a, b);
    let canon = format!("{} {} {}", a.canon(), op, b.canon());
    let mixed = a.type_name() != b.type_name();
    let nontrivial = pooled || mixed || near_edge(&exp);
    let class = format!("{}:{},{}", op_name(op), a.type_name(), b.type_name());
    acc.case(sub, &canon, nontrivial, &class);
    if let Exp::Unspecified = exp {
        acc.skip("model: unspecified operand combination (only totality is checked)");
    }
    let (la, lb) = match (a.lit(), b.lit()) {
        (Some(x), Some(y)) => (x, y),
        _ => return vec![],
    };
    let lit_src = format!("{} {} {}", la, op, lb);
    let var_src = format!("x {} y", op);
    let binds = vec![("x".to_string(), a.clone()), ("y".to_string(), b.clone())];
    let lit = eval(&lit_src, &[]).res.sum();
    let var = eval(&var_src, &binds).res.sum();
    // one operand bound, the other a literal (a fold or peephole may look at just one side)
    let vl_src = format!("x {} {}", op, lb);
    let lv_src = format!("{} {} y", la, op);
    let vl = eval(&vl_src, &binds).res.sum();
    let lv = eval(&lv_src, &binds).res.sum();
    acc.eval_only(sub, 3);
    acc.sample(&class, || {
        json!({"expr": lit_src, "bound_form": var_src, "x": a.canon(), "y": b.canon(),
               "expected": exp_show(&exp), "literal_form": lit.show(), "bound_result": var.show()})
    });
    let mut out = Vec::new();
    for (form, got, src) in [("lit", &lit, &lit_src), ("var", &var, &var_src), ("var-lit", &vl, &vl_src), ("lit-var", &lv, &lv_src)] {
        if let Some(mode) = judge(&exp, got) {
            let mode = if mode == "panic" {
                match got {
                    Sum::Panic(p) => format!("panic-{}", p.split('@').next().unwrap_or("other")),
                    _ => mode.to_string(),
                }
            } else {
                mode.to_string()
            };
            out.push(Failure::new(
                format!("c03:{}:{},{}:{}", op_name(op), a.type_name(), b.type_name(), mode),
                format!("{} with x={} y={} ({} form): expected {}, got {}", src, a.canon(), b.canon(), form, exp_show(&exp), got.show()),
                json!({"kind": "bin", "op": op, "a": vjson(a), "b": vjson(b), "form": form,
                       "source": src, "expected": exp_show(&exp), "actual": got.show()}),
            ));
        }
    }
    // the forms must agree with each other even where the model is silent
    if out.is_empty() {
        for (name, r, src) in [("var-lit", &vl, &vl_src), ("lit-var", &lv, &lv_src)] {
            if r.coarse() != var.coarse() {
                out.push(Failure::new(
                    format!("c03:{}:{},{}:forms-disagree", op_name(op), a.type_name(), b.type_name()),
                    format!("{} -> {} but {} with x={} y={} -> {}", src, r.show(), var_src, a.canon(), b.canon(), var.show()),
                    json!({"kind": "bin", "op": op, "a": vjson(a), "b": vjson(b), "form": name,
                           "mixed_result": r.show(), "bound_result": var.show()}),
                ));
                break;
            }
        }
    }
    if out.is_empty() && lit.coarse() != var.coarse() {
        out.push(Failure::new(
            format!("c03:{}:{},{}:forms-disagree", op_name(op), a.type_name(), b.type_name()),
            format!("{} -> {} but {} with x={} y={} -> {}", lit_src, lit.show(), var_src, a.canon(), b.canon(), var.show()),
            json!({"kind": "bin", "op": op, "a": vjson(a), "b": vjson(b), "form": "both",
                   "literal_result": lit.show(), "bound_result": var.show()}),
        ));
    }
    out
}

/// n-fold unary minus: the model applies the single negation n times ("--x" is -(-x))
pub fn model_neg_run(a: &V, n: usize) -> Exp {
    let mut cur = a.clone();
    for _ in 0..n {
        match model_neg(&cur) {
            Exp::Val(v) => cur = v,
            other => return other,
        }
    }
    Exp::Val(cur)
}

pub fn check_neg(a: &V, sub: &str, acc: &mut Acc) -> Vec<Failure> {
    check_neg_run(a, 1, sub, acc)
}

/// a run of n minus signs in front of a literal and in front of a bound variable
pub fn check_neg_run(a: &V, n: usize, sub: &str, acc: &mut Acc) -> Vec<Failure> {
    let exp = model_neg_run(a, n);
    let canon = format!("neg{} {}", n, a.canon());
    let class = if n == 1 { format!("neg:{}", a.type_name()) } else { format!("neg-run{}:{}", n, a.type_name()) };
    acc.case(sub, &canon, true, &class);
    if let Exp::Unspecified = exp {
        acc.skip("model: unspecified operand combination (only totality is checked)");
    }
    let Some(la) = a.lit() else { return vec![] };
    // a literal that is itself rendered with a leading minus is parenthesised by lit()
    let lit_src = format!("{}{}", "-".repeat(n), la);
    let var_src = format!("{}x", "-".repeat(n));
    let binds = vec![("x".to_string(), a.clone())];
    let lit = eval(&lit_src, &[]).res.sum();
    let var = eval(&var_src, &binds).res.sum();
    acc.eval_only(sub, 1);
    acc.sample(&class, || {
        json!({"expr": lit_src, "x": a.canon(), "expected": exp_show(&exp),
               "literal_form": lit.show(), "bound_result": var.show()})
    });
    let mut out = Vec::new();
    for (form, got, src) in [("lit", &lit, &lit_src), ("var", &var, &var_src)] {
        if let Some(mode) = judge(&exp, got) {
            let mode = if let Sum::Panic(p) = got {
                format!("panic-{}", p.split('@').next().unwrap_or("other"))
            } else {
                mode.to_string()
            };
            out.push(Failure::new(
                format!("c03:{}:{}:{}", if n == 1 { "neg" } else { "neg-run" }, a.type_name(), mode),
                format!("{} with x={} ({} form): expected {}, got {}", src, a.canon(), form, exp_show(&exp), got.show()),
                json!({"kind": "neg", "a": vjson(a), "n": n, "form": form, "source": src,
                       "expected": exp_show(&exp), "actual": got.show()}),
            ));
        }
    }
    if out.is_empty() && lit.coarse() != var.coarse() {
        out.push(Failure::new(
            format!("c03:{}:{}:forms-disagree", if n == 1 { "neg" } else { "neg-run" }, a.type_name()),
            format!("{} -> {} but {} with x={} -> {}", lit_src, lit.show(), var_src, a.canon(), var.show()),
            json!({"kind": "neg", "a": vjson(a), "n": n, "form": "both"}),
        ));
    }
    out
}

/// `a op1 b op2 c` with operators of equal precedence is `(a op1 b) op2 c`, whichever operands are
/// literals: every one of the 8 literal/bound patterns against the model applied twice
pub fn check_chain3(op1: &str, op2: &str, vals: [&V; 3], sub: &str, acc: &mut Acc) -> Vec<Failure> {
    let exp = match model_bin(op1, vals[0], vals[1]) {
        Exp::Val(v) => model_bin(op2, &v, vals[2]),
        Exp::Fail => Exp::Fail,
        _ => Exp::Unspecified,
    };
    let canon = format!("{} {} {} {} {}", vals[0].canon(), op1, vals[1].canon(), op2, vals[2].canon());
    let class = format!("chain3:{}{}", op_name(op1), op_name(op2));
    acc.case(sub, &canon, true, &class);
    if let Exp::Unspecified = exp {
        acc.skip("model: unspecified operand combination (only totality and agreement of the forms are checked)");
    }
    let lits: Vec<String> = match vals.iter().map(|v| v.lit()).collect::<Option<Vec<_>>>() {
        Some(l) => l,
        None => return vec![],
    };
    let names = ["x", "y", "z"];
    let binds: Vec<(String, V)> = names.iter().zip(vals.iter()).map(|(n, v)| (n.to_string(), (*v).clone())).collect();
    let mut out = Vec::new();
    let mut first: Option<(String, Sum)> = None;
    for mask in 0..8u32 {
        let t: Vec<&str> = (0..3).map(|i| if mask & (1 << i) != 0 { lits[i].as_str() } else { names[i] }).collect();
        let src = format!("{} {} {} {} {}", t[0], op1, t[1], op2, t[2]);
        let got = eval(&src, &binds).res.sum();
        acc.eval_only(sub, 1);
        if mask == 0 {
            acc.sample(&class, || json!({"expr": src, "x": vals[0].canon(), "y": vals[1].canon(), "z": vals[2].canon(), "expected": exp_show(&exp), "result": got.show()}));
        }
        if let Some(mode) = judge(&exp, &got) {
            out.push(Failure::new(
                format!("c03:chain3:{}{}:{}", op_name(op1), op_name(op2), mode),
                format!("{} with x={} y={} z={}: grouping to the left gives {}, got {}", src, vals[0].canon(), vals[1].canon(), vals[2].canon(), exp_show(&exp), got.show()),
                json!({"kind": "chain3", "op1": op1, "op2": op2, "a": vjson(vals[0]), "b": vjson(vals[1]), "c": vjson(vals[2]), "literal_mask": mask, "source": src}),
            ));
            break;
        }
        match &first {
            None => first = Some((src.clone(), got.clone())),
            Some((s0, r0)) => {
                if r0.coarse() != got.coarse() {
                    out.push(Failure::new(
                        format!("c03:chain3:{}{}:forms-disagree", op_name(op1), op_name(op2)),
                        format!("{} -> {} but {} -> {} (x={} y={} z={})", s0, r0.show(), src, got.show(), vals[0].canon(), vals[1].canon(), vals[2].canon()),
                        json!({"kind": "chain3", "op1": op1, "op2": op2, "a": vjson(vals[0]), "b": vjson(vals[1]), "c": vjson(vals[2]), "literal_mask": mask, "source": src}),
                    ));
                    break;
                }
            }
        }
    }
    out
}

pub fn chain_pool() -> Vec<V> {
    vec![
        V::Int(0), V::Int(1), V::Int(-1), V::Int(2), V::Int(i64::MAX), V::Int(i64::MIN), V::Int(9007199254740993),
        V::UInt(1), V::UInt(u64::MAX),
        V::F(1.0), V::F(0.5), V::F(1e16), V::F(-0.0),
    ]
}

pub const CHAIN_OPS: &[(&str, &str)] = &[
    ("+", "+"), ("+", "-"), ("-", "+"), ("-", "-"),
    ("*", "*"), ("*", "/"), ("*", "%"), ("/", "*"), ("/", "/"), ("/", "%"), ("%", "*"), ("%", "/"), ("%", "%"),
];

/// Lossless JSON encoding of a scalar operand for replay files.
pub fn vjson(v: &V) -> Value {
    match v {
        V::Int(i) => json!({"t": "int", "v": i.to_string()}),
        V::UInt(u) => json!({"t": "uint", "v": u.to_string()}),
        V::F(f) => json!({"t": "f64", "bits": format!("{:016x}", f.to_bits()), "show": canon_f64(*f)}),
        V::Bool(b) => json!({"t": "bool", "v": b}),
        V::Str(s) => json!({"t": "str", "v": s}),
        V::Bytes(b) => json!({"t": "bytes", "v": b}),
        V::Null => json!({"t": "null"}),
        V::Type(t) => json!({"t": "type", "v": t}),
        V::Ts(s, n) => json!({"t": "ts", "s": s.to_string(), "n": n}),
        V::Dur(n) => json!({"t": "dur", "n": n.to_string()}),
        V::List(l) => json!({"t": "list", "v": l.iter().map(vjson).collect::<Vec<_>>()}),
        V::Map(m) => {
            let mut o = serde_json::Map::new();
            for (k, x) in m {
                o.insert(k.clone(), vjson(x));
            }
            json!({"t": "map", "v": o})
        }
    }
}

pub fn vunjson(j: &Value) -> Option<V> {
    let t = j.get("t")?.as_str()?;
    Some(match t {
        "int" => V::Int(j.get("v")?.as_str()?.parse().ok()?),
        "uint" => V::UInt(j.get("v")?.as_str()?.parse().ok()?),
        "f64" => V::F(f64::from_bits(u64::from_str_radix(j.get("bits")?.as_str()?, 16).ok()?)),
        "bool" => V::Bool(j.get("v")?.as_bool()?),
        "str" => V::Str(j.get("v")?.as_str()?.to_string()),
        "bytes" => V::Bytes(
            j.get("v")?
                .as_array()?
                .iter()
                .filter_map(|x| x.as_u64().map(|b| b as u8))
                .collect(),
        ),
        "null" => V::Null,
        "type" => V::Type(j.get("v")?.as_str()?.to_string()),
        "ts" => V::Ts(j.get("s")?.as_str()?.parse().ok()?, j.get("n")?.as_u64()? as u32),
        "dur" => V::Dur(j.get("n")?.as_str()?.parse().ok()?),
        "list" => V::List(j.get("v")?.as_array()?.iter().filter_map(vunjson).collect()),
        "map" => {
            let mut m = std::collections::BTreeMap::new();
            for (k, x) in j.get("v")?.as_object()? {
                m.insert(k.clone(), vunjson(x)?);
            }
            V::Map(m)
        }
        _ => return None,
    })
}

pub fn numeric_pool() -> Vec<V> {
    let mut p: Vec<V> = Vec::new();
    p.extend(int_pool().into_iter().map(V::Int));
    p.extend(uint_pool().into_iter().map(V::UInt));
    p.extend(f64_pool().into_iter().map(V::F));
    p.push(V::Bool(false));
    p.push(V::Bool(true));
    p
}

fn gen_num(g: &mut G) -> V {
    match g.below(8) {
        0 | 1 | 2 => V::Int(gen_int(g)),
        3 | 4 => V::UInt(gen_uint(g)),
        5 | 6 => V::F(gen_f64(g)),
        _ => V::Bool(g.flag()),
    }
}

fn run(opts: &Opts, acc: &mut Acc) {
    let pool = numeric_pool();
    // (1) exhaustive numeric grid
    let mut points: Vec<(usize, usize, usize)> = Vec::new();
    for o in 0..OPS.len() {
        for i in 0..pool.len() {
            for j in 0..pool.len() {
                points.push((o, i, j));
            }
        }
    }
    par_chunks(acc, opts.threads, &points, |(o, i, j), a| {
        for f in check_bin(OPS[*o], &pool[*i], &pool[*j], "grid", true, a) {
            a.fail(f);
        }
    });
    acc.mark_exhaustive(
        "grid",
        &format!("{} operators x {}^2 ordered pool pairs x 2 forms", OPS.len(), pool.len()),
    );

    // (2) non-numeric representatives against one value of each numeric kind, both sides
    let misc = misc_pool();
    let reps = vec![V::Int(3), V::UInt(3), V::F(1.5), V::Bool(true)];
    let mut pts: Vec<(usize, V, V)> = Vec::new();
    for o in 0..OPS.len() {
        for m in &misc {
            for r in &reps {
                pts.push((o, m.clone(), r.clone()));
                pts.push((o, r.clone(), m.clone()));
            }
            for m2 in &misc {
                pts.push((o, m.clone(), m2.clone()));
            }
        }
    }
    par_chunks(acc, opts.threads, &pts, |(o, x, y), a| {
        for f in check_bin(OPS[*o], x, y, "nonnumeric", true, a) {
            a.fail(f);
        }
    });
    acc.mark_exhaustive("nonnumeric", "every non-numeric representative x numeric kinds and x itself, both sides");

    // (2b) chains of three operands, every literal/bound pattern
    let cp = chain_pool();
    let mut pts: Vec<(usize, usize, usize, usize)> = Vec::new();
    for o in 0..CHAIN_OPS.len() {
        for i in 0..cp.len() {
            for j in 0..cp.len() {
                for k in 0..cp.len() {
                    pts.push((o, i, j, k));
                }
            }
        }
    }
    par_chunks(acc, opts.threads, &pts, |(o, i, j, k), a| {
        for f in check_chain3(CHAIN_OPS[*o].0, CHAIN_OPS[*o].1, [&cp[*i], &cp[*j], &cp[*k]], "chain3", a) {
            a.fail(f);
        }
    });
    acc.mark_exhaustive("chain3", "13 same-precedence operator pairs x 13^3 boundary operands x 8 literal/bound patterns");

    // (3) unary minus
    let mut negs = pool.clone();
    negs.extend(misc.clone());
    par_chunks(acc, opts.threads, &negs, |x, a| {
        for n in 1..=4 {
            for f in check_neg_run(x, n, "neg", a) {
                a.fail(f);
            }
        }
    });
    acc.mark_exhaustive("neg", "runs of 1..4 unary minus signs on every pool value, literal and bound form");

    // (4) random operand pairs
    let cases = match (opts.tier, opts.is_dbg()) {
        (Tier::Quick, _) => 400_000,
        (Tier::Thorough, false) => 10_000_000,
        (Tier::Thorough, true) => 1_000_000,
    };
    random_genomes(acc, opts, "random", cases, 40, |genome, a| {
        let mut g = G::new(genome);
        let op = *g.pick(OPS);
        let x = gen_num(&mut g);
        let y = gen_num(&mut g);
        let mut fs = check_bin(op, &x, &y, "random", false, a);
        if g.chance(32) {
            let n = 1 + g.below(4) as usize;
            fs.extend(check_neg_run(&x, n, "random", a));
        }
        fs
    });
}

fn replay(_opts: &Opts, d: &Value, acc: &mut Acc) {
    let kind = d.get("kind").and_then(|k| k.as_str()).unwrap_or("");
    let fails = match kind {
        "bin" => {
            let (Some(op), Some(a), Some(b)) = (
                d.get("op").and_then(|x| x.as_str()),
                d.get("a").and_then(vunjson),
                d.get("b").and_then(vunjson),
            ) else {
                acc.inconclusive.push("bad C03 replay file".into());
                return;
            };
            check_bin(op, &a, &b, "replay", false, acc)
        }
        "chain3" => {
            let (Some(op1), Some(op2), Some(a), Some(b), Some(c)) = (
                d.get("op1").and_then(|x| x.as_str()),
                d.get("op2").and_then(|x| x.as_str()),
                d.get("a").and_then(vunjson),
                d.get("b").and_then(vunjson),
                d.get("c").and_then(vunjson),
            ) else {
                acc.inconclusive.push("bad C03 replay file".into());
                return;
            };
            check_chain3(op1, op2, [&a, &b, &c], "replay", acc)
        }
        "neg" => {
            let Some(a) = d.get("a").and_then(vunjson) else {
                acc.inconclusive.push("bad C03 replay file".into());
                return;
            };
            let n = d.get("n").and_then(|n| n.as_u64()).unwrap_or(1) as usize;
            check_neg_run(&a, n, "replay", acc)
        }
        _ => {
            acc.inconclusive.push(format!("unknown C03 replay kind {:?}", kind));
            return;
        }
    };
    for f in fails {
        acc.fail(f);
    }
}

/// libFuzzer entry: one operator, two operands (and sometimes a run of minus signs)
pub fn fuzz_case(genome: &[u8], acc: &mut Acc) -> Vec<Failure> {
    let mut g = G::new(genome);
    let op = *g.pick(OPS);
    let x = gen_num(&mut g);
    let y = gen_num(&mut g);
    let mut fs = check_bin(op, &x, &y, "fuzz", false, acc);
    if g.chance(64) {
        let n = 1 + g.below(4) as usize;
        fs.extend(check_neg_run(&x, n, "fuzz", acc));
    }
    fs
}
