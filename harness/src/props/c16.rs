//! C16 — time arithmetic, calendar accessors, zones and unit conversion are consistent.
//!
//! Oracles written here (nothing is taken from chrono except the UTC offset of a zone at an
//! instant): i128 nanosecond arithmetic for `+`/`-`/ordering and for representability;
//! Howard Hinnant's civil_from_days / days_from_civil for the calendar fields; i128 division
//! truncating toward zero for duration totals; a table of exact unit definitions for
//! `uomConvert`.

use super::c03::{judge, vjson, vunjson, Exp};
use super::Prop;
use crate::engine::{hash64, par_chunks, random_genomes, unhex, Acc, Failure, Opts, Tier};
use crate::g::G;
use crate::run::{canon_cel, err_class, eval, Res, Sum};
use crate::val::*;
use chrono::{Offset, TimeZone};
use chrono_tz::Tz;
use rscel::CelValue;
use serde_json::{json, Value};

pub static PROP: Prop = Prop {
    id: "C16",
    rule: "values are bound as variables (VM path) and, where expressible, also written as literals (folded path). \
           Arithmetic: exhaustive grid timestamp-pool x duration-pool (t+d, d+t, t-d, law (t+d)-d==t), timestamp-pool^2 (t1-t2, law \
           (t1-t2)+t2==t1, 6 comparisons), duration-pool^2 (d1+d2, d1-d2, law d1+d2-d2==d1, 6 comparisons) + random operands (uniform over \
           the chrono range, pool, and within 2 days of the range edges / within 2 s of the duration limits). Accessors: the 10 calendar \
           accessors on first/last second of every month of 21 boundary years + the timestamp pool, each zone-less and with 'UTC', one call \
           per program and all ten in one list; ALL chrono_tz::TZ_VARIANTS names x (6 fixed instants incl. both range edges + first, last two \
           and one seed-chosen UTC-offset transition of that zone at T-1, T, T+1; thorough: every transition 1880..2038); invalid zone names \
           (empty, garbage, valid name + junk, wrong case); duration accessors on the duration pool + random. uomConvert: all ordered unit \
           pairs inside each category x 23 int/uint/double magnitudes, every alias (plain, upper-case, padded, with degree sign), all \
           cross-category pairs, unknown units, random (alias, alias, via-unit, magnitude) for inverse and transitivity. \
           Non-trivial = an instant within a day of a month/year boundary, of a UTC-offset transition of the zone used or of a range edge, \
           a zone other than UTC, a negative duration, an out-of-range intermediate, or a conversion between two different units; \
           distinct by canonical call text.",
    assumptions: &[
        "chrono-tz (the version rscel itself links) is trusted for the UTC offset of a zone at an instant and for the list of IANA names, nothing else",
        "t + d denotes the instant d after t and t1 - t2 the signed distance (exact nanosecond arithmetic); the representable range is chrono's: timestamps -262143-01-01T00:00:00Z ..= +262142-12-31T23:59:59.999999999Z, durations +-i64::MAX milliseconds",
        "civil fields use the proleptic Gregorian calendar with astronomical year numbering (year 0 exists)",
        "unit definitions are the exact NIST SP 811 / international ones of the units the uom crate provides (US customary liquid and dry volumes, avoirdupois pound, metric ton, slug = lbf s^2/ft); tolerances as stated in the design (1e-12 identity, 1e-9 inverse/transitivity, 5e-7 table); temperatures use an absolute tolerance rel*(|x|+|result|+500)",
        "duration.getMilliseconds is asserted for non-negative durations only (sub-second part, as the repository's own test pins); for negative durations any of the sign conventions is accepted",
        "a zone name that differs from an IANA name only in letter case may either fail or behave like that zone; white-space padded / trailing-degree unit spellings and aliases that USAGE.md does not list may be rejected, but if accepted must denote the same unit",
    ],
    run,
    replay,
    both_profiles: super::always_both,
};

// ---------------------------------------------------------------------------
// small helpers

const NS: i128 = 1_000_000_000;
const TS_LO: i128 = TS_MIN_S as i128 * NS;
const TS_HI: i128 = TS_MAX_S as i128 * NS + 999_999_999;
const DUR_HI: i128 = DUR_MAX_MS * 1_000_000;

fn ts_ns(s: i64, n: u32) -> i128 {
    s as i128 * NS + n as i128
}

fn ts_of(ns: i128) -> Option<V> {
    if ns < TS_LO || ns > TS_HI {
        None
    } else {
        Some(V::Ts(ns.div_euclid(NS) as i64, ns.rem_euclid(NS) as u32))
    }
}

fn dur_of(ns: i128) -> Option<V> {
    if ns < -DUR_HI || ns > DUR_HI {
        None
    } else {
        Some(V::Dur(ns))
    }
}

/// like `Res::sum`, but a top-level error *value* is a failure too
fn summ(res: &Res) -> Sum {
    match res {
        Res::Ok(CelValue::Err(e)) => Sum::Err(err_class(e).to_string()),
        other => other.sum(),
    }
}

fn item_sum(v: &CelValue) -> Sum {
    match v {
        CelValue::Err(e) => Sum::Err(err_class(e).to_string()),
        o => match V::from_cel(o) {
            Some(x) => Sum::Val(x.canon()),
            None => Sum::Odd(canon_cel(o)),
        },
    }
}

fn mode_of(m: &str, got: &Sum) -> String {
    match got {
        Sum::Panic(p) => format!("panic-{}", p.split('@').next().unwrap_or("other")),
        _ => m.to_string(),
    }
}

fn exp_show(e: &Exp) -> String {
    match e {
        Exp::Val(v) => v.canon(),
        Exp::Fail => "an error".to_string(),
        Exp::ValOrFail(v) => format!("{} or an error", v.canon()),
        Exp::Unspecified => "unspecified".to_string(),
    }
}

fn tn(v: &V) -> &'static str {
    match v {
        V::Ts(..) => "ts",
        V::Dur(_) => "dur",
        _ => "other",
    }
}

// ---------------------------------------------------------------------------
// civil calendar (Howard Hinnant, "chrono-Compatible Low-Level Date Algorithms")

/// days since 1970-01-01 -> (year, month 1..=12, day 1..=31), proleptic Gregorian
pub fn civil_from_days(z: i64) -> (i64, i64, i64) {
    let z = z + 719_468;
    let era = z.div_euclid(146_097);
    let doe = z.rem_euclid(146_097); // [0, 146096]
    let yoe = (doe - doe / 1460 + doe / 36_524 - doe / 146_096) / 365; // [0, 399]
    let y = yoe + era * 400;
    let doy = doe - (365 * yoe + yoe / 4 - yoe / 100); // [0, 365], March-based
    let mp = (5 * doy + 2) / 153; // [0, 11]
    let d = doy - (153 * mp + 2) / 5 + 1;
    let m = if mp < 10 { mp + 3 } else { mp - 9 };
    (if m <= 2 { y + 1 } else { y }, m, d)
}

pub fn days_from_civil(y: i64, m: i64, d: i64) -> i64 {
    let y = if m <= 2 { y - 1 } else { y };
    let era = y.div_euclid(400);
    let yoe = y.rem_euclid(400);
    let mp = if m > 2 { m - 3 } else { m + 9 };
    let doy = (153 * mp + 2) / 5 + d - 1;
    let doe = yoe * 365 + yoe / 4 - yoe / 100 + doy;
    era * 146_097 + doe - 719_468
}

fn is_leap(y: i64) -> bool {
    y.rem_euclid(4) == 0 && (y.rem_euclid(100) != 0 || y.rem_euclid(400) == 0)
}

fn days_in_month(y: i64, m: i64) -> i64 {
    match m {
        1 | 3 | 5 | 7 | 8 | 10 | 12 => 31,
        4 | 6 | 9 | 11 => 30,
        _ => {
            if is_leap(y) {
                29
            } else {
                28
            }
        }
    }
}

#[derive(Clone, Debug)]
pub struct Civil {
    pub year: i64,
    pub month: i64, // 1-based
    pub day: i64,   // 1-based
    pub doy0: i64,
    pub dow: i64, // Sunday = 0
    pub h: i64,
    pub mi: i64,
    pub s: i64,
    pub ms: i64,
}

pub fn civil_of(local_secs: i64, nanos: u32) -> Civil {
    let days = local_secs.div_euclid(86_400);
    let sod = local_secs.rem_euclid(86_400);
    let (year, month, day) = civil_from_days(days);
    Civil {
        year,
        month,
        day,
        doy0: days - days_from_civil(year, 1, 1),
        dow: (days + 4).rem_euclid(7), // 1970-01-01 was a Thursday
        h: sod / 3600,
        mi: sod % 3600 / 60,
        s: sod % 60,
        ms: (nanos / 1_000_000) as i64,
    }
}

pub const ACCS: &[&str] = &[
    "getDate",
    "getDayOfMonth",
    "getDayOfWeek",
    "getDayOfYear",
    "getFullYear",
    "getMonth",
    "getHours",
    "getMinutes",
    "getSeconds",
    "getMilliseconds",
];
const DOW: usize = 2;

/// documented bases: date one-based; day-of-month, day-of-year, month zero-based; Sunday = 0
fn field(c: &Civil, i: usize) -> i64 {
    match i {
        0 => c.day,
        1 => c.day - 1,
        2 => c.dow,
        3 => c.doy0,
        4 => c.year,
        5 => c.month - 1,
        6 => c.h,
        7 => c.mi,
        8 => c.s,
        _ => c.ms,
    }
}

/// UTC offset (seconds east) of `tz` at the instant; the only thing taken from chrono-tz
fn offset_at(tz: Tz, secs: i64) -> i64 {
    let secs = secs.clamp(TS_MIN_S, TS_MAX_S);
    match chrono::DateTime::from_timestamp(secs, 0) {
        Some(dt) => tz.offset_from_utc_datetime(&dt.naive_utc()).fix().local_minus_utc() as i64,
        None => 0,
    }
}

/// first seconds of a new UTC offset in [lo, hi], found by scanning in `step`-second strides
fn transitions(tz: Tz, lo: i64, hi: i64, step: i64) -> Vec<i64> {
    let mut out = Vec::new();
    let mut a = lo;
    let mut oa = offset_at(tz, a);
    while a < hi {
        let b = a.saturating_add(step).min(hi);
        let ob = offset_at(tz, b);
        if ob != oa {
            let (mut l, mut r) = (a, b);
            while r - l > 1 {
                let m = l + (r - l) / 2;
                if offset_at(tz, m) == oa {
                    l = m;
                } else {
                    r = m;
                }
            }
            out.push(r);
        }
        a = b;
        oa = ob;
    }
    out
}

fn near_month_or_edge(secs: i64) -> bool {
    if secs - TS_MIN_S <= 86_400 || TS_MAX_S - secs <= 86_400 {
        return true;
    }
    let c = civil_of(secs, 0);
    c.day == 1 || c.day == days_in_month(c.year, c.month)
}

fn near_transition(tz: Tz, secs: i64) -> bool {
    offset_at(tz, secs.saturating_sub(86_400)) != offset_at(tz, secs.saturating_add(86_400))
}

// ---------------------------------------------------------------------------
// arithmetic

/// "+" / "-" on timestamps and durations; one rule per clause of the statement
pub fn model_arith(sym: &str, a: &V, b: &V) -> Exp {
    let r = match (sym, a, b) {
        ("+", V::Ts(s, n), V::Dur(d)) | ("+", V::Dur(d), V::Ts(s, n)) => ts_of(ts_ns(*s, *n) + *d),
        ("-", V::Ts(s, n), V::Dur(d)) => ts_of(ts_ns(*s, *n) - *d),
        ("-", V::Ts(s1, n1), V::Ts(s2, n2)) => dur_of(ts_ns(*s1, *n1) - ts_ns(*s2, *n2)),
        ("+", V::Dur(x), V::Dur(y)) => dur_of(*x + *y),
        ("-", V::Dur(x), V::Dur(y)) => dur_of(*x - *y),
        // duration - timestamp, timestamp + timestamp: no sentence determines them
        _ => return Exp::Unspecified,
    };
    match r {
        Some(v) => Exp::Val(v),
        // "results outside the representable range are errors"
        None => Exp::Fail,
    }
}

fn v_nontrivial(v: &V) -> bool {
    match v {
        V::Ts(s, _) => near_month_or_edge(*s),
        V::Dur(d) => *d < 0,
        _ => false,
    }
}

/// evaluate `var_src` under binds x,y and, if both operands have a literal spelling, the
/// source produced by `lit_src(xlit, ylit)`; returns (form, source, outcome)
fn two_forms(var_src: &str, a: &V, b: &V, lit_src: impl Fn(&str, &str) -> String) -> Vec<(&'static str, String, Sum)> {
    let binds = vec![("x".to_string(), a.clone()), ("y".to_string(), b.clone())];
    let mut out = vec![("var", var_src.to_string(), summ(&eval(var_src, &binds).res))];
    if let (Some(la), Some(lb)) = (a.lit(), b.lit()) {
        let s = lit_src(&la, &lb);
        let r = summ(&eval(&s, &[]).res);
        out.push(("lit", s, r));
    }
    out
}

pub fn check_arith(sym: &str, a: &V, b: &V, sub: &str, acc: &mut Acc) -> Vec<Failure> {
    let exp = model_arith(sym, a, b);
    let opn = format!("{}{}{}", tn(a), sym, tn(b));
    let canon = format!("{} {} {}", a.canon(), sym, b.canon());
    let res_nt = match &exp {
        Exp::Val(v) => v_nontrivial(v),
        Exp::Fail => true,
        _ => false,
    };
    let class = format!(
        "arith:{}:{}",
        opn,
        match &exp {
            Exp::Fail => "out-of-range",
            Exp::Unspecified => "unspecified",
            _ => "in-range",
        }
    );
    acc.case(sub, &canon, v_nontrivial(a) || v_nontrivial(b) || res_nt, &class);
    if let Exp::Unspecified = exp {
        acc.skip("duration - timestamp is not determined by the statement (only totality is checked)");
    }
    let var_src = format!("x {} y", sym);
    let forms = two_forms(&var_src, a, b, |x, y| format!("{} {} {}", x, sym, y));
    acc.eval_only(sub, forms.len() as u64 - 1);
    acc.sample(&class, || {
        json!({"expr": forms.last().map(|f| f.1.clone()), "bound_form": var_src, "x": a.canon(), "y": b.canon(),
               "expected": exp_show(&exp), "results": forms.iter().map(|f| format!("{}: {}", f.0, f.2.show())).collect::<Vec<_>>()})
    });
    let mut out = Vec::new();
    for (form, src, got) in &forms {
        if let Some(m) = judge(&exp, got) {
            out.push(Failure::new(
                format!("c16:arith:{}:{}", opn, mode_of(m, got)),
                format!("{} with x={} y={} ({} form): expected {}, got {}", src, a.canon(), b.canon(), form, exp_show(&exp), got.show()),
                json!({"kind": "arith", "sym": sym, "a": vjson(a), "b": vjson(b), "form": form, "source": src,
                       "expected": exp_show(&exp), "actual": got.show()}),
            ));
        }
    }
    out
}

pub const LAWS: &[&str] = &["(t+d)-d==t", "(d+t)-d==t", "(t1-t2)+t2==t1", "d1+d2-d2==d1"];

fn law_src(law: &str, x: &str, y: &str) -> String {
    match law {
        "(t+d)-d==t" => format!("({x} + {y}) - {y} == {x}"),
        "(d+t)-d==t" => format!("({y} + {x}) - {y} == {x}"),
        "(t1-t2)+t2==t1" => format!("({x} - {y}) + {y} == {x}"),
        _ => format!("{x} + {y} - {y} == {x}"),
    }
}

/// operand types a law is stated for
fn law_fits(law: &str, a: &V, b: &V) -> bool {
    match law {
        "(t+d)-d==t" | "(d+t)-d==t" => matches!((a, b), (V::Ts(..), V::Dur(_))),
        "(t1-t2)+t2==t1" => matches!((a, b), (V::Ts(..), V::Ts(..))),
        _ => matches!((a, b), (V::Dur(_), V::Dur(_))),
    }
}

pub fn check_law(law: &str, a: &V, b: &V, sub: &str, acc: &mut Acc) -> Vec<Failure> {
    if !law_fits(law, a, b) {
        return vec![];
    }
    // "whenever every intermediate is in range": the first intermediate decides, the second
    // one is the left operand again
    let first = match law {
        "(t1-t2)+t2==t1" => model_arith("-", a, b),
        _ => model_arith("+", a, b),
    };
    let in_range = matches!(first, Exp::Val(_));
    let exp = if in_range { Exp::Val(V::Bool(true)) } else { Exp::Unspecified };
    let canon = format!("{} @ {} , {}", law, a.canon(), b.canon());
    let class = format!("law:{}:{}", law, if in_range { "in-range" } else { "intermediate-out-of-range" });
    acc.case(sub, &canon, v_nontrivial(a) || v_nontrivial(b) || !in_range, &class);
    if !in_range {
        acc.skip("law with an out-of-range intermediate: the failing operation itself is asserted by the arithmetic sub-check");
    }
    let var_src = law_src(law, "x", "y");
    let forms = two_forms(&var_src, a, b, |x, y| law_src(law, x, y));
    acc.eval_only(sub, forms.len() as u64 - 1);
    acc.sample(&class, || {
        json!({"law": law, "bound_form": var_src, "x": a.canon(), "y": b.canon(), "expected": exp_show(&exp),
               "results": forms.iter().map(|f| format!("{}: {}", f.0, f.2.show())).collect::<Vec<_>>()})
    });
    let mut out = Vec::new();
    for (form, src, got) in &forms {
        if let Some(m) = judge(&exp, got) {
            out.push(Failure::new(
                format!("c16:law:{}:{}", law, mode_of(m, got)),
                format!("{} with x={} y={} ({} form): expected {}, got {}", src, a.canon(), b.canon(), form, exp_show(&exp), got.show()),
                json!({"kind": "law", "law": law, "a": vjson(a), "b": vjson(b), "form": form, "source": src,
                       "expected": exp_show(&exp), "actual": got.show()}),
            ));
        }
    }
    out
}

fn order_src(x: &str, y: &str) -> String {
    format!("[{x} < {y}, {x} <= {y}, {x} > {y}, {x} >= {y}, {x} == {y}, {x} != {y}]")
}

pub fn check_order(a: &V, b: &V, sub: &str, acc: &mut Acc) -> Vec<Failure> {
    let (x, y) = match (a, b) {
        (V::Ts(s1, n1), V::Ts(s2, n2)) => (ts_ns(*s1, *n1), ts_ns(*s2, *n2)),
        (V::Dur(d1), V::Dur(d2)) => (*d1, *d2),
        _ => return vec![],
    };
    // "ordering is chronological"
    let exp = Exp::Val(V::List(
        [x < y, x <= y, x > y, x >= y, x == y, x != y].iter().map(|b| V::Bool(*b)).collect(),
    ));
    let canon = format!("order {} , {}", a.canon(), b.canon());
    let class = format!("order:{}:{}", tn(a), if x < y { "lt" } else if x == y { "eq" } else { "gt" });
    acc.case(sub, &canon, v_nontrivial(a) || v_nontrivial(b), &class);
    let var_src = order_src("x", "y");
    let forms = two_forms(&var_src, a, b, order_src);
    acc.eval_only(sub, forms.len() as u64 - 1);
    acc.sample(&class, || {
        json!({"bound_form": var_src, "x": a.canon(), "y": b.canon(), "expected": exp_show(&exp),
               "results": forms.iter().map(|f| format!("{}: {}", f.0, f.2.show())).collect::<Vec<_>>()})
    });
    let mut out = Vec::new();
    for (form, src, got) in &forms {
        if let Some(m) = judge(&exp, got) {
            out.push(Failure::new(
                format!("c16:order:{}:{}", tn(a), mode_of(m, got)),
                format!("{} with x={} y={} ({} form): expected {}, got {}", src, a.canon(), b.canon(), form, exp_show(&exp), got.show()),
                json!({"kind": "order", "a": vjson(a), "b": vjson(b), "form": form, "source": src,
                       "expected": exp_show(&exp), "actual": got.show()}),
            ));
        }
    }
    out
}

// ---------------------------------------------------------------------------
// calendar accessors

fn acc_call(recv: &str, i: usize, zone: Option<&str>) -> String {
    format!("{}.{}({})", recv, ACCS[i], zone.unwrap_or(""))
}

/// results of the ten accessors; `batched` = all ten in one list-building program (falls
/// back to one program per call when that does not yield a ten-element list)
fn eval_accs(recv: &str, zone: Option<&str>, binds: &[(String, V)], batched: bool) -> (Vec<Sum>, u64) {
    if batched {
        let src = format!("[{}]", (0..ACCS.len()).map(|i| acc_call(recv, i, zone)).collect::<Vec<_>>().join(", "));
        if let Res::Ok(CelValue::List(items)) = &eval(&src, binds).res {
            if items.len() == ACCS.len() {
                return (items.iter().map(item_sum).collect(), 1);
            }
        }
    }
    (
        (0..ACCS.len()).map(|i| summ(&eval(&acc_call(recv, i, zone), binds).res)).collect(),
        ACCS.len() as u64 + batched as u64,
    )
}

pub struct AccOut {
    pub fails: Vec<Failure>,
    /// bound-form results, for relations between calls
    pub var: Vec<Sum>,
}

/// All ten accessors on one instant, zone-less (`zone == None`) or with a valid IANA name.
pub fn check_accessors(ts: (i64, u32), zone: Option<&str>, batched: bool, sub: &str, acc: &mut Acc) -> AccOut {
    let tz: Option<Tz> = match zone {
        Some(z) => match z.parse::<Tz>() {
            Ok(t) => Some(t),
            Err(_) => return AccOut { fails: vec![], var: vec![] },
        },
        None => None,
    };
    let off = tz.map(|t| offset_at(t, ts.0)).unwrap_or(0);
    let local = ts.0 + off; // |off| < 1 day, |secs| < 2^43
    let civ = civil_of(local, ts.1);
    let tv = V::Ts(ts.0, ts.1);
    let near_dst = tz.map(|t| near_transition(t, ts.0)).unwrap_or(false);
    let non_utc = matches!(zone, Some(z) if z != "UTC");
    let nontrivial = near_month_or_edge(ts.0) || near_month_or_edge(local.clamp(TS_MIN_S, TS_MAX_S)) || near_dst || non_utc;
    let zkind = match zone {
        None => "zoneless",
        Some("UTC") => "UTC",
        Some(_) => {
            if near_dst {
                "zone-near-transition"
            } else {
                "zone"
            }
        }
    };
    for i in 0..ACCS.len() {
        let canon = format!("{}.{}({})", tv.canon(), ACCS[i], zone.unwrap_or(""));
        acc.case(sub, &canon, nontrivial, &format!("accessor:{}:{}", zkind, if batched { "list" } else { "single" }));
    }
    let mut binds = vec![("t".to_string(), tv.clone())];
    if let Some(z) = zone {
        binds.push(("z".to_string(), V::s(z)));
    }
    let (var, n1) = eval_accs("t", zone.map(|_| "z"), &binds, batched);
    let zl = zone.map(str_lit);
    let lit = tv.lit().map(|l| eval_accs(&l, zl.as_deref(), &[], batched));
    let _ = n1;
    acc.eval_only(sub, if lit.is_some() { ACCS.len() as u64 } else { 0 });
    acc.sample(&format!("accessor:{}", zkind), || {
        json!({"t": tv.canon(), "zone": zone, "utc_offset_s": off,
               "calls": (0..ACCS.len()).map(|i| format!("{} expected {} got {}", acc_call("t", i, zone.map(|_| "z")), field(&civ, i), var[i].show())).collect::<Vec<_>>()})
    });
    let mut fails = Vec::new();
    let mut forms: Vec<(&str, &Vec<Sum>)> = vec![("var", &var)];
    if let Some((l, _)) = &lit {
        forms.push(("lit", l));
    }
    for (form, results) in forms {
        for i in 0..ACCS.len() {
            let e = field(&civ, i);
            let got = &results[i];
            let exp = Exp::Val(V::Int(e));
            let Some(m) = judge(&exp, got) else { continue };
            let sig = if i == DOW && zone.is_some() && *got == Sum::Val(V::Int(e + 1).canon()) {
                // the zone form counts from Sunday = 1 (pinned by the repository's own test)
                "c16:getDayOfWeek-zone:off-by-one".to_string()
            } else {
                format!("c16:{}-{}:{}", ACCS[i], if zone.is_some() { "zone" } else { "utc" }, mode_of(m, got))
            };
            let call = if form == "var" {
                acc_call("t", i, zone.map(|_| "z"))
            } else {
                acc_call(&tv.lit().unwrap_or_default(), i, zl.as_deref())
            };
            fails.push(Failure::new(
                sig,
                format!("{} with t={} z={:?} (offset {} s, {} form{}): expected {}, got {}", call, tv.canon(), zone, off, form,
                        if batched { ", inside a list" } else { "" }, e, got.show()),
                json!({"kind": "acc", "ts": vjson(&tv), "zone": zone, "batched": batched, "accessor": ACCS[i], "form": form,
                       "utc_offset_s": off, "expected": e, "actual": got.show()}),
            ));
        }
    }
    AccOut { fails, var }
}

/// "the zone-less form equals the form with zone \"UTC\"" — on rscel's own answers
fn check_zoneless_vs_utc(ts: (i64, u32), a: &[Sum], b: &[Sum]) -> Vec<Failure> {
    let mut out = Vec::new();
    if a.len() != ACCS.len() || b.len() != ACCS.len() {
        return out;
    }
    for i in 0..ACCS.len() {
        if a[i] == b[i] || a[i].is_panic() || b[i].is_panic() {
            continue; // panics are reported by check_accessors
        }
        let off_by_one = i == DOW
            && matches!((&a[i], &b[i]), (Sum::Val(x), Sum::Val(y))
                if x.parse::<i64>().ok().zip(y.parse::<i64>().ok()).map(|(x, y)| y == x + 1).unwrap_or(false));
        let sig = if off_by_one {
            "c16:getDayOfWeek-zone:off-by-one".to_string()
        } else {
            format!("c16:zoneless-vs-utc:{}:differs", ACCS[i])
        };
        out.push(Failure::new(
            sig,
            format!("t.{}() = {} but t.{}('UTC') = {} for t={}", ACCS[i], a[i].show(), ACCS[i], b[i].show(), V::Ts(ts.0, ts.1).canon()),
            json!({"kind": "utcpair", "ts": vjson(&V::Ts(ts.0, ts.1)), "accessor": ACCS[i], "zoneless": a[i].show(), "utc": b[i].show()}),
        ));
    }
    out
}

/// zone-less and 'UTC' forms of one instant plus their relation
pub fn check_utc_pair(ts: (i64, u32), batched: bool, sub: &str, acc: &mut Acc) -> Vec<Failure> {
    let a = check_accessors(ts, None, batched, sub, acc);
    let b = check_accessors(ts, Some("UTC"), batched, sub, acc);
    let mut out = check_zoneless_vs_utc(ts, &a.var, &b.var);
    // the relation duplicates the known off-by-one of the zone form: keep one report
    if b.fails.iter().any(|f| f.sig == "c16:getDayOfWeek-zone:off-by-one") {
        out.retain(|f| f.sig != "c16:getDayOfWeek-zone:off-by-one");
    }
    out.extend(a.fails);
    out.extend(b.fails);
    out
}

/// A name that is not in the time-zone database. `orig` = the IANA name it differs from in
/// letter case only (then behaving like that zone is accepted as well).
pub fn check_badzone(ts: (i64, u32), name: &str, orig: Option<&str>, sub: &str, acc: &mut Acc) -> Vec<Failure> {
    if name.parse::<Tz>().is_ok() {
        return vec![]; // it is a known name after all
    }
    let tv = V::Ts(ts.0, ts.1);
    let class = if orig.is_some() { "wrong-case" } else if name.is_empty() { "empty" } else { "garbage" };
    for i in 0..ACCS.len() {
        acc.case(sub, &format!("{}.{}({:?})", tv.canon(), ACCS[i], name), true, &format!("badzone:{}", class));
    }
    let binds = vec![("t".to_string(), tv.clone()), ("z".to_string(), V::s(name))];
    let (var, n1) = eval_accs("t", Some("z"), &binds, true);
    let zl = str_lit(name);
    let lit = tv.lit().map(|l| eval_accs(&l, Some(&zl), &[], false));
    acc.eval_only(sub, n1.saturating_sub(ACCS.len() as u64) + lit.as_ref().map(|l| l.1).unwrap_or(0));
    let reference: Option<Vec<Sum>> = orig.map(|o| {
        let b = vec![("t".to_string(), tv.clone()), ("z".to_string(), V::s(o))];
        eval_accs("t", Some("z"), &b, true).0
    });
    acc.sample(&format!("badzone:{}", class), || {
        json!({"t": tv.canon(), "zone": name, "differs_in_case_only_from": orig, "results": var.iter().map(|s| s.show()).collect::<Vec<_>>()})
    });
    let mut out = Vec::new();
    let mut forms: Vec<(&str, &Vec<Sum>)> = vec![("var", &var)];
    if let Some((l, _)) = &lit {
        forms.push(("lit", l));
    }
    for (form, results) in forms {
        for i in 0..ACCS.len() {
            let got = &results[i];
            let ok = match got {
                Sum::Err(_) => true,
                Sum::Panic(_) => false,
                other => reference.as_ref().map(|r| &r[i] == other).unwrap_or(false),
            };
            if ok {
                continue;
            }
            out.push(Failure::new(
                format!("c16:badzone:{}:{}", class, mode_of("value-instead-of-error", got)),
                format!("t.{}({:?}) with t={} ({} form): the zone is unknown, expected an error, got {}", ACCS[i], name, tv.canon(), form, got.show()),
                json!({"kind": "badzone", "ts": vjson(&tv), "zone": name, "orig": orig, "accessor": ACCS[i], "form": form, "actual": got.show()}),
            ));
            break;
        }
    }
    out
}

// ---------------------------------------------------------------------------
// duration accessors

pub const DACCS: &[&str] = &["getHours", "getMinutes", "getSeconds", "getMilliseconds"];

pub fn check_dur_accessors(d: i128, sub: &str, acc: &mut Acc) -> Vec<Failure> {
    let dv = V::Dur(d);
    // "total whole hours, minutes and seconds": i128 division truncates toward zero
    let totals = [d / (3600 * NS), d / (60 * NS), d / NS];
    let sub_ns = d % NS; // sign of d
    let ms_trunc = sub_ns / 1_000_000;
    let ms_ok: Vec<i128> = if d >= 0 {
        vec![ms_trunc] // "the sub-second millisecond part"
    } else {
        // sign conventions for a negative duration: truncated (<= 0), magnitude, floored,
        // and the non-negative remainder of a floored seconds count
        let floor = sub_ns.div_euclid(1_000_000);
        vec![ms_trunc, -ms_trunc, floor, -floor, d.rem_euclid(NS) / 1_000_000]
    };
    for i in 0..DACCS.len() {
        acc.case(sub, &format!("{}.{}()", dv.canon(), DACCS[i]), d < 0, &format!("dur-accessor:{}", if d < 0 { "negative" } else { "non-negative" }));
    }
    let binds = vec![("d".to_string(), dv.clone())];
    let call = |recv: &str, i: usize| format!("{}.{}()", recv, DACCS[i]);
    let var: Vec<Sum> = (0..DACCS.len()).map(|i| summ(&eval(&call("d", i), &binds).res)).collect();
    let lit: Option<Vec<Sum>> = dv.lit().map(|l| (0..DACCS.len()).map(|i| summ(&eval(&call(&l, i), &[]).res)).collect());
    acc.eval_only(sub, if lit.is_some() { DACCS.len() as u64 } else { 0 });
    acc.sample(if d < 0 { "dur-accessor:negative" } else { "dur-accessor:non-negative" }, || {
        json!({"d": dv.canon(), "literal": dv.lit(), "expected_totals_h_m_s": totals.iter().map(|t| t.to_string()).collect::<Vec<_>>(),
               "accepted_milliseconds": ms_ok.iter().map(|t| t.to_string()).collect::<Vec<_>>(),
               "results": var.iter().map(|s| s.show()).collect::<Vec<_>>()})
    });
    let mut out = Vec::new();
    let mut forms: Vec<(&str, &Vec<Sum>)> = vec![("var", &var)];
    if let Some(l) = &lit {
        forms.push(("lit", l));
    }
    for (form, results) in forms {
        for i in 0..DACCS.len() {
            let got = &results[i];
            let accepted: Vec<i128> = if i < 3 { vec![totals[i]] } else { ms_ok.clone() };
            let ok = accepted.iter().any(|e| *e >= i64::MIN as i128 && *e <= i64::MAX as i128 && *got == Sum::Val(V::Int(*e as i64).canon()));
            if ok {
                continue;
            }
            let m = match got {
                Sum::Err(_) => "error-instead-of-value",
                _ => "wrong-value",
            };
            out.push(Failure::new(
                format!("c16:dur-{}:{}", DACCS[i], mode_of(m, got)),
                format!("d.{}() with d={} ({} form): expected {:?}, got {}", DACCS[i], dv.canon(), form, accepted, got.show()),
                json!({"kind": "dur", "d": vjson(&dv), "accessor": DACCS[i], "form": form,
                       "expected": accepted.iter().map(|t| t.to_string()).collect::<Vec<_>>(), "actual": got.show()}),
            ));
        }
    }
    out
}

// ---------------------------------------------------------------------------
// units

pub struct Unit {
    pub cat: &'static str,
    /// spelling used in the grids
    pub name: &'static str,
    /// SI value = (x + off) * k
    pub k: f64,
    pub off: f64,
    /// spellings USAGE.md lists
    pub documented: &'static [&'static str],
    /// further spellings the implementation accepts (uom.rs Unit::from_str)
    pub extra: &'static [&'static str],
}

pub fn units() -> Vec<Unit> {
    let inch = 0.0254_f64;
    let in3 = inch * inch * inch;
    let gal = 231.0 * in3; // US liquid gallon = 231 cubic inches
    let lb = 0.453_592_37_f64; // international avoirdupois pound
    let u = |cat, name, k, off, documented, extra| Unit { cat, name, k, off, documented, extra };
    vec![
        u("mass", "kg", 1.0, 0.0, &["kg", "kilogram"], &["kilograms"]),
        u("mass", "g", 1e-3, 0.0, &["g", "gram"], &["grams"]),
        u("mass", "mg", 1e-6, 0.0, &["milligram"], &["mg", "milligrams"]),
        u("mass", "lb", lb, 0.0, &["lb", "lbs", "pound"], &["pounds"]),
        u("mass", "oz", lb / 16.0, 0.0, &["oz", "ounce"], &["ounces"]),
        u("mass", "stone", 14.0 * lb, 0.0, &["stone"], &["st", "stones"]),
        u("mass", "slug", lb * 9.806_65 / 0.3048, 0.0, &["slug"], &["slugs"]),
        u("mass", "tonne", 1000.0, 0.0, &["ton", "tonne"], &["metric_ton", "metric ton"]),
        u("volume", "liter", 1e-3, 0.0, &["l", "liter"], &["liters", "litre", "litres"]),
        u("volume", "milliliter", 1e-6, 0.0, &["milliliter"], &["ml", "milliliters", "millilitre", "millilitres"]),
        u("volume", "gallon", gal, 0.0, &["gallon"], &["gal", "gallons"]),
        u("volume", "liquid quart", gal / 4.0, 0.0, &["liquid quart"], &["quart", "quarts", "qt", "qts", "liquid_quart"]),
        u("volume", "dry quart", 67.200_625 * in3, 0.0, &["dry quart"], &["dry_quart"]),
        u("volume", "liquid pint", gal / 8.0, 0.0, &["liquid pint"], &["pint", "pints", "pt", "pts", "liquid_pint"]),
        u("volume", "dry pint", 33.600_312_5 * in3, 0.0, &["dry pint"], &["dry_pint"]),
        u("volume", "cup", gal / 16.0, 0.0, &["cup"], &["cups"]),
        u("volume", "fluid ounce", gal / 128.0, 0.0, &["fluid ounce"], &["fl oz", "floz", "fluid_ounce", "fluid-ounce"]),
        u("volume", "tablespoon", gal / 256.0, 0.0, &["tablespoon"], &["tbsp", "tablespoons"]),
        u("volume", "teaspoon", gal / 768.0, 0.0, &["teaspoon"], &["tsp", "teaspoons"]),
        u("volume", "cubic meter", 1.0, 0.0, &["cubic meter"], &["cubic_meter", "m3"]),
        u("volume", "cubic foot", 0.3048 * 0.3048 * 0.3048, 0.0, &["cubic foot"], &["cubic_foot", "ft3", "cu ft"]),
        u("volume", "cubic yard", 0.9144 * 0.9144 * 0.9144, 0.0, &["cubic yard"], &["cubic_yard", "yd3", "cu yd"]),
        u("speed", "m/s", 1.0, 0.0, &["m/s", "meter per second"], &["meters per second", "meter_per_second"]),
        u("speed", "km/h", 1000.0 / 3600.0, 0.0, &["km/h", "kph", "kilometer per hour"], &["kilometers per hour", "kilometer_per_hour"]),
        u("speed", "mph", 1609.344 / 3600.0, 0.0, &["mph", "mile per hour"], &["miles per hour", "mile_per_hour"]),
        u("speed", "knot", 1852.0 / 3600.0, 0.0, &["knot"], &["kn", "knots"]),
        u("speed", "ft/s", 0.3048, 0.0, &["ft/s", "fps", "foot per second"], &["feet per second", "foot_per_second"]),
        u("temperature", "kelvin", 1.0, 0.0, &["K", "kelvin"], &[]),
        u("temperature", "celsius", 1.0, 273.15, &["C", "celsius"], &[]),
        u("temperature", "fahrenheit", 5.0 / 9.0, 459.67, &["F", "fahrenheit"], &[]),
    ]
}

const UNKNOWN_UNITS: &[&str] = &["", "lightyear", "parsec", "furlong per fortnight", "xyz", "kg2", "kilo gram", "°", "m\\s", "kgx", "xkg", "meter"];

fn conv(x: f64, f: &Unit, t: &Unit) -> f64 {
    ((x + f.off) * f.k) / t.k - t.off
}

fn mag_f64(x: &V) -> Option<f64> {
    match x {
        V::Int(i) => Some(*i as f64),
        V::UInt(u) => Some(*u as f64),
        V::F(f) => Some(*f),
        _ => None,
    }
}

fn close(got: f64, want: f64, rel: f64, x: f64, temp: bool) -> bool {
    if !got.is_finite() {
        return false;
    }
    let tol = if temp { rel * (x.abs() + want.abs() + 500.0) } else { rel * want.abs() };
    (got - want).abs() <= tol
}

fn as_f(s: &Res) -> Option<f64> {
    match s {
        Res::Ok(CelValue::Float(f)) => Some(*f),
        _ => None,
    }
}

fn uom_call(x: &str, f: &str, t: &str) -> String {
    format!("uomConvert({}, {}, {})", x, f, t)
}

/// One conversion `x from -> to`, where the spellings denote units `fu` / `tu` of the table.
/// `lenient`: the spelling is not documented, a rejection is tolerated. `via` = table index
/// of a third unit of the same category for the transitivity check.
#[allow(clippy::too_many_arguments)]
pub fn check_uom(x: &V, from: &str, fu: usize, to: &str, tu: usize, via: Option<usize>, lenient: bool, sub: &str, acc: &mut Acc) -> Vec<Failure> {
    let tab = units();
    let (Some(f), Some(t), Some(xf)) = (tab.get(fu), tab.get(tu), mag_f64(x)) else { return vec![] };
    if f.cat != t.cat {
        return vec![];
    }
    let temp = f.cat == "temperature";
    let want = conv(xf, f, t);
    let canon = format!("uomConvert({}, {:?}, {:?})", x.canon(), from, to);
    let class = format!("uom:{}:{}:{}", f.cat, if fu == tu { "same-unit" } else { "cross-unit" }, x.type_name());
    acc.case(sub, &canon, fu != tu, &class);
    let binds = vec![("x".to_string(), x.clone()), ("f".to_string(), V::s(from)), ("t".to_string(), V::s(to))];
    let var_src = uom_call("x", "f", "t");
    let var = eval(&var_src, &binds).res;
    let lit_src = x.lit().map(|xl| uom_call(&xl, &str_lit(from), &str_lit(to)));
    let lit = lit_src.as_ref().map(|s| eval(s, &[]).res);
    acc.eval_only(sub, lit.is_some() as u64);
    acc.sample(&format!("uom:{}:{}", f.cat, if fu == tu { "same" } else { "cross" }), || {
        json!({"expr": lit_src, "bound_form": var_src, "x": x.canon(), "from": from, "to": to, "expected": canon_f64(want), "result": summ(&var).show()})
    });
    let detail = |form: &str, what: &str, actual: String| {
        json!({"kind": "uom", "x": vjson(x), "from": from, "fu": fu, "to": to, "tu": tu, "via": via, "lenient": lenient,
               "form": form, "check": what, "expected": canon_f64(want), "actual": actual})
    };
    let mut out = Vec::new();
    if !xf.is_finite() || !want.is_finite() {
        acc.skip("uomConvert of a non-finite magnitude or with a non-finite exact result (only totality is checked)");
        for (form, r) in [("var", Some(&var)), ("lit", lit.as_ref())] {
            if let Some(r) = r {
                if let Sum::Panic(_) = summ(r) {
                    out.push(Failure::new(
                        format!("c16:uom:{}:{}", f.cat, mode_of("", &summ(r))),
                        format!("{} ({} form) panicked: {}", canon, form, summ(r).show()),
                        detail(form, "totality", summ(r).show()),
                    ));
                }
            }
        }
        return out;
    }
    let mut direct: Option<f64> = None;
    for (form, r) in [("var", Some(&var)), ("lit", lit.as_ref())] {
        let Some(r) = r else { continue };
        let s = summ(r);
        match (as_f(r), &s) {
            (Some(got), _) => {
                if form == "var" {
                    direct = Some(got);
                }
                // "identity for equal units" / "agreement with the exact unit definitions"
                let (rel, what) = if fu == tu { (1e-12, "identity") } else { (5e-7, "table") };
                if !close(got, want, rel, xf, temp) {
                    out.push(Failure::new(
                        format!("c16:uom:{}:{}-wrong-value", f.cat, what),
                        format!("{} ({} form): expected {} (rel {:e}), got {}", canon, form, canon_f64(want), rel, canon_f64(got)),
                        detail(form, what, canon_f64(got)),
                    ));
                }
            }
            (None, Sum::Err(_)) if lenient => {
                acc.class("uom:undocumented-spelling-rejected");
                acc.skip("an undocumented unit spelling was rejected");
                return out;
            }
            (None, _) => {
                let m = match &s {
                    Sum::Err(_) => "error-instead-of-value",
                    _ => "not-a-double",
                };
                out.push(Failure::new(
                    format!("c16:uom:{}:{}", f.cat, mode_of(m, &s)),
                    format!("{} ({} form): expected {}, got {}", canon, form, canon_f64(want), s.show()),
                    detail(form, "result", s.show()),
                ));
            }
        }
    }
    let Some(direct) = direct else { return out };
    if fu != tu {
        // "invertible"
        let src = uom_call(&uom_call("x", "f", "t"), "t", "f");
        let r = eval(&src, &binds).res;
        acc.eval_only(sub, 1);
        let ok = as_f(&r).map(|back| close(back, xf, 1e-9, direct, temp)).unwrap_or(false);
        if !ok {
            out.push(Failure::new(
                format!("c16:uom:{}:inverse{}", f.cat, if r.panic().is_some() { "-panic" } else { "" }),
                format!("{} with x={} f={:?} t={:?}: expected x back (rel 1e-9), got {}", src, x.canon(), from, to, summ(&r).show()),
                detail("var", "inverse", summ(&r).show()),
            ));
        }
    }
    if let Some(v) = via.and_then(|i| tab.get(i)) {
        // an intermediate beyond the double range legitimately becomes infinite
        if v.cat == f.cat && conv(xf, f, v).abs() < 1e305 && want.abs() < 1e305 {
            // "transitive": through a third unit of the category, against rscel's own direct answer
            let mut b2 = binds.clone();
            b2.push(("v".to_string(), V::s(v.name)));
            let src = uom_call(&uom_call("x", "f", "v"), "v", "t");
            let r = eval(&src, &b2).res;
            acc.eval_only(sub, 1);
            let scale = if temp { xf.abs() + conv(xf, f, v).abs() } else { 0.0 };
            let ok = as_f(&r).map(|g| close(g, direct, 1e-9, scale, temp)).unwrap_or(false);
            if !ok {
                out.push(Failure::new(
                    format!("c16:uom:{}:transitivity{}", f.cat, if r.panic().is_some() { "-panic" } else { "" }),
                    format!("{} with x={} f={:?} v={:?} t={:?}: expected the direct result {} (rel 1e-9), got {}", src, x.canon(), from, v.name, to, canon_f64(direct), summ(&r).show()),
                    detail("var", "transitivity", summ(&r).show()),
                ));
            }
        }
    }
    out
}

/// a conversion that must fail: unknown unit or units of different categories
pub fn check_uom_fail(x: &V, from: &str, to: &str, class: &str, sub: &str, acc: &mut Acc) -> Vec<Failure> {
    let canon = format!("uomConvert({}, {:?}, {:?})", x.canon(), from, to);
    acc.case(sub, &canon, true, &format!("uom:{}", class));
    let binds = vec![("x".to_string(), x.clone()), ("f".to_string(), V::s(from)), ("t".to_string(), V::s(to))];
    let var_src = uom_call("x", "f", "t");
    let mut forms = vec![("var", var_src.clone(), summ(&eval(&var_src, &binds).res))];
    if let Some(xl) = x.lit() {
        let s = uom_call(&xl, &str_lit(from), &str_lit(to));
        let r = summ(&eval(&s, &[]).res);
        forms.push(("lit", s, r));
        acc.eval_only(sub, 1);
    }
    acc.sample(&format!("uom:{}", class), || json!({"expr": forms.last().map(|f| f.1.clone()), "expected": "an error", "result": forms[0].2.show()}));
    let mut out = Vec::new();
    for (form, src, got) in &forms {
        if let Some(m) = judge(&Exp::Fail, got) {
            out.push(Failure::new(
                format!("c16:uom:{}:{}", class, mode_of(m, got)),
                format!("{} ({} form, x={} f={:?} t={:?}): expected an error, got {}", src, form, x.canon(), from, to, got.show()),
                json!({"kind": "uomfail", "x": vjson(x), "from": from, "to": to, "class": class, "form": form, "actual": got.show()}),
            ));
        }
    }
    out
}

// ---------------------------------------------------------------------------
// domains

fn boundary_instants() -> Vec<(i64, u32)> {
    let years: [i64; 21] = [
        -262_143, -10_000, -401, -1, 0, 1, 1582, 1600, 1700, 1899, 1900, 1969, 1970, 1999, 2000, 2023, 2024, 2100, 9999, 10_000, 262_142,
    ];
    let mut v = Vec::new();
    for y in years {
        for m in 1..=12 {
            let first = days_from_civil(y, m, 1) * 86_400;
            let last = (days_from_civil(y, m, days_in_month(y, m)) + 1) * 86_400 - 1;
            v.push((first, 0));
            v.push((last, 999_999_999));
        }
    }
    v.extend(ts_pool());
    v.retain(|(s, _)| *s >= TS_MIN_S && *s <= TS_MAX_S);
    v
}

const FIXED_ZONE_INSTANTS: &[(i64, u32)] = &[
    (1_704_877_065, 123_000_000), // the suite's instant
    (1_709_251_199, 999_000_000), // 2024-02-29T23:59:59.999Z
    (1_735_689_600, 0),           // 2025-01-01T00:00:00Z
    (-1, 999_999_999),
    (TS_MIN_S, 0),
    (TS_MAX_S, 999_999_999),
];

const SCAN_LO: i64 = -2_840_140_800; // 1880-01-01
const SCAN_HI: i64 = 2_145_916_800; // 2038-01-01

fn zone_instants(tz: Tz, opts: &Opts) -> Vec<(i64, u32)> {
    let mut v: Vec<(i64, u32)> = FIXED_ZONE_INSTANTS.to_vec();
    let tr = transitions(tz, SCAN_LO, SCAN_HI, 3 * 86_400);
    let mut chosen: Vec<i64> = Vec::new();
    if opts.tier == Tier::Thorough && !opts.is_dbg() {
        chosen = tr.clone();
    } else if !tr.is_empty() {
        chosen.push(tr[0]);
        chosen.extend(tr.iter().rev().take(2));
        if !opts.is_dbg() {
            let k = (hash64(&(opts.seed, tz.name())) % tr.len() as u64) as usize;
            chosen.push(tr[k]);
        }
    }
    chosen.sort();
    chosen.dedup();
    for t in chosen {
        v.push((t - 1, 999_999_999));
        v.push((t, 0));
        v.push((t + 1, 500_000_000));
    }
    v
}

fn swap_case(s: &str) -> String {
    s.chars().map(|c| if c.is_ascii_lowercase() { c.to_ascii_uppercase() } else { c.to_ascii_lowercase() }).collect()
}

const GARBAGE_ZONES: &[&str] = &[
    "", " ", "Nowhere/City", "Mars/Olympus_Mons", "America/", "/", "1234", "Europe/Londonx", "xEurope/London", "Europe/Lon", "UTC/UTC",
    "America/New York", "Europe\\London", "null", "Z!",
];

fn gen_ts_any(g: &mut G) -> (i64, u32) {
    let nanos = |g: &mut G| match g.below(4) {
        0 => 0,
        1 => 999_999_999,
        2 => 1,
        _ => g.u32() % 1_000_000_000,
    };
    match g.below(5) {
        0 | 1 => gen_ts(g),
        2 => {
            // within two days of a range edge
            let d = (g.u32() % 172_800) as i64;
            let s = if g.flag() { TS_MAX_S - d } else { TS_MIN_S + d };
            (s, nanos(g))
        }
        3 => {
            // within a day of a month boundary of a random year
            let y = match g.below(3) {
                0 => 1900 + g.below(200) as i64,
                1 => g.range(-5, 5) * 400 + g.below(400) as i64,
                _ => g.range(-262_000, 262_000),
            };
            let m = 1 + g.below(12) as i64;
            let s = days_from_civil(y, m, 1) * 86_400 + g.range(-86_400, 86_400);
            (s.clamp(TS_MIN_S, TS_MAX_S), nanos(g))
        }
        _ => {
            let p = boundary_instants();
            *g.pick(&p)
        }
    }
}

fn gen_dur_any(g: &mut G) -> i128 {
    match g.below(5) {
        0 | 1 | 2 => clamp_dur(gen_dur(g)),
        3 => {
            // within 2 s of the duration limits
            let d = (g.u32() as i128) % (2 * NS);
            if g.flag() {
                DUR_HI - d
            } else {
                -DUR_HI + d
            }
        }
        _ => {
            // spans comparable with the timestamp range
            let s = (g.u64() % 17_000_000_000_000) as i128 - 8_500_000_000_000;
            s * NS + (g.u32() % 1_000_000_000) as i128
        }
    }
}

fn gen_mag(g: &mut G) -> V {
    match g.below(8) {
        0 => V::Int(g.range(-1000, 1000)),
        1 => V::Int((g.u32() % 2_000_001) as i64 - 1_000_000),
        2 => V::UInt(g.below(1000) as u64),
        3 => V::UInt((g.u32() % 1_000_001) as u64),
        4 | 5 => {
            // +-[1e-6, 1e6], log-uniform
            let e = g.range(-6, 5) as i32;
            let m = 1.0 + (g.u32() as f64 / u32::MAX as f64) * 9.0;
            let v = m * 10f64.powi(e);
            V::F(if g.flag() { -v } else { v })
        }
        6 => V::F(*g.pick(&[0.0, -0.0, 1.0, -1.0, -273.15, -459.67, 32.0, 100.0, 1e-6, 1e6])),
        _ => match g.below(6) {
            0 => V::Int(i64::MAX),
            1 => V::Int(i64::MIN),
            2 => V::UInt(u64::MAX),
            3 => V::F(f64::INFINITY),
            4 => V::F(f64::NAN),
            _ => V::F(1e300),
        },
    }
}

fn decorate(g: &mut G, s: &str) -> (String, bool) {
    // returns (spelling, lenient): case changes and a leading degree sign are documented
    match g.below(8) {
        0 | 1 | 2 => (s.to_string(), false),
        3 => (s.to_uppercase(), false),
        4 => (swap_case(s), false),
        5 => (format!("°{}", s), false),
        6 => (format!(" {}\t", s), true),
        _ => (format!("{}°", s), true),
    }
}

fn fixed_magnitudes() -> Vec<V> {
    let mut v: Vec<V> = [0i64, 1, -1, 2, 60, -40, 1_000_000, -1_000_000].iter().map(|i| V::Int(*i)).collect();
    v.extend([0u64, 1, 3, 100, 1_000_000].iter().map(|u| V::UInt(*u)));
    v.extend([0.0, 1.0, -1.0, 2.5, 1e-6, -1e-6, 1e6, 123.456, -273.15, 98.6].iter().map(|f| V::F(*f)));
    v
}

// ---------------------------------------------------------------------------
// random cases

fn random_arith(genome: &[u8], acc: &mut Acc) -> Vec<Failure> {
    let mut g = G::new(genome);
    let sub = "arith-random";
    let ts = |g: &mut G| {
        let (s, n) = gen_ts_any(g);
        V::Ts(s, n)
    };
    match g.below(10) {
        0 | 1 => {
            let (t, d) = (ts(&mut g), V::Dur(gen_dur_any(&mut g)));
            let mut f = check_arith("+", &t, &d, sub, acc);
            f.extend(check_law("(t+d)-d==t", &t, &d, sub, acc));
            f
        }
        2 => {
            let (t, d) = (ts(&mut g), V::Dur(gen_dur_any(&mut g)));
            let mut f = check_arith("+", &d, &t, sub, acc);
            f.extend(check_law("(d+t)-d==t", &t, &d, sub, acc));
            f
        }
        3 | 4 => {
            let (t, d) = (ts(&mut g), V::Dur(gen_dur_any(&mut g)));
            check_arith("-", &t, &d, sub, acc)
        }
        5 => {
            let (a, b) = (ts(&mut g), ts(&mut g));
            let mut f = check_arith("-", &a, &b, sub, acc);
            f.extend(check_law("(t1-t2)+t2==t1", &a, &b, sub, acc));
            f.extend(check_order(&a, &b, sub, acc));
            f
        }
        6 | 7 => {
            let (a, b) = (V::Dur(gen_dur_any(&mut g)), V::Dur(gen_dur_any(&mut g)));
            let mut f = check_arith("+", &a, &b, sub, acc);
            f.extend(check_law("d1+d2-d2==d1", &a, &b, sub, acc));
            f.extend(check_arith("-", &a, &b, sub, acc));
            f.extend(check_order(&a, &b, sub, acc));
            f
        }
        8 => {
            // close pairs: same second, neighbouring nanoseconds
            let (s, n) = gen_ts_any(&mut g);
            let n2 = match g.below(3) {
                0 => n,
                1 => n.saturating_sub(1),
                _ => (n + 1).min(999_999_999),
            };
            check_order(&V::Ts(s, n), &V::Ts(s, n2), sub, acc)
        }
        _ => {
            let (d, t) = (V::Dur(gen_dur_any(&mut g)), ts(&mut g));
            check_arith("-", &d, &t, sub, acc)
        }
    }
}

fn random_accessor(genome: &[u8], acc: &mut Acc) -> Vec<Failure> {
    let mut g = G::new(genome);
    let sub = "accessor-random";
    let zones = &chrono_tz::TZ_VARIANTS;
    match g.below(8) {
        0 | 1 => {
            let ts = gen_ts_any(&mut g);
            let batched = g.flag();
            check_utc_pair(ts, batched, sub, acc)
        }
        2 | 3 | 4 | 5 => {
            let tz = zones[g.below(zones.len())];
            let ts = if g.flag() {
                gen_ts_any(&mut g)
            } else {
                // around a transition of that zone
                let lo = SCAN_LO + (g.u32() as i64 % ((SCAN_HI - SCAN_LO) / 2));
                let tr = transitions(tz, lo, (lo + 40 * 365 * 86_400).min(SCAN_HI), 5 * 86_400);
                if tr.is_empty() {
                    gen_ts_any(&mut g)
                } else {
                    let t = tr[g.below(tr.len())];
                    (t + g.range(-2, 2), g.u32() % 1_000_000_000)
                }
            };
            let batched = g.flag();
            check_accessors(ts, Some(tz.name()), batched, sub, acc).fails
        }
        6 => {
            let tz = zones[g.below(zones.len())];
            let name = tz.name();
            let ts = gen_ts_any(&mut g);
            let bad = match g.below(4) {
                0 => name.to_lowercase(),
                1 => name.to_uppercase(),
                2 => swap_case(name),
                _ => {
                    // one letter flipped
                    let idx: Vec<usize> = name.char_indices().filter(|(_, c)| c.is_ascii_alphabetic()).map(|(i, _)| i).collect();
                    if idx.is_empty() {
                        name.to_lowercase()
                    } else {
                        let k = idx[g.below(idx.len())];
                        name.char_indices().map(|(i, c)| if i == k { swap_case(&c.to_string()).chars().next().unwrap_or(c) } else { c }).collect()
                    }
                }
            };
            if bad == name {
                return vec![];
            }
            check_badzone(ts, &bad, Some(name), sub, acc)
        }
        _ => {
            let ts = gen_ts_any(&mut g);
            let bad = if g.flag() {
                g.pick(GARBAGE_ZONES).to_string()
            } else {
                let name = zones[g.below(zones.len())].name();
                let junk = *g.pick(&["x", "_", "/", "/x", "é", "0", " "]);
                let cand = if g.flag() { format!("{}{}", name, junk) } else { format!("{}{}", junk, name) };
                // keep clear of names that differ from a real one only by case or white space
                let lc = cand.trim().to_lowercase();
                if zones.iter().any(|z| z.name().to_lowercase() == lc) {
                    return vec![];
                }
                cand
            };
            check_badzone(ts, &bad, None, sub, acc)
        }
    }
}

fn random_uom(genome: &[u8], acc: &mut Acc) -> Vec<Failure> {
    let mut g = G::new(genome);
    let sub = "uom-random";
    let tab = units();
    let x = gen_mag(&mut g);
    let fu = g.below(tab.len());
    let spell = |g: &mut G, u: &Unit| -> (String, bool) {
        let n = u.documented.len() + u.extra.len();
        let i = g.below(n);
        let (s, len) = if i < u.documented.len() { (u.documented[i], false) } else { (u.extra[i - u.documented.len()], true) };
        let (d, l2) = decorate(g, s);
        (d, len || l2)
    };
    if g.chance(40) {
        // must fail: other category or unknown unit
        let (fs, _) = spell(&mut g, &tab[fu]);
        return if g.flag() {
            let others: Vec<usize> = (0..tab.len()).filter(|i| tab[*i].cat != tab[fu].cat).collect();
            let tu = others[g.below(others.len())];
            let (tsp, _) = spell(&mut g, &tab[tu]);
            check_uom_fail(&x, &fs, &tsp, "cross-category", sub, acc)
        } else {
            let bad = g.pick(UNKNOWN_UNITS).to_string();
            if g.flag() {
                check_uom_fail(&x, &fs, &bad, "unknown-unit", sub, acc)
            } else {
                check_uom_fail(&x, &bad, &fs, "unknown-unit", sub, acc)
            }
        };
    }
    let same: Vec<usize> = (0..tab.len()).filter(|i| tab[*i].cat == tab[fu].cat).collect();
    let tu = same[g.below(same.len())];
    let via = same[g.below(same.len())];
    let (fs, l1) = spell(&mut g, &tab[fu]);
    let (tsp, l2) = spell(&mut g, &tab[tu]);
    check_uom(&x, &fs, fu, &tsp, tu, Some(via), l1 || l2, sub, acc)
}

// ---------------------------------------------------------------------------

fn run(opts: &Opts, acc: &mut Acc) {
    let dbg = opts.is_dbg();
    let th = opts.threads;
    let tsp: Vec<V> = ts_pool().into_iter().map(|(s, n)| V::Ts(s, n)).collect();
    let dup: Vec<V> = dur_pool().into_iter().map(V::Dur).collect();

    // (1) arithmetic, laws and ordering over the pools
    let mut pts: Vec<(&V, &V)> = Vec::new();
    for t in &tsp {
        for d in &dup {
            pts.push((t, d));
        }
    }
    par_chunks(acc, th, &pts, |(t, d), a| {
        let mut f = check_arith("+", t, d, "arith-grid", a);
        f.extend(check_arith("+", d, t, "arith-grid", a));
        f.extend(check_arith("-", t, d, "arith-grid", a));
        f.extend(check_arith("-", d, t, "arith-grid", a));
        f.extend(check_law("(t+d)-d==t", t, d, "arith-grid", a));
        f.extend(check_law("(d+t)-d==t", t, d, "arith-grid", a));
        for x in f {
            a.fail(x);
        }
    });
    let mut same: Vec<(&V, &V)> = Vec::new();
    for p in [&tsp, &dup] {
        for x in p.iter() {
            for y in p.iter() {
                same.push((x, y));
            }
        }
    }
    par_chunks(acc, th, &same, |(x, y), a| {
        let mut f = check_arith("-", x, y, "arith-grid", a);
        if matches!(x, V::Dur(_)) {
            f.extend(check_arith("+", x, y, "arith-grid", a));
        }
        f.extend(check_law("(t1-t2)+t2==t1", x, y, "arith-grid", a));
        f.extend(check_law("d1+d2-d2==d1", x, y, "arith-grid", a));
        f.extend(check_order(x, y, "arith-grid", a));
        for z in f {
            a.fail(z);
        }
    });
    acc.mark_exhaustive(
        "arith-grid",
        &format!("{} pool timestamps x {} pool durations (4 operations, 2 laws) + all ordered pairs inside each pool (difference, sum, law, 6 comparisons), bound and literal form", tsp.len(), dup.len()),
    );

    // (2) calendar accessors in UTC: zone-less and 'UTC', single calls and list form
    let inst = boundary_instants();
    let jobs: Vec<((i64, u32), bool)> = inst.iter().flat_map(|t| [(*t, false), (*t, true)]).collect();
    par_chunks(acc, th, &jobs, |(t, batched), a| {
        for f in check_utc_pair(*t, *batched, "accessor-utc-grid", a) {
            a.fail(f);
        }
    });
    acc.mark_exhaustive("accessor-utc-grid", "first and last second of every month of 21 boundary years + the timestamp pool; 10 accessors x {zone-less, 'UTC'} x {single call, list}");

    // (3) every zone of the database
    let zones: Vec<Tz> = chrono_tz::TZ_VARIANTS.to_vec();
    par_chunks(acc, th, &zones, |tz, a| {
        for t in zone_instants(*tz, opts) {
            for f in check_accessors(t, Some(tz.name()), true, "accessor-zones", a).fails {
                a.fail(f);
            }
        }
    });
    acc.mark_exhaustive("accessor-zones", &format!("all {} names of chrono_tz::TZ_VARIANTS x fixed instants (incl. both range edges) and UTC-offset transitions at T-1, T, T+1", zones.len()));

    // (4) names that are not in the database
    let mut bad: Vec<(String, Option<String>)> = GARBAGE_ZONES.iter().map(|s| (s.to_string(), None)).collect();
    for tz in zones.iter().step_by(if dbg { 40 } else { 1 }) {
        let n = tz.name();
        for c in [n.to_lowercase(), n.to_uppercase()] {
            if c != n {
                bad.push((c, Some(n.to_string())));
            }
        }
        bad.push((format!("{}x", n), None));
    }
    par_chunks(acc, th, &bad, |(name, orig), a| {
        for f in check_badzone((1_704_877_065, 123_000_000), name, orig.as_deref(), "badzone-grid", a) {
            a.fail(f);
        }
    });
    acc.mark_exhaustive("badzone-grid", "garbage names, every database name in lower and upper case and with a trailing 'x'");

    // (5) duration accessors
    let mut durs: Vec<i128> = dur_pool();
    for k in [1i128, 59, 60, 61, 3599, 3600, 3601, 86_399, 86_400] {
        for sub_ms in [0i128, 1, 999] {
            let d = k * NS + sub_ms * 1_000_000 + 999_999;
            durs.push(d);
            durs.push(-d);
        }
    }
    par_chunks(acc, th, &durs, |d, a| {
        for f in check_dur_accessors(*d, "dur-accessor-grid", a) {
            a.fail(f);
        }
    });
    acc.mark_exhaustive("dur-accessor-grid", "duration pool + both signs of values around the second/minute/hour/day limits with sub-millisecond parts");

    // (6) unit conversion grids (no integer arithmetic involved: release only)
    if !dbg {
        let tab = units();
        let mags = fixed_magnitudes();
        let mut grid: Vec<(usize, usize, usize)> = Vec::new();
        for i in 0..tab.len() {
            for j in 0..tab.len() {
                if tab[i].cat == tab[j].cat {
                    for m in 0..mags.len() {
                        grid.push((i, j, m));
                    }
                }
            }
        }
        par_chunks(acc, th, &grid, |(i, j, m), a| {
            let via = (0..tab.len()).filter(|k| tab[*k].cat == tab[*i].cat).nth((*i + *j + *m) % 3);
            for f in check_uom(&mags[*m], tab[*i].name, *i, tab[*j].name, *j, via, false, "uom-grid", a) {
                a.fail(f);
            }
        });
        // every spelling, plain and decorated, against the grid spelling of another unit
        let mut al: Vec<(usize, String, bool)> = Vec::new();
        for (i, u) in tab.iter().enumerate() {
            for (s, len) in u.documented.iter().map(|s| (*s, false)).chain(u.extra.iter().map(|s| (*s, true))) {
                al.push((i, s.to_string(), len));
                al.push((i, s.to_uppercase(), len));
                al.push((i, swap_case(s), len));
                al.push((i, format!("°{}", s), len));
                al.push((i, format!("  {} ", s), true));
                al.push((i, format!("{}°", s), true));
            }
        }
        par_chunks(acc, th, &al, |(i, s, len), a| {
            let other = (0..tab.len()).find(|k| tab[*k].cat == tab[*i].cat && k != i).unwrap_or(*i);
            let mut f = check_uom(&V::F(2.5), s, *i, tab[other].name, other, None, *len, "uom-aliases", a);
            f.extend(check_uom(&V::Int(3), tab[other].name, other, s, *i, None, *len, "uom-aliases", a));
            f.extend(check_uom(&V::UInt(7), s, *i, s, *i, None, *len, "uom-aliases", a));
            for x in f {
                a.fail(x);
            }
        });
        let mut must_fail: Vec<(String, String, &'static str)> = Vec::new();
        for i in 0..tab.len() {
            for j in 0..tab.len() {
                if tab[i].cat != tab[j].cat {
                    must_fail.push((tab[i].name.to_string(), tab[j].name.to_string(), "cross-category"));
                }
            }
            for b in UNKNOWN_UNITS {
                must_fail.push((tab[i].name.to_string(), b.to_string(), "unknown-unit"));
                must_fail.push((b.to_string(), tab[i].name.to_string(), "unknown-unit"));
            }
        }
        for b in UNKNOWN_UNITS {
            must_fail.push((b.to_string(), b.to_string(), "unknown-unit"));
        }
        par_chunks(acc, th, &must_fail, |(f, t, class), a| {
            let x = match (f.len() + t.len()) % 3 {
                0 => V::Int(1),
                1 => V::UInt(1),
                _ => V::F(1.5),
            };
            for z in check_uom_fail(&x, f, t, class, "uom-must-fail", a) {
                a.fail(z);
            }
        });
        acc.mark_exhaustive("uom-grid", &format!("all ordered unit pairs inside each category x {} magnitudes (int, uint, double), with inverse and transitivity through a third unit", mags.len()));
        acc.mark_exhaustive("uom-aliases", "every spelling of uom.rs, plain / upper case / swapped case / leading degree sign / padded / trailing degree sign, as source, target and both");
        acc.mark_exhaustive("uom-must-fail", "all ordered cross-category unit pairs; unknown units as source, target and both");
    }

    // (7) random
    let scale = match (opts.tier, dbg) {
        (Tier::Quick, false) => 5,
        (Tier::Quick, true) => 1,
        (Tier::Thorough, false) => 150,
        (Tier::Thorough, true) => 16,
    };
    random_genomes(acc, opts, "arith-random", 6_000 * scale, 64, random_arith);
    random_genomes(acc, opts, "accessor-random", (if dbg { 1_500 } else { 4_000 }) * scale, 64, random_accessor);
    random_genomes(acc, opts, "dur-accessor-random", 2_000 * scale, 24, |gn, a| {
        let mut g = G::new(gn);
        check_dur_accessors(gen_dur_any(&mut g), "dur-accessor-random", a)
    });
    if !dbg {
        random_genomes(acc, opts, "uom-random", 6_000 * scale, 48, random_uom);
    }
}

fn replay(_opts: &Opts, d: &Value, acc: &mut Acc) {
    let s = |k: &str| d.get(k).and_then(|x| x.as_str());
    let v = |k: &str| d.get(k).and_then(vunjson);
    let ts = |k: &str| match v(k) {
        Some(V::Ts(s, n)) => Some((s, n)),
        _ => None,
    };
    let kind = s("kind").unwrap_or("");
    let fails: Option<Vec<Failure>> = match kind {
        "arith" => (|| Some(check_arith(s("sym")?, &v("a")?, &v("b")?, "replay", acc)))(),
        "law" => (|| {
            let law = *LAWS.iter().find(|l| Some(**l) == s("law"))?;
            Some(check_law(law, &v("a")?, &v("b")?, "replay", acc))
        })(),
        "order" => (|| Some(check_order(&v("a")?, &v("b")?, "replay", acc)))(),
        "acc" => (|| {
            let batched = d.get("batched").and_then(|b| b.as_bool()).unwrap_or(true);
            Some(check_accessors(ts("ts")?, s("zone"), batched, "replay", acc).fails)
        })(),
        "utcpair" => (|| Some(check_utc_pair(ts("ts")?, true, "replay", acc)))(),
        "badzone" => (|| Some(check_badzone(ts("ts")?, s("zone")?, s("orig"), "replay", acc)))(),
        "dur" => (|| match v("d")? {
            V::Dur(n) => Some(check_dur_accessors(n, "replay", acc)),
            _ => None,
        })(),
        "uom" => (|| {
            let n = |k: &str| d.get(k).and_then(|x| x.as_u64()).map(|x| x as usize);
            let lenient = d.get("lenient").and_then(|b| b.as_bool()).unwrap_or(false);
            Some(check_uom(&v("x")?, s("from")?, n("fu")?, s("to")?, n("tu")?, n("via"), lenient, "replay", acc))
        })(),
        "uomfail" => (|| Some(check_uom_fail(&v("x")?, s("from")?, s("to")?, s("class").unwrap_or("unknown-unit"), "replay", acc)))(),
        _ => None,
    };
    match fails {
        Some(fs) => {
            for f in fs {
                acc.fail(f);
            }
        }
        None => {
            if let Some(hex) = s("genome_hex") {
                // genome-driven case whose structured inputs are missing: all random decoders
                let gn = unhex(hex);
                for f in random_arith(&gn, acc).into_iter().chain(random_accessor(&gn, acc)).chain(random_uom(&gn, acc)) {
                    acc.fail(f);
                }
            } else {
                acc.inconclusive.push(format!("bad C16 replay file (kind {:?})", kind));
            }
        }
    }
}

/// libFuzzer entry: the first byte selects arithmetic / accessors / unit conversion
pub fn fuzz_case(genome: &[u8], acc: &mut Acc) -> Vec<Failure> {
    let Some((k, rest)) = genome.split_first() else { return vec![] };
    match k % 3 {
        0 => random_arith(rest, acc),
        1 => random_accessor(rest, acc),
        _ => random_uom(rest, acc),
    }
}
