//! C05 — ||, &&, ?: and match are lazy and absorb failures by fixed rules; one truthiness.

use super::Prop;
use crate::engine::{par_chunks, random_genomes, Acc, Failure, Opts};
use crate::expr::*;
use crate::g::G;
use crate::gen::substitute;
use crate::model::{self, Ctx, FnResult, Out};
use crate::rec::run_recorded;
use crate::val::V;
use serde_json::{json, Value};
use std::collections::BTreeMap;

pub static PROP: Prop = Prop {
    id: "C05",
    rule: "logical/conditional trees over || && ?: ! bool() match and macro predicates (all/exists/exists_one/filter/map) with \
           atoms: a truthy and a falsy value of every type (numbers incl. -0.0 and NaN, strings, bytes, lists, maps, null, type, \
           timestamp, duration), failing atoms (x/0, [][0]), an unbound variable, and call-recording bound functions p0..p5 \
           returning true/false/failure/5/''/null. Exhaustive: every binary tree of one operator over all atom pairs, every \
           ?: with every atom as condition, every unary/predicate context with every atom, all two-operator trees over a \
           reduced atom set; random trees to depth 5. Every tree is run with value atoms as bound variables (VM) and as \
           literals (folder). Oracle: reference model of the statement (result value or is-failure) and the exact multiset of \
           recorded calls. Non-trivial = the model skips at least one operand (laziness observable) or a failure is absorbed \
           or propagated; distinct by rendered tree + atom assignment.",
    assumptions: &[
        "which of two failing operands' errors surfaces is not compared (only that the result is a failure)",
        "bool(<string>) is excluded: strings spelled like boolean literals are parsed, not tested for emptiness",
        "the call log is not compared when a ?: condition or a match scrutinee/pattern fails (the statement does not say whether a branch runs)",
    ],
    run,
    replay,
    both_profiles: super::thorough_both,
};

/// value atoms: (variable name, value)
pub fn value_atoms() -> Vec<(&'static str, V)> {
    let mut m1 = BTreeMap::new();
    m1.insert("a".to_string(), V::Null);
    vec![
        ("t", V::Bool(true)),
        ("f", V::Bool(false)),
        ("i1", V::Int(1)),
        ("i0", V::Int(0)),
        ("im", V::Int(-3)),
        ("u0", V::UInt(0)),
        ("u2", V::UInt(2)),
        ("d0", V::F(0.0)),
        ("dn0", V::F(-0.0)),
        ("d15", V::F(1.5)),
        ("nan", V::F(f64::NAN)),
        ("s0", V::s("")),
        ("sa", V::s("a")),
        ("sf", V::s("false")),
        ("y0", V::Bytes(vec![])),
        ("y1", V::Bytes(vec![0])),
        ("l0", V::List(vec![])),
        ("l1", V::List(vec![V::Int(0)])),
        ("m0", V::Map(BTreeMap::new())),
        ("m1", V::Map(m1)),
        ("nul", V::Null),
        ("ty", V::Type("int".into())),
        ("ts", V::Ts(0, 0)),
        ("du", V::Dur(0)),
    ]
}

pub fn recorders() -> BTreeMap<String, FnResult> {
    let mut m = BTreeMap::new();
    m.insert("p0".into(), FnResult::Val(V::Bool(true)));
    m.insert("p1".into(), FnResult::Val(V::Bool(false)));
    m.insert("p2".into(), FnResult::Fail);
    m.insert("p3".into(), FnResult::Val(V::Int(5)));
    m.insert("p4".into(), FnResult::Val(V::s("")));
    m.insert("p5".into(), FnResult::Val(V::Null));
    m
}

/// all atoms as expressions in their bound-variable form
fn all_atoms() -> Vec<E> {
    let mut v: Vec<E> = value_atoms().iter().map(|(n, _)| var(n)).collect();
    v.push(bin(Op::Div, var("i1"), ilit(0))); // fails: division by zero
    v.push(E::Index(Box::new(var("l0")), Box::new(ilit(0)))); // fails: index out of range
    v.push(var("w")); // unbound
    for p in ["p0", "p1", "p2", "p3", "p4", "p5"] {
        v.push(call(p, vec![]));
    }
    v
}

fn reduced_atoms() -> Vec<E> {
    vec![
        var("t"),
        var("f"),
        var("i1"),
        var("s0"),
        bin(Op::Div, var("i1"), ilit(0)),
        var("w"),
        call("p0", vec![]),
        call("p1", vec![]),
        call("p2", vec![]),
        call("p3", vec![]),
    ]
}

fn binds() -> Vec<(String, V)> {
    value_atoms().into_iter().map(|(n, v)| (n.to_string(), v)).collect()
}

fn literal_form(e: &E) -> E {
    let mut cur = e.clone();
    for (n, v) in value_atoms() {
        cur = substitute(&cur, n, &v);
    }
    cur
}

fn root_label(e: &E) -> String {
    match e {
        E::Bin(Op::Or, ..) => "or".into(),
        E::Bin(Op::And, ..) => "and".into(),
        E::Tern(..) => "ternary".into(),
        E::Not(..) => "not".into(),
        E::Match(..) => "match".into(),
        E::Call(f, _) => match f.as_ref() {
            E::Var(n) => n.clone(),
            E::Field(_, n) => format!("macro-{}", n),
            _ => "call".into(),
        },
        _ => "other".into(),
    }
}

pub fn check_tree(e: &E, sub: &str, acc: &mut Acc) -> Vec<Failure> {
    let vars: BTreeMap<String, V> = binds().into_iter().collect();
    let progs = BTreeMap::new();
    let funcs = recorders();
    let mut ctx = Ctx::new(&vars, &progs, &funcs);
    let expected = ctx.eval(e, &mut Vec::new());
    let mut want_log = ctx.log.clone();
    want_log.sort();
    let log_known = !ctx.log_unspecified;
    // laziness observable: some recording atom of the tree is not called by the model, or a
    // failure is involved
    let mut recorder_atoms = 0usize;
    let mut has_fail_atom = false;
    e.walk(&mut |x| match x {
        E::Call(f, a) if a.is_empty() => {
            if let E::Var(n) = f.as_ref() {
                if n.starts_with('p') {
                    recorder_atoms += 1;
                    if n == "p2" {
                        has_fail_atom = true;
                    }
                }
            }
        }
        E::Bin(Op::Div, ..) | E::Index(..) => has_fail_atom = true,
        E::Var(n) if n == "w" => has_fail_atom = true,
        _ => {}
    });
    let nontrivial = (log_known && want_log.len() < recorder_atoms) || has_fail_atom;
    let var_src = render_min(e);
    let lit_src = render_min(&literal_form(e));
    let label = root_label(e);
    acc.case(sub, &var_src, nontrivial, &label);
    if expected == Out::Unspec {
        acc.skip("model: result not determined by the statement (only totality and the two forms' agreement are checked)");
    }
    let b = binds();
    let mut out = Vec::new();
    let mut results = Vec::new();
    for (form, src) in [("var", &var_src), ("lit", &lit_src)] {
        let r = run_recorded(src, &b, &[], &funcs);
        acc.eval_only(sub, 1);
        let mut got_log = r.log.clone();
        got_log.sort();
        let sum = r.out.res.sum();
        results.push(sum.clone());
        if let Some(mode) = model::judge(&expected, &r.out.res) {
            out.push(Failure::new(
                format!("c05:{}:{}", label, mode),
                format!("{} ({} form) -> {} but the statement gives {}", src, form, sum.show(), expected.show()),
                json!({"kind": "tree", "source_var": var_src, "source_lit": lit_src, "form": form,
                       "expected": expected.show(), "actual": sum.show()}),
            ));
            break;
        }
        if log_known && expected != Out::Unspec && got_log != want_log {
            out.push(Failure::new(
                format!("c05:{}:calls-differ", label),
                format!("{} ({} form) called {:?} but laziness requires exactly {:?}", src, form, got_log, want_log),
                json!({"kind": "tree", "source_var": var_src, "source_lit": lit_src, "form": form,
                       "expected_calls": want_log, "actual_calls": got_log}),
            ));
            break;
        }
    }
    if out.is_empty() && results.len() == 2 && results[0].coarse() != results[1].coarse() && !results[0].is_panic() && !results[1].is_panic() {
        out.push(Failure::new(
            format!("c05:{}:forms-disagree", label),
            format!("{} -> {} but {} -> {}", var_src, results[0].show(), lit_src, results[1].show()),
            json!({"kind": "tree", "source_var": var_src, "source_lit": lit_src, "form": "both"}),
        ));
    }
    acc.sample(&format!("{}:{}", label, if nontrivial { "lazy" } else { "plain" }), || {
        json!({"variable_form": var_src, "literal_form": lit_src, "model": expected.show(), "model_calls": want_log,
               "result": results.first().map(|r| r.show())})
    });
    out
}

fn gen_atom(g: &mut G) -> E {
    let a = all_atoms();
    g.pick(&a).clone()
}

fn gen_logic(g: &mut G, depth: u32) -> E {
    if depth == 0 || g.below(4) == 0 {
        return gen_atom(g);
    }
    let d = depth - 1;
    match g.below(12) {
        0 | 1 | 2 => bin(Op::Or, gen_logic(g, d), gen_logic(g, d)),
        3 | 4 | 5 => bin(Op::And, gen_logic(g, d), gen_logic(g, d)),
        6 | 7 => E::Tern(Box::new(gen_logic(g, d)), Box::new(gen_logic(g, d)), Box::new(gen_logic(g, d))),
        8 => E::Not(1 + g.below(2) as u8, Box::new(gen_logic(g, d))),
        9 => {
            let x = gen_logic(g, d);
            // bool() of a string is excluded by the model; keep it anyway (skipped there)
            call("bool", vec![x])
        }
        10 => {
            let n = 1 + g.below(3);
            let items: Vec<E> = (0..n).map(|k| ilit(k as i64)).collect();
            let m = g.pick_str(&["all", "exists", "exists_one", "filter", "map"]);
            let body = gen_logic(g, d);
            if m == "map" && g.flag() {
                method(E::List(items), m, vec![var("e"), body, var("e")])
            } else {
                method(E::List(items), m, vec![var("e"), body])
            }
        }
        _ => {
            let scrut = if g.flag() { ilit(g.below(3) as i64) } else { var(g.pick_str(&["i1", "sa", "t", "nul"])) };
            let n = g.below(4);
            let mut cases = Vec::new();
            for _ in 0..n {
                let pat = match g.below(5) {
                    0 => Pat::Any,
                    1 => Pat::Type(g.pick_str(&["int", "string", "bool"]).to_string()),
                    2 => Pat::Cmp(None, ilit(g.below(3) as i64)),
                    3 => Pat::Cmp(Some(*g.pick(&[Op::Lt, Op::Ge, Op::Ne, Op::Eq])), ilit(g.below(3) as i64)),
                    _ => Pat::Cmp(None, slit("a")),
                };
                cases.push((pat, gen_logic(g, d)));
            }
            E::Match(Box::new(scrut), cases)
        }
    }
}

fn run(opts: &Opts, acc: &mut Acc) {
    let atoms = all_atoms();
    let recs: Vec<E> = ["p0", "p1", "p2", "p3", "p4", "p5"].iter().map(|p| call(p, vec![])).collect();
    let mut trees: Vec<E> = Vec::new();
    if !opts.is_dbg() {
        for a in &atoms {
            for b in &atoms {
                trees.push(bin(Op::Or, a.clone(), b.clone()));
                trees.push(bin(Op::And, a.clone(), b.clone()));
            }
            for x in &recs {
                for y in &recs {
                    trees.push(E::Tern(Box::new(a.clone()), Box::new(x.clone()), Box::new(y.clone())));
                }
            }
            trees.push(E::Not(1, Box::new(a.clone())));
            trees.push(E::Not(2, Box::new(a.clone())));
            trees.push(call("bool", vec![a.clone()]));
            for m in ["all", "exists", "exists_one", "filter"] {
                trees.push(method(E::List(vec![ilit(1), ilit(2)]), m, vec![var("e"), a.clone()]));
            }
            trees.push(method(E::List(vec![ilit(1), ilit(2)]), "map", vec![var("e"), a.clone(), var("e")]));
            trees.push(E::Match(Box::new(a.clone()), vec![(Pat::Any, call("p0", vec![]))]));
            trees.push(E::Match(
                Box::new(ilit(1)),
                vec![
                    (Pat::Cmp(None, ilit(2)), call("p0", vec![])),
                    (Pat::Cmp(None, ilit(1)), a.clone()),
                    (Pat::Any, call("p1", vec![])),
                ],
            ));
            trees.push(E::Match(Box::new(ilit(1)), vec![(Pat::Cmp(None, ilit(2)), a.clone())]));
        }
        par_chunks(acc, opts.threads, &trees, |t, a| {
            for f in check_tree(t, "one-operator", a) {
                a.fail(f);
            }
        });
        acc.mark_exhaustive("one-operator", "every one-operator tree / context over the full atom set");
    }
    // two operators over the reduced atom set
    let r = reduced_atoms();
    let mut trees: Vec<E> = Vec::new();
    for &o1 in &[Op::Or, Op::And] {
        for &o2 in &[Op::Or, Op::And] {
            for a in &r {
                for b in &r {
                    for c in &r {
                        trees.push(bin(o1, bin(o2, a.clone(), b.clone()), c.clone()));
                        trees.push(bin(o1, a.clone(), bin(o2, b.clone(), c.clone())));
                    }
                }
            }
        }
    }
    for &o in &[Op::Or, Op::And] {
        for a in &r {
            for b in &r {
                for c in &r {
                    trees.push(E::Tern(Box::new(bin(o, a.clone(), b.clone())), Box::new(c.clone()), Box::new(call("p1", vec![]))));
                    trees.push(E::Tern(Box::new(a.clone()), Box::new(bin(o, b.clone(), c.clone())), Box::new(call("p1", vec![]))));
                    trees.push(bin(o, E::Tern(Box::new(a.clone()), Box::new(b.clone()), Box::new(c.clone())), call("p0", vec![])));
                }
            }
        }
    }
    par_chunks(acc, opts.threads, &trees, |t, a| {
        for f in check_tree(t, "two-operators", a) {
            a.fail(f);
        }
    });
    acc.mark_exhaustive("two-operators", "every two-operator tree of || && ?: over the reduced atom set (10 atoms)");
    let n = match (opts.tier, opts.is_dbg()) {
        (crate::engine::Tier::Quick, _) => 300_000,
        (_, false) => 3_000_000,
        (_, true) => 300_000,
    };
    random_genomes(acc, opts, "random", n, 120, |gn, a| {
        let mut g = G::new(gn);
        let depth = 1 + g.below(5) as u32;
        let t = gen_logic(&mut g, depth);
        check_tree(&t, "random", a)
    });
}

fn replay(_opts: &Opts, d: &Value, acc: &mut Acc) {
    // trees are reproduced from the genome (random) or looked up by their rendering (grids)
    if let Some(hex) = d.get("genome_hex").and_then(|h| h.as_str()) {
        let gn = crate::engine::unhex(hex);
        let mut g = G::new(&gn);
        let depth = 1 + g.below(5) as u32;
        let t = gen_logic(&mut g, depth);
        for f in check_tree(&t, "replay", acc) {
            acc.fail(f);
        }
        return;
    }
    let want = d.get("source_var").and_then(|s| s.as_str()).unwrap_or("");
    match parse_back(want) {
        Some(t) => {
            for f in check_tree(&t, "replay", acc) {
                acc.fail(f);
            }
        }
        None => acc.inconclusive.push("C05 replay: cannot rebuild the tree from its rendering".into()),
    }
}

/// Rebuild a grid tree from its rendering by regenerating the (small) exhaustive grids.
fn parse_back(src: &str) -> Option<E> {
    let atoms = all_atoms();
    let recs: Vec<E> = ["p0", "p1", "p2", "p3", "p4", "p5"].iter().map(|p| call(p, vec![])).collect();
    let mut cands: Vec<E> = Vec::new();
    for a in &atoms {
        for b in &atoms {
            cands.push(bin(Op::Or, a.clone(), b.clone()));
            cands.push(bin(Op::And, a.clone(), b.clone()));
        }
        for x in &recs {
            for y in &recs {
                cands.push(E::Tern(Box::new(a.clone()), Box::new(x.clone()), Box::new(y.clone())));
            }
        }
        cands.push(E::Not(1, Box::new(a.clone())));
        cands.push(E::Not(2, Box::new(a.clone())));
        cands.push(call("bool", vec![a.clone()]));
        for m in ["all", "exists", "exists_one", "filter"] {
            cands.push(method(E::List(vec![ilit(1), ilit(2)]), m, vec![var("e"), a.clone()]));
        }
        cands.push(method(E::List(vec![ilit(1), ilit(2)]), "map", vec![var("e"), a.clone(), var("e")]));
        cands.push(E::Match(Box::new(a.clone()), vec![(Pat::Any, call("p0", vec![]))]));
    }
    cands.into_iter().find(|c| render_min(c) == src)
}

/// libFuzzer entry: one generated tree
pub fn fuzz_case(genome: &[u8], acc: &mut Acc) -> Vec<Failure> {
    let mut g = G::new(genome);
    let depth = 1 + g.below(5) as u32;
    let t = gen_logic(&mut g, depth);
    check_tree(&t, "fuzz", acc)
}
