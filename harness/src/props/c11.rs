//! C11 — evaluation is a pure, deterministic function of program text and bindings.
//!
//! Model-based operation sequences: the harness tracks, per context object, name -> source and,
//! per bindings object, name -> value; after every exec the result must equal the result of a
//! FRESH context + FRESH bindings built from the model state, and the stored programs and
//! bindings must be unchanged by the exec.

use super::Prop;
use crate::engine::{guard, par_chunks, random_genomes, Acc, Failure, Opts};
use crate::expr::*;
use crate::g::G;
use crate::gen::{gen_expr, value_of_type, Cfg, Env, Ty, VarInfo};
use crate::run::{canon_cel, err_class};
use crate::val::*;
use rscel::{BindContext, ByteCode, CelContext, CelError, CelValue};
use serde_json::{json, Value};
use std::collections::BTreeMap;

pub static PROP: Prop = Prop {
    id: "C11",
    rule: "histories of 1..40 operations over {add program, replace program, bind, rebind, clone context, clone bindings, exec, \
           exec again, inspect details/params, drop a clone} on several context and binding objects; program names from a \
           4-name alphabet, sources from a fixed pool (incl. map-iterating macros, program references, has/coalesce, f-strings) \
           and from the full-language generator; exhaustive for all sequences of length <= 3 over a 12-operation alphabet, \
           random longer ones. After every exec: result == result of a fresh context + fresh bindings built from the model \
           state; source, params and bytecode of every stored program and every get_param unchanged by the exec; clones \
           unaffected by operations on their siblings. Plus the same program executed on 16 threads concurrently (own \
           bindings built from the same values) and repeated 8 times: all results equal. Non-trivial = the history contains an \
           exec after a replace/rebind/clone, or >= 2 execs of one program; distinct by canonical history.",
    assumptions: &[
        "now() / timestamp() are excluded from generation (the only permitted source of variation)",
        "proptest does not own the thread scheduler: the threaded part is a repetition stress, not a schedule exploration",
    ],
    run,
    replay,
    both_profiles: super::thorough_both,
};

const PROG_NAMES: &[&str] = &["a", "b", "c", "main"];

#[derive(Clone, Debug)]
enum Op {
    Add { ctx: usize, name: usize, src: String },
    Bind { b: usize, var: String, val: V },
    CloneCtx { ctx: usize },
    CloneBind { b: usize },
    Exec { ctx: usize, name: usize, b: usize, twice: bool },
    Inspect { ctx: usize, name: usize, b: usize },
    DropCtx { ctx: usize },
    DropBind { b: usize },
}

fn op_text(o: &Op) -> String {
    match o {
        Op::Add { ctx, name, src } => format!("ctx{}.add({}, {:?})", ctx, PROG_NAMES[*name], src),
        Op::Bind { b, var, val } => format!("b{}.bind({}, {})", b, var, val.canon()),
        Op::CloneCtx { ctx } => format!("clone ctx{}", ctx),
        Op::CloneBind { b } => format!("clone b{}", b),
        Op::Exec { ctx, name, b, twice } => format!("ctx{}.exec({}, b{}){}", ctx, PROG_NAMES[*name], b, if *twice { " x2" } else { "" }),
        Op::Inspect { ctx, name, b } => format!("inspect ctx{}.{} b{}", ctx, PROG_NAMES[*name], b),
        Op::DropCtx { ctx } => format!("drop ctx{}", ctx),
        Op::DropBind { b } => format!("drop b{}", b),
    }
}

fn op_json(o: &Op) -> Value {
    match o {
        Op::Add { ctx, name, src } => json!({"op": "add", "ctx": ctx, "name": name, "src": src}),
        Op::Bind { b, var, val } => json!({"op": "bind", "b": b, "var": var, "val": super::c03::vjson(val)}),
        Op::CloneCtx { ctx } => json!({"op": "clone-ctx", "ctx": ctx}),
        Op::CloneBind { b } => json!({"op": "clone-bind", "b": b}),
        Op::Exec { ctx, name, b, twice } => json!({"op": "exec", "ctx": ctx, "name": name, "b": b, "twice": twice}),
        Op::Inspect { ctx, name, b } => json!({"op": "inspect", "ctx": ctx, "name": name, "b": b}),
        Op::DropCtx { ctx } => json!({"op": "drop-ctx", "ctx": ctx}),
        Op::DropBind { b } => json!({"op": "drop-bind", "b": b}),
    }
}

fn op_unjson(j: &Value) -> Option<Op> {
    let u = |k: &str| j.get(k).and_then(|x| x.as_u64()).map(|x| x as usize);
    Some(match j.get("op")?.as_str()? {
        "add" => Op::Add { ctx: u("ctx")?, name: u("name")? % PROG_NAMES.len(), src: j.get("src")?.as_str()?.to_string() },
        "bind" => Op::Bind { b: u("b")?, var: j.get("var")?.as_str()?.to_string(), val: super::c03::vunjson(j.get("val")?)? },
        "clone-ctx" => Op::CloneCtx { ctx: u("ctx")? },
        "clone-bind" => Op::CloneBind { b: u("b")? },
        "exec" => Op::Exec { ctx: u("ctx")?, name: u("name")? % PROG_NAMES.len(), b: u("b")?, twice: j.get("twice")?.as_bool()? },
        "inspect" => Op::Inspect { ctx: u("ctx")?, name: u("name")? % PROG_NAMES.len(), b: u("b")? },
        "drop-ctx" => Op::DropCtx { ctx: u("ctx")? },
        "drop-bind" => Op::DropBind { b: u("b")? },
        _ => return None,
    })
}

fn res_text(r: &Result<Result<CelValue, CelError>, crate::engine::PanicInfo>) -> String {
    match r {
        Ok(Ok(v)) => canon_cel(v),
        Ok(Err(e)) => format!("Err({})", err_class(e)),
        Err(p) => format!("PANIC {}", p.msg),
    }
}

fn program_fingerprint(ctx: &CelContext, name: &str) -> Option<String> {
    let p = ctx.get_program(name)?;
    let mut params: Vec<&str> = p.params();
    params.sort();
    let bc: Vec<ByteCode> = p.bytecode().iter().cloned().collect();
    Some(format!("{:?} | {:?} | {}", p.source(), params, canon_bytecode(&bc)))
}

/// bytecode text with map constants printed in key order
fn canon_bytecode(bc: &[ByteCode]) -> String {
    bc.iter()
        .map(|b| match b {
            ByteCode::Push(CelValue::ByteCode(inner)) => {
                let v: Vec<ByteCode> = inner.iter().cloned().collect();
                format!("PUSH [{}]", canon_bytecode(&v))
            }
            ByteCode::Push(v) => format!("PUSH {}", canon_cel(v)),
            other => format!("{:?}", other),
        })
        .collect::<Vec<_>>()
        .join("; ")
}

fn fresh_exec(progs: &BTreeMap<String, String>, binds: &BTreeMap<String, V>, name: &str) -> String {
    let r = guard(|| {
        let mut ctx = CelContext::new();
        for (n, s) in progs {
            ctx.add_program_str(n, s)?;
        }
        let mut b = BindContext::new();
        for (k, v) in binds {
            b.bind_param(k, v.to_cel());
        }
        ctx.exec(name, &b)
    });
    res_text(&r)
}

/// Run a history; returns (nontrivial, failures).
fn run_history(ops: &[Op], sub: &str, acc: &mut Acc) -> Vec<Failure> {
    let mut ctxs: Vec<CelContext> = vec![CelContext::new()];
    let mut mctxs: Vec<BTreeMap<String, String>> = vec![BTreeMap::new()];
    let mut binds: Vec<BindContext<'static>> = vec![BindContext::new()];
    let mut mbinds: Vec<BTreeMap<String, V>> = vec![BTreeMap::new()];
    let mut execs: BTreeMap<(usize, usize), u32> = BTreeMap::new();
    let mut dirty = false; // a replace / rebind / clone has happened
    let mut nontrivial = false;
    let mut trace: Vec<String> = Vec::new();
    let history: Vec<String> = ops.iter().map(op_text).collect();
    let ops_json: Vec<Value> = ops.iter().map(op_json).collect();
    let mut out: Vec<Failure> = Vec::new();
    let fail = |sig: &str, what: String, step: usize, trace: &Vec<String>| {
        Failure::new(
            format!("c11:{}", sig),
            what,
            json!({"kind": "history", "ops": history, "ops_json": ops_json, "failed_at_step": step, "trace": trace}),
        )
    };
    for (step, op) in ops.iter().enumerate() {
        match op {
            Op::Add { ctx, name, src } => {
                let i = ctx % ctxs.len();
                let n = PROG_NAMES[*name];
                let r = guard(|| ctxs[i].add_program_str(n, src));
                match r {
                    Ok(Ok(())) => {
                        if mctxs[i].contains_key(n) {
                            dirty = true;
                        }
                        mctxs[i].insert(n.to_string(), src.clone());
                        trace.push(format!("{} -> ok", op_text(op)));
                    }
                    Ok(Err(_)) => trace.push(format!("{} -> compile error (state unchanged)", op_text(op))),
                    Err(p) => {
                        trace.push(format!("{} -> PANIC {}", op_text(op), p.msg));
                        break; // C01 owns panics
                    }
                }
            }
            Op::Bind { b, var, val } => {
                let j = b % binds.len();
                if mbinds[j].contains_key(var) {
                    dirty = true;
                }
                binds[j].bind_param(var, val.to_cel());
                mbinds[j].insert(var.clone(), val.clone());
                trace.push(op_text(op));
            }
            Op::CloneCtx { ctx } => {
                if ctxs.len() < 4 {
                    let i = ctx % ctxs.len();
                    ctxs.push(ctxs[i].clone());
                    mctxs.push(mctxs[i].clone());
                    dirty = true;
                    trace.push(format!("{} -> ctx{}", op_text(op), ctxs.len() - 1));
                }
            }
            Op::CloneBind { b } => {
                if binds.len() < 4 {
                    let j = b % binds.len();
                    binds.push(binds[j].clone());
                    mbinds.push(mbinds[j].clone());
                    dirty = true;
                    trace.push(format!("{} -> b{}", op_text(op), binds.len() - 1));
                }
            }
            Op::DropCtx { ctx } => {
                if ctxs.len() > 1 {
                    let i = ctx % ctxs.len();
                    ctxs.remove(i);
                    mctxs.remove(i);
                    execs.clear();
                    trace.push(format!("drop ctx{}", i));
                }
            }
            Op::DropBind { b } => {
                if binds.len() > 1 {
                    let j = b % binds.len();
                    binds.remove(j);
                    mbinds.remove(j);
                    trace.push(format!("drop b{}", j));
                }
            }
            Op::Inspect { ctx, name, b } => {
                let i = ctx % ctxs.len();
                let j = b % binds.len();
                let n = PROG_NAMES[*name];
                let src = ctxs[i].get_program(n).and_then(|p| p.source().map(|s| s.to_string()));
                if src.as_ref() != mctxs[i].get(n) {
                    out.push(fail("inspect:source-differs", format!("ctx{}.{} has source {:?} but the history stored {:?}", i, n, src, mctxs[i].get(n)), step, &trace));
                    break;
                }
                for (k, v) in &mbinds[j] {
                    let got = binds[j].get_param(k).map(canon_cel);
                    if got.as_deref() != Some(v.canon().as_str()) {
                        out.push(fail("inspect:binding-differs", format!("b{}.{} is {:?} but the history bound {}", j, k, got, v.canon()), step, &trace));
                        break;
                    }
                }
                trace.push(op_text(op));
            }
            Op::Exec { ctx, name, b, twice } => {
                let i = ctx % ctxs.len();
                let j = b % binds.len();
                let n = PROG_NAMES[*name];
                if !mctxs[i].contains_key(n) {
                    trace.push(format!("{} skipped (no such program)", op_text(op)));
                    continue;
                }
                let before_prog: Vec<Option<String>> = PROG_NAMES.iter().map(|p| program_fingerprint(&ctxs[i], p)).collect();
                let before_binds: Vec<(String, Option<String>)> = mbinds[j].keys().map(|k| (k.clone(), binds[j].get_param(k).map(canon_cel))).collect();
                let reps = if *twice { 2 } else { 1 };
                let mut results = Vec::new();
                for _ in 0..reps {
                    let r = guard(|| ctxs[i].exec(n, &binds[j]));
                    results.push(res_text(&r));
                    acc.eval_only(sub, 1);
                }
                let want = fresh_exec(&mctxs[i], &mbinds[j], n);
                let c = execs.entry((i, *name)).or_insert(0);
                *c += reps;
                if dirty || *c >= 2 {
                    nontrivial = true;
                }
                trace.push(format!("{} -> {}   (fresh: {})", op_text(op), results.join(" / "), want));
                if results.iter().any(|r| r.starts_with("PANIC")) || want.starts_with("PANIC") {
                    break; // C01
                }
                if results.iter().any(|r| *r != want) {
                    out.push(fail(
                        "exec:differs-from-fresh-context",
                        format!("step {}: {} gave {} but a fresh context and bindings with the same programs and values give {}", step, op_text(op), results.join(" / "), want),
                        step,
                        &trace,
                    ));
                    break;
                }
                let after_prog: Vec<Option<String>> = PROG_NAMES.iter().map(|p| program_fingerprint(&ctxs[i], p)).collect();
                if after_prog != before_prog {
                    out.push(fail("exec:stored-program-changed", format!("step {}: executing changed a stored program", step), step, &trace));
                    break;
                }
                let after_binds: Vec<(String, Option<String>)> = mbinds[j].keys().map(|k| (k.clone(), binds[j].get_param(k).map(canon_cel))).collect();
                if after_binds != before_binds {
                    out.push(fail("exec:bindings-changed", format!("step {}: executing changed the caller's bindings", step), step, &trace));
                    break;
                }
                // nothing leaked into the bindings either
                for lv in ["e", "x", "k", "acc", "it"] {
                    if !mbinds[j].contains_key(lv) && binds[j].get_param(lv).is_some() {
                        out.push(fail("exec:loop-variable-leaked", format!("step {}: {} is bound after execution", step, lv), step, &trace));
                    }
                }
            }
        }
    }
    let canon = history.join(" ; ");
    acc.case(sub, &canon, nontrivial, if nontrivial { "history:nontrivial" } else { "history:plain" });
    acc.sample(&format!("len{}", ops.len().min(12)), || json!({"history": history, "trace": trace}));
    out
}

const SOURCES: &[&str] = &[
    "1",
    "x + 1",
    "x + y",
    "b + 1",
    "c * 2",
    "b + c",
    "m.map(k, k)",
    "m.filter(k, m[k] > 1)",
    "m.map(k, m[k]).size()",
    "{'z': 1, 'a': x, 'm': 3}.map(k, k)",
    "l.map(e, e + x)",
    "l.filter(e, e > x).size()",
    "l.reduce(acc, e, acc + e, c)",
    "has(m.a) ? m.a : y",
    "coalesce(zz, y, 0)",
    "x > 0 ? b : c",
    "f'{x}-{y}'",
    "match x { case 1: 'one', case int: 'int', case _: 'other' }",
    "[x, y, c].sort()",
    "size(l) + size(s)",
    "s + string(x)",
    "x / y",
    "main + 1",
    "dyn([m, l])",
    "{'k': m, 'l': l}",
    "x ==",
    // bodies that fail differently per key: which failure is reported depends on the visiting order
    "m.filter(k, [10 / (m[k] - 1)][m[k] - 1] > 0)",
    "m.map(k, [10 / (m[k] - 1)][m[k] - 1])",
    "coalesce(m.map(k, m[k] == 1 ? zz : 1 / 0), 'none')",
    // functions that could keep state between calls (compiled patterns, parsed zones)
    "s.matches('s.r')",
    "s.matches('(')",
    "s.matches(s)",
    "'str'.matches('(')",
    "l.filter(e, string(e).matches('[12]')).size()",
    "timestamp(x).getHours('Europe/Berlin')",
    "timestamp(x).getHours('Nowhere/Land')",
];

/// a program that needs `levels` nested interpreter calls (31 is exactly the whole call-depth budget)
fn deep_nest(levels: usize) -> String {
    format!("{}s{}", "[s].all(e, ".repeat(levels), ")".repeat(levels))
}

/// SOURCES plus programs that use (almost) the whole call-depth budget: they only evaluate when
/// nothing of the budget was lost to earlier executions
fn all_sources() -> &'static Vec<String> {
    static ALL: std::sync::OnceLock<Vec<String>> = std::sync::OnceLock::new();
    ALL.get_or_init(|| {
        let mut v: Vec<String> = SOURCES.iter().map(|s| s.to_string()).collect();
        for levels in [31, 31, 30, 29, 24] {
            v.push(deep_nest(levels));
        }
        // runaway recursion: ends in the depth-limit error
        v.push("main + 1".to_string());
        v.push("[1].map(e, main)".to_string());
        // map comparisons where one entry fails and another differs: the visiting order decides
        v.push("{'a': 1 / (x - x), 'b': 1, 'c': 1} == {'a': 1, 'b': 2, 'c': 3}".to_string());
        v.push("{'k1': y, 'k2': 1 / (x - x), 'k3': x, 'k4': 0} != {'k1': x, 'k2': 1, 'k3': y, 'k4': 0}".to_string());
        v.push("[m == {'q': 1, 'a': 1 / (x - x), 'zz': 2, 'b': 7, 'k1': 2, 'k2': 2}]".to_string());
        // every macro over a map range with bodies that fail differently per key; conversions of maps
        for mac in ["all", "exists", "exists_one"] {
            v.push(format!("m.{}(k, [10 / (m[k] - 1)][m[k] - 1] > 0)", mac));
            v.push(format!("{{'p': x - x, 'q': 1, 'r': 2}}.{}(k, [10 / {{'p': x - x, 'q': 1, 'r': 2}}[k]][{{'p': x - x, 'q': 1, 'r': 2}}[k]] > 100)", mac));
        }
        v.push("m.reduce(a, k, a + [10 / (m[k] - 1)][m[k] - 1], 0)".to_string());
        v.push("string(m)".to_string());
        v.push("f'{m}'".to_string());
        v.push("string([m, {'z': 1, 'y': x, 'w': 3}])".to_string());
        v.push("dyn({'z': 1, 'y': x, 'w': 3}).string()".to_string());
        v
    })
}

fn gen_op(g: &mut G, env: &Env, cfg: &Cfg) -> Op {
    match g.below(12) {
        0 | 1 | 2 => {
            let name = g.below(4);
            let src = if g.chance(96) {
                // acyclic by construction: a program may only reference names later in the alphabet
                let mut e2 = env.clone();
                e2.progs = PROG_NAMES[..3].iter().enumerate().filter(|(i, _)| *i > name || name == 3).map(|(_, n)| (n.to_string(), String::new(), Ty::Int)).collect();
                let e = gen_expr(g, cfg, &e2, Ty::Any);
                render_min(&e)
            } else {
                let all = all_sources();
                let s = all[g.below(all.len())].as_str();
                // keep references acyclic (see above); `main + 1` is the one deliberate self-reference
                let ok = match name {
                    0 => true,
                    1 => !s.contains('b'),
                    2 => !s.contains('b') && !s.contains("c ") && !s.contains("c)") && !s.contains("c]"),
                    _ => true,
                };
                if ok || s == "main + 1" { s.to_string() } else { "x + 1".to_string() }
            };
            let src = if name != 3 && src.contains("main") { "x + 1".to_string() } else { src };
            Op::Add { ctx: g.below(4), name, src }
        }
        3 | 4 => {
            let v = g.pick(&env.vars);
            let val = match v.name.as_str() {
                "x" | "y" => V::Int(g.range(-2, 5)),
                _ => value_of_type(g, v.ty, false),
            };
            Op::Bind { b: g.below(4), var: v.name.clone(), val }
        }
        5 => Op::CloneCtx { ctx: g.below(4) },
        6 => Op::CloneBind { b: g.below(4) },
        7 | 8 | 9 => Op::Exec { ctx: g.below(4), name: g.below(4), b: g.below(4), twice: g.flag() },
        10 => Op::Inspect { ctx: g.below(4), name: g.below(4), b: g.below(4) },
        _ => {
            if g.flag() {
                Op::DropCtx { ctx: g.below(4) }
            } else {
                Op::DropBind { b: g.below(4) }
            }
        }
    }
}

fn history_env() -> (Env, Cfg) {
    let mut cfg = Cfg::full();
    cfg.map_iter = true;
    cfg.clock = false;
    cfg.big_numbers = false;
    cfg.max_depth = 3;
    let mut env = Env::default();
    for (n, t) in [("x", Ty::Int), ("y", Ty::Int), ("s", Ty::Str), ("l", Ty::List), ("m", Ty::Map), ("p", Ty::Bool), ("d", Ty::F)] {
        env.vars.push(VarInfo { name: n.to_string(), ty: t, value: None, loop_var: false });
    }
    (env, cfg)
}

fn gen_history(g: &mut G) -> Vec<Op> {
    let (env, cfg) = history_env();
    let n = 1 + g.below(40);
    let mut ops = Vec::new();
    // start from a populated state most of the time
    if g.chance(200) {
        ops.push(Op::Bind { b: 0, var: "x".into(), val: V::Int(2) });
        ops.push(Op::Bind { b: 0, var: "y".into(), val: V::Int(3) });
        let mut m = BTreeMap::new();
        for k in ["q", "a", "zz", "b", "k1", "k2"] {
            m.insert(k.to_string(), V::Int(k.len() as i64));
        }
        ops.push(Op::Bind { b: 0, var: "m".into(), val: V::Map(m) });
        ops.push(Op::Bind { b: 0, var: "l".into(), val: V::List(vec![V::Int(3), V::Int(1), V::Int(2)]) });
        ops.push(Op::Bind { b: 0, var: "s".into(), val: V::s("str") });
        ops.push(Op::Add { ctx: 0, name: 2, src: "x * 2".into() });
        ops.push(Op::Add { ctx: 0, name: 1, src: "c + y".into() });
    }
    for _ in 0..n {
        ops.push(gen_op(g, &env, &cfg));
    }
    ops
}

fn small_alphabet() -> Vec<Op> {
    vec![
        Op::Add { ctx: 0, name: 0, src: "x + 1".into() },
        Op::Add { ctx: 0, name: 0, src: "m.map(k, k)".into() },
        Op::Add { ctx: 1, name: 0, src: "x * 10".into() },
        Op::Add { ctx: 0, name: 1, src: "a".into() },
        Op::Add { ctx: 0, name: 0, src: "s.matches('s.r')".into() },
        Op::Add { ctx: 0, name: 0, src: "s.matches('(')".into() },
        // a runaway recursion (ends in the depth-limit error), then a program that needs the whole budget
        Op::Add { ctx: 0, name: 0, src: "a + 1".into() },
        Op::Add { ctx: 0, name: 0, src: deep_nest(31) },
        Op::Bind { b: 0, var: "x".into(), val: V::Int(1) },
        Op::Bind { b: 0, var: "x".into(), val: V::Int(2) },
        Op::Bind { b: 1, var: "x".into(), val: V::Int(3) },
        Op::CloneCtx { ctx: 0 },
        Op::CloneBind { b: 0 },
        Op::Exec { ctx: 0, name: 0, b: 0, twice: false },
        Op::Exec { ctx: 1, name: 0, b: 1, twice: true },
        Op::Exec { ctx: 0, name: 1, b: 1, twice: false },
    ]
}

/// `src` may be several programs separated by " ;; ": every thread executes them in that order,
/// 8 rounds, and each program's result must be the same on every thread and in every round
fn check_threads(src: &str, binds: &BTreeMap<String, V>, acc: &mut Acc) -> Vec<Failure> {
    let srcs: Vec<&str> = src.split(" ;; ").collect();
    let mut progs = BTreeMap::new();
    progs.insert("c".to_string(), "x * 2".to_string());
    for (i, s) in srcs.iter().enumerate() {
        progs.insert(format!("main{}", i), s.to_string());
    }
    // the reference results come from a thread of their own that has executed nothing else
    let want: Vec<String> = (0..srcs.len())
        .map(|i| {
            let progs = &progs;
            std::thread::scope(|s| s.spawn(move || fresh_exec(progs, binds, &format!("main{}", i))).join().unwrap_or_default())
        })
        .collect();
    let mut results: Vec<(usize, String)> = Vec::new();
    std::thread::scope(|s| {
        let hs: Vec<_> = (0..16)
            .map(|_| {
                let progs = &progs;
                let n = srcs.len();
                s.spawn(move || {
                    let mut v = Vec::new();
                    for _ in 0..8 {
                        for i in 0..n {
                            v.push((i, fresh_exec(progs, binds, &format!("main{}", i))));
                        }
                    }
                    v
                })
            })
            .collect();
        for h in hs {
            results.extend(h.join().unwrap_or_default());
        }
    });
    acc.case("threads", src, true, "threads");
    acc.eval_only("threads", results.len() as u64);
    acc.sample("threads", || json!({"source": src, "result": want, "executions": results.len()}));
    if let Some((i, bad)) = results.iter().find(|(i, r)| *r != want[*i]) {
        return vec![Failure::new(
            "c11:threads:results-differ",
            format!("{} gave {} on a thread that had run nothing else and {} on another thread/repetition", srcs[*i], want[*i], bad),
            json!({"kind": "threads", "source": src}),
        )];
    }
    vec![]
}

/// "The only permitted source of variation is the clock read by now() ...": how long an evaluation
/// takes must not decide its result. One evaluation of a few seconds (8 million innermost bodies).
fn check_long_evaluation(acc: &mut Acc) {
    let n = 200usize;
    let src = "l.map(a, l.map(b, l.map(c, a + b + c).size()).size()).size()";
    let mut progs = BTreeMap::new();
    progs.insert("main".to_string(), src.to_string());
    let mut binds = BTreeMap::new();
    binds.insert("l".to_string(), V::List((0..n as i64).map(V::Int).collect()));
    let t0 = std::time::Instant::now();
    let got = fresh_exec(&progs, &binds, "main");
    let secs = t0.elapsed().as_secs_f64();
    acc.case("long-evaluation", src, true, "long-evaluation");
    acc.eval_only("long-evaluation", 1);
    acc.sample("long-evaluation", || json!({"source": src, "list_length": n, "result": got, "seconds": secs}));
    let want = format!("{}u", n);
    if got != want {
        acc.fail(Failure::new(
            "c11:long-evaluation:wrong-result",
            format!("{} over {} elements ran {:.1} s and gave {} instead of {}", src, n, secs, got, want),
            json!({"kind": "long-evaluation"}),
        ));
    }
}

fn run(opts: &Opts, acc: &mut Acc) {
    if !opts.is_dbg() {
        check_long_evaluation(acc);
    }
    // exhaustive short sequences
    if !opts.is_dbg() {
        let alpha = small_alphabet();
        let mut seqs: Vec<Vec<usize>> = Vec::new();
        for a in 0..alpha.len() {
            seqs.push(vec![a]);
            for b in 0..alpha.len() {
                seqs.push(vec![a, b]);
                for c in 0..alpha.len() {
                    seqs.push(vec![a, b, c]);
                }
            }
        }
        // every sequence is followed by the three execs so that its effect is observed
        par_chunks(acc, opts.threads, &seqs, |s, a| {
            let mut ops: Vec<Op> = vec![
                Op::Bind { b: 0, var: "m".into(), val: V::Map([("k2".to_string(), V::Int(1)), ("k1".to_string(), V::Int(2)), ("a".to_string(), V::Int(3)), ("zz".to_string(), V::Int(4))].into_iter().collect()) },
            ];
            ops.push(Op::Bind { b: 0, var: "s".into(), val: V::s("str") });
            ops.extend(s.iter().map(|i| alpha[*i].clone()));
            ops.push(Op::Exec { ctx: 0, name: 0, b: 0, twice: true });
            ops.push(Op::Exec { ctx: 1, name: 0, b: 1, twice: false });
            ops.push(Op::Exec { ctx: 1, name: 1, b: 0, twice: false });
            for f in run_history(&ops, "short-sequences", a) {
                a.fail(f);
            }
        });
        acc.mark_exhaustive("short-sequences", "all sequences of length 1..3 over a 16-operation alphabet, each followed by three observing execs");
        let mut binds = BTreeMap::new();
        binds.insert("x".to_string(), V::Int(3));
        binds.insert("l".to_string(), V::List((0..40).map(V::Int).collect()));
        binds.insert("m".to_string(), V::Map((0..12).map(|i| (format!("key{}", i), V::Int(i))).collect()));
        binds.insert("s".to_string(), V::s("str"));
        for src in [
            "m.map(k, k)",
            "m.filter(k, m[k] > 3)",
            "l.map(e, e + c)",
            "{'b': 1, 'a': x, 'c': 3}.map(k, k)",
            "l.reduce(acc, e, acc + e, 0)",
            "[m, l, x]",
            // key0 divides by zero, every other key indexes past the end: the first key in the fixed order decides
            "m.filter(k, [10 / m[k]][m[k]] > 0)",
            "m.map(k, [10 / m[k]][m[k]])",
            "{'b': x, 'a': x - 3, 'c': x}.filter(k, [1 / ({'b': x, 'a': x - 3, 'c': x}[k])][{'b': x, 'a': x - 3, 'c': x}[k]] > 0)",
            "coalesce(m.map(k, m[k] == 0 ? zz : 1 / 0), 'none')",
            "{'a': 1 / (x - 3), 'b': 1, 'c': 1} == {'a': 1, 'b': 2, 'c': 3}",
            "{'a': 1 / (x - 3), 'b': 1, 'c': 1, 'd': 1, 'e': 1} != {'a': 1, 'b': 2, 'c': 3, 'd': 1, 'e': 0}",
            "m == {'key0': 1 / (x - 3), 'key1': 0, 'key2': 0, 'key3': 3, 'key4': 4, 'key5': 5, 'key6': 6, 'key7': 7, 'key8': 8, 'key9': 9, 'key10': 10, 'key11': 11}",
            "[x, 1 / (x - 3)] == [0, 1]",
            "m.all(k, [10 / m[k]][m[k]] > 0) ;; m.exists(k, [10 / m[k]][m[k]] > 0) ;; m.exists_one(k, [10 / m[k]][m[k]] > 0) ;; m.reduce(a, k, a + [10 / m[k]][m[k]], 0)",
            "string(m) ;; f'{m}' ;; string([{'b': x, 'a': 1, 'c': 3}])",
            "s.matches('s.r') ;; s.matches('(') ;; s.matches('(') ;; s.matches('^x') ;; s.matches('s.r')",
            "'str'.matches('s.r') ;; 'str'.matches('(')",
            "timestamp(x).getHours('Europe/Berlin') ;; timestamp(x).getHours('Nowhere/Land') ;; timestamp(x).getHours('Nowhere/Land') ;; timestamp(x).getHours('+02:00')",
            "int('12') ;; int('zz') ;; int('zz') ;; double('1e3') ;; double('e') ;; duration('1h') ;; duration('1x') ;; duration('1x')",
        ] {
            for f in check_threads(src, &binds, acc) {
                acc.fail(f);
            }
        }
    }
    let n = match (opts.tier, opts.is_dbg()) {
        (crate::engine::Tier::Quick, _) => 60_000,
        (_, false) => 600_000,
        (_, true) => 60_000,
    };
    random_genomes(acc, opts, "histories", n, 600, |gn, a| {
        let mut g = G::new(gn);
        let ops = gen_history(&mut g);
        run_history(&ops, "histories", a)
    });
}

fn replay(_opts: &Opts, d: &Value, acc: &mut Acc) {
    if let Some(hex) = d.get("genome_hex").and_then(|h| h.as_str()) {
        let gn = crate::engine::unhex(hex);
        let mut g = G::new(&gn);
        let ops = gen_history(&mut g);
        for f in run_history(&ops, "replay", acc) {
            acc.fail(f);
        }
        return;
    }
    if d.get("kind").and_then(|k| k.as_str()) == Some("long-evaluation") {
        check_long_evaluation(acc);
        return;
    }
    if d.get("kind").and_then(|k| k.as_str()) == Some("threads") {
        let src = d.get("source").and_then(|s| s.as_str()).unwrap_or("1");
        let mut binds = BTreeMap::new();
        binds.insert("x".to_string(), V::Int(3));
        binds.insert("l".to_string(), V::List((0..40).map(V::Int).collect()));
        binds.insert("m".to_string(), V::Map((0..12).map(|i| (format!("key{}", i), V::Int(i))).collect()));
        binds.insert("s".to_string(), V::s("str"));
        for f in check_threads(src, &binds, acc) {
            acc.fail(f);
        }
        return;
    }
    if let Some(arr) = d.get("ops_json").and_then(|a| a.as_array()) {
        let ops: Option<Vec<Op>> = arr.iter().map(op_unjson).collect();
        match ops {
            Some(ops) => {
                for f in run_history(&ops, "replay", acc) {
                    acc.fail(f);
                }
            }
            None => acc.inconclusive.push("C11 replay: unreadable ops_json".into()),
        }
        return;
    }
    acc.inconclusive.push("C11 replay needs ops_json, a genome or a threads case".into());
}

/// libFuzzer entry: one generated history
pub fn fuzz_case(genome: &[u8], acc: &mut Acc) -> Vec<Failure> {
    let mut g = G::new(genome);
    let ops = gen_history(&mut g);
    run_history(&ops, "fuzz", acc)
}
