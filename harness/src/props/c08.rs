//! C08 — has() and coalesce() distinguish absent data from every other failure.

use super::Prop;
use crate::engine::{par_chunks, random_genomes, Acc, Failure, Opts};
use crate::expr::*;
use crate::g::G;
use crate::model::{self, Ctx, FnResult, Out};
use crate::rec::run_recorded;
use crate::val::V;
use serde_json::{json, Value};
use std::collections::BTreeMap;

pub static PROP: Prop = Prop {
    id: "C08",
    rule: "exhaustive: field paths of depth 0..4 (every mix of .f and ['f'] steps) x binding configurations {root unbound, \
           key missing at each level, leaf null, leaf present, intermediate not a map} wrapped in has() and in coalesce(path, \
           fallback); coalesce argument lists of length 0..3 over 20 argument kinds (present variable/literal, null literal and \
           variable, absent variable, absent field, absent key, division by zero, bad index, type error, call of an unbound function, the same failures spelled with literals only, recording functions \
           returning null / a value / failing) and has() over each kind; each placed at top level, inside macro bodies, in ?: \
           arms, as call argument and as list element. random: lists of length 4-5 and nested has/coalesce. Oracle: reference \
           model with the Absent failure class; the ordered log of recorded calls (arguments after the chosen one are not \
           evaluated). Field names come from two alphabets (plain; names of built-in functions) counted separately. \
           Non-trivial = some argument/path is absent or fails otherwise; distinct by canonical case.",
    assumptions: &[
        "field access (.f) on a bound int/uint/double/bool/string/bytes/list/null value is an absent field (the property's \
         configuration 'intermediate not a map'; interp.rs builds an Attribute error for it); ['f'] on such a value is another failure",
        "a field whose name equals a built-in function/macro name and is absent from the map is a bound method: not asserted (DESIGN 8.10)",
    ],
    run,
    replay,
    both_profiles: super::thorough_both,
};

#[derive(Clone, Debug)]
struct Case {
    label: String,
    e: E,
    binds: Vec<(String, V)>,
    nontrivial: bool,
}

fn recorders() -> BTreeMap<String, FnResult> {
    let mut m = BTreeMap::new();
    m.insert("q0".into(), FnResult::Val(V::Null));
    m.insert("q1".into(), FnResult::Val(V::Int(7)));
    m.insert("q2".into(), FnResult::Fail);
    m.insert("q3".into(), FnResult::Val(V::s("x")));
    m
}

fn base_binds() -> Vec<(String, V)> {
    let mut m = BTreeMap::new();
    m.insert("a".to_string(), V::Int(1));
    m.insert("n".to_string(), V::Null);
    vec![
        ("pv".into(), V::Int(3)),
        ("nv".into(), V::Null),
        ("one".into(), V::Int(1)),
        ("m".into(), V::Map(m)),
        ("el".into(), V::List(vec![])),
        ("t".into(), V::Bool(true)),
        ("f".into(), V::Bool(false)),
    ]
}

/// argument kinds: (label, expression, is it absent/failing?)
fn arg_kinds() -> Vec<(&'static str, E, bool)> {
    vec![
        ("present-var", var("pv"), false),
        ("present-lit", ilit(5), false),
        ("null-lit", E::Lit(V::Null), false),
        ("null-var", var("nv"), false),
        ("null-field", E::Field(Box::new(var("m")), "n".into()), false),
        ("absent-var", var("w"), true),
        ("absent-field", E::Field(Box::new(var("m")), "zz".into()), true),
        ("absent-key", E::Index(Box::new(var("m")), Box::new(slit("zz"))), true),
        ("div-zero", bin(Op::Div, var("one"), ilit(0)), true),
        ("bad-index", E::Index(Box::new(var("el")), Box::new(ilit(0))), true),
        ("type-error", bin(Op::Sub, slit("a"), var("one")), true),
        ("unbound-call", call("nosuchfn", vec![var("pv")]), true),
        // the same failures spelled with literals only (they are evaluated while compiling)
        ("lit-absent-key", E::Index(Box::new(E::Map(vec![(slit("a"), ilit(1))])), Box::new(slit("zz"))), true),
        ("lit-absent-field", E::Field(Box::new(E::Map(vec![(slit("a"), ilit(1))])), "zz".into()), true),
        ("lit-div-zero", bin(Op::Div, ilit(1), ilit(0)), true),
        ("lit-bad-index", E::Index(Box::new(E::List(vec![ilit(1)])), Box::new(ilit(5))), true),
        ("lit-type-error", bin(Op::Sub, slit("a"), ilit(1)), true),
        ("rec-null", call("q0", vec![]), false),
        ("rec-value", call("q1", vec![]), false),
        ("rec-fail", call("q2", vec![]), true),
    ]
}

fn placements(x: &E) -> Vec<(&'static str, E)> {
    vec![
        ("top", x.clone()),
        ("macro-body", method(E::List(vec![ilit(1), ilit(2)]), "map", vec![var("e"), x.clone()])),
        ("macro-pred", method(E::List(vec![ilit(1)]), "filter", vec![var("e"), bin(Op::Eq, x.clone(), x.clone())])),
        ("ternary-then", E::Tern(Box::new(var("t")), Box::new(x.clone()), Box::new(ilit(0)))),
        ("ternary-else", E::Tern(Box::new(var("f")), Box::new(ilit(0)), Box::new(x.clone()))),
        ("call-arg", call("dyn", vec![x.clone()])),
        ("list-elem", E::Index(Box::new(E::List(vec![x.clone()])), Box::new(ilit(0)))),
        ("nested-coalesce", call("coalesce", vec![E::Lit(V::Null), x.clone(), call("q3", vec![])])),
    ]
}

fn check_case(c: &Case, sub: &str, acc: &mut Acc) -> Vec<Failure> {
    let vars: BTreeMap<String, V> = c.binds.iter().cloned().collect();
    let progs = BTreeMap::new();
    let fs = recorders();
    let mut ctx = Ctx::new(&vars, &progs, &fs);
    ctx.nonmap_field_absent = true;
    let expected = ctx.eval(&c.e, &mut Vec::new());
    let want_log = ctx.log.clone();
    let log_known = !ctx.log_unspecified;
    let src = render_min(&c.e);
    let canon = format!("{} @ {}", src, crate::run::binds_json(&c.binds));
    acc.case(sub, &canon, c.nontrivial, &c.label);
    if expected == Out::Unspec {
        acc.skip("model: not determined by the statement");
    }
    let r = run_recorded(&src, &c.binds, &[], &fs);
    acc.eval_only(sub, 1);
    let sum = r.out.res.sum();
    acc.sample(&c.label, || json!({"source": src, "bindings": crate::run::binds_json(&c.binds), "model": expected.show(),
                                   "model_calls": want_log, "result": sum.show(), "calls": r.log}));
    let detail = |extra: Value| {
        json!({"kind": "case", "source": src,
               "bindings": c.binds.iter().map(|(k, v)| json!([k, super::c03::vjson(v)])).collect::<Vec<_>>(), "extra": extra})
    };
    if let Some(mode) = model::judge(&expected, &r.out.res) {
        return vec![Failure::new(
            format!("c08:{}:{}", c.label, mode),
            format!("{} with {} -> {} but the statement gives {}", src, crate::run::binds_json(&c.binds), sum.show(), expected.show()),
            detail(json!({"expected": expected.show(), "actual": sum.show()})),
        )];
    }
    if log_known && expected != Out::Unspec && r.log != want_log {
        return vec![Failure::new(
            format!("c08:{}:calls-differ", c.label),
            format!("{} called {:?} but arguments are evaluated left to right and none after the chosen one: {:?}", src, r.log, want_log),
            detail(json!({"expected_calls": want_log, "actual_calls": r.log})),
        )];
    }
    vec![]
}

/// nested map of depth `names.len()` ending in `leaf`
fn nest(names: &[&str], leaf: V) -> V {
    let mut cur = leaf;
    for n in names.iter().rev() {
        let mut m = BTreeMap::new();
        m.insert(n.to_string(), cur);
        // a sibling so that maps are never singletons
        m.insert("sib".to_string(), V::Int(0));
        cur = V::Map(m);
    }
    cur
}

fn path_expr(names: &[&str], styles: u32) -> E {
    let mut cur = var("r");
    for (i, n) in names.iter().enumerate() {
        cur = if styles & (1 << i) != 0 {
            E::Index(Box::new(cur), Box::new(slit(n)))
        } else {
            E::Field(Box::new(cur), n.to_string())
        };
    }
    cur
}

fn path_cases(alphabet: &[&'static str], tag: &'static str) -> Vec<Case> {
    let mut out = Vec::new();
    for depth in 0..=4usize {
        let names: Vec<&str> = alphabet.iter().take(depth).cloned().collect();
        for styles in 0..(1u32 << depth) {
            let p = path_expr(&names, styles);
            // configurations
            let mut configs: Vec<(String, Option<V>)> = vec![
                ("present".into(), Some(nest(&names, V::Int(7)))),
                ("leaf-null".into(), Some(nest(&names, V::Null))),
                ("root-unbound".into(), None),
            ];
            for j in 0..depth {
                // key at level j missing: the map at level j lacks names[j]
                let mut m = BTreeMap::new();
                m.insert("sib".to_string(), V::Int(0));
                configs.push((format!("missing-at-{}", j), Some(nest(&names[..j], V::Map(m)))));
                // intermediate at level j is not a map
                for (t, v) in [
                    ("int", V::Int(5)),
                    ("str", V::s("txt")),
                    ("list", V::List(vec![V::Int(1), V::Int(2)])),
                    ("null", V::Null),
                    ("bool", V::Bool(true)),
                ] {
                    configs.push((format!("non-map-{}-at-{}", t, j), Some(nest(&names[..j], v))));
                }
            }
            for (cname, rv) in configs {
                let mut binds = base_binds();
                if let Some(v) = rv {
                    binds.push(("r".into(), v));
                }
                let nontrivial = cname != "present";
                for (wrap, e) in [
                    ("has", call("has", vec![p.clone()])),
                    ("coalesce", call("coalesce", vec![p.clone(), slit("fallback")])),
                    ("has-cmp", call("has", vec![bin(Op::Add, p.clone(), ilit(1))])),
                ] {
                    for (pl, pe) in placements(&e).into_iter().take(if depth <= 2 { 8 } else { 2 }) {
                        out.push(Case {
                            label: format!("path-{}:{}:{}:{}", tag, wrap, cname.split("-at-").next().unwrap_or(&cname), pl),
                            e: pe,
                            binds: binds.clone(),
                            nontrivial,
                        });
                    }
                }
            }
        }
    }
    out
}

fn arg_cases() -> Vec<Case> {
    let kinds = arg_kinds();
    let mut out = Vec::new();
    let binds = base_binds();
    // has over each kind, in every placement
    for (kl, ke, bad) in &kinds {
        let e = call("has", vec![ke.clone()]);
        for (pl, pe) in placements(&e) {
            out.push(Case { label: format!("has:{}:{}", kl, pl), e: pe, binds: binds.clone(), nontrivial: *bad });
        }
    }
    // has with the wrong number of arguments
    out.push(Case { label: "has:arity0".into(), e: call("has", vec![]), binds: binds.clone(), nontrivial: false });
    out.push(Case { label: "has:arity2".into(), e: call("has", vec![var("pv"), var("pv")]), binds: binds.clone(), nontrivial: false });
    // coalesce over all argument lists of length 0..3
    let mut lists: Vec<Vec<usize>> = vec![vec![]];
    let mut cur: Vec<Vec<usize>> = vec![vec![]];
    for _ in 0..3 {
        let mut next = Vec::new();
        for l in &cur {
            for k in 0..kinds.len() {
                let mut t = l.clone();
                t.push(k);
                next.push(t);
            }
        }
        lists.extend(next.iter().cloned());
        cur = next;
    }
    for l in lists {
        let args: Vec<E> = l.iter().map(|&k| kinds[k].1.clone()).collect();
        let bad = l.iter().any(|&k| kinds[k].2);
        let e = call("coalesce", args);
        let n = l.len();
        let pls = placements(&e);
        let take = if n <= 2 { pls.len() } else { 1 };
        for (pl, pe) in pls.into_iter().take(take) {
            out.push(Case { label: format!("coalesce:len{}:{}", n, pl), e: pe, binds: binds.clone(), nontrivial: bad });
        }
    }
    out
}

fn gen_case(g: &mut G) -> Case {
    let kinds = arg_kinds();
    let binds = base_binds();
    fn gen_arg(g: &mut G, kinds: &[(&'static str, E, bool)], depth: u32) -> (E, bool) {
        if depth > 0 && g.chance(48) {
            let n = g.below(4);
            let mut bad = false;
            let args: Vec<E> = (0..n)
                .map(|_| {
                    let (e, b) = gen_arg(g, kinds, depth - 1);
                    bad |= b;
                    e
                })
                .collect();
            return (call("coalesce", args), bad);
        }
        if depth > 0 && g.chance(32) {
            let (e, b) = gen_arg(g, kinds, depth - 1);
            return (call("has", vec![e]), b);
        }
        let k = g.pick(kinds);
        (k.1.clone(), k.2)
    }
    let n = 3 + g.below(4);
    let mut bad = false;
    let args: Vec<E> = (0..n)
        .map(|_| {
            let (e, b) = gen_arg(g, &kinds, 2);
            bad |= b;
            e
        })
        .collect();
    let e = call("coalesce", args);
    let pls = placements(&e);
    let (pl, pe) = g.pick(&pls).clone();
    Case { label: format!("random:{}", pl), e: pe, binds, nontrivial: bad }
}

fn all_grid() -> Vec<Case> {
    let mut grid = path_cases(&["a", "b", "c", "d"], "plain");
    // field names that are also names of built-in functions / macros (measured separately)
    grid.extend(path_cases(&["size", "map", "contains", "has"], "builtin-named"));
    grid.extend(arg_cases());
    grid
}

fn run(opts: &Opts, acc: &mut Acc) {
    let grid = all_grid();
    par_chunks(acc, opts.threads, &grid, |c, a| {
        for f in check_case(c, "grid", a) {
            a.fail(f);
        }
    });
    acc.mark_exhaustive("grid", "paths x binding configurations x placements; coalesce argument lists of length 0..3; has over every argument kind");
    let n = match (opts.tier, opts.is_dbg()) {
        (crate::engine::Tier::Quick, _) => 300_000,
        (_, false) => 2_000_000,
        (_, true) => 200_000,
    };
    random_genomes(acc, opts, "random", n, 120, |gn, a| {
        let mut g = G::new(gn);
        let c = gen_case(&mut g);
        check_case(&c, "random", a)
    });
}

fn replay(_opts: &Opts, d: &Value, acc: &mut Acc) {
    if let Some(hex) = d.get("genome_hex").and_then(|h| h.as_str()) {
        let gn = crate::engine::unhex(hex);
        let mut g = G::new(&gn);
        let c = gen_case(&mut g);
        for f in check_case(&c, "replay", acc) {
            acc.fail(f);
        }
        return;
    }
    let src = d.get("source").and_then(|s| s.as_str()).unwrap_or("");
    let want = d.get("bindings").cloned();
    for c in all_grid() {
        if render_min(&c.e) == src {
            let have = Some(json!(c.binds.iter().map(|(k, v)| json!([k, super::c03::vjson(v)])).collect::<Vec<_>>()));
            if want.is_some() && want != have {
                continue;
            }
            for f in check_case(&c, "replay", acc) {
                acc.fail(f);
            }
            return;
        }
    }
    acc.inconclusive.push("C08 replay: case not found".into());
}

/// libFuzzer entry: one generated case
pub fn fuzz_case(genome: &[u8], acc: &mut Acc) -> Vec<Failure> {
    let mut g = G::new(genome);
    let c = gen_case(&mut g);
    check_case(&c, "fuzz", acc)
}
