//! C20 — CEL-to-SQL translation preserves structure and cannot be escaped by literals.
//!
//! Every case is a CEL source. Its syntax tree (`Program::ast()`, normalised by `astn`) is
//! the expected operator tree; the SQL text produced by `rscel-to-sql` is tokenised with
//! standard SQL lexical rules and re-parsed by `sqlp` — a parser that shares no code with
//! the translator — and the two trees are compared node by node under the fixed renaming.
//! The translator is never asked what it meant: only its output text is read.

use super::Prop;
use crate::astn::shape_of;
use crate::engine::{guard, par_chunks, random_genomes, Acc, Failure, Opts};
use crate::expr::*;
use crate::g::G;
use crate::run::{compile, Res2};
use crate::sqlp::{self, Dash, Sq};
use crate::val::V;
use rscel_to_sql::IntoSqlBuilder;
use serde_json::{json, Value};

pub static PROP: Prop = Prop {
    id: "C20",
    rule: "exhaustive grids: 14 binary operators x 8x8 literal/identifier operands; runs of 1-3 `!` and of 1-3 `-` x 9 operand \
           forms; 9 type constructors x arity 0/1/2 x 14 argument forms, stand-alone, nested and at the head of a chain; every \
           symbol of the string alphabet (', '', \\, --, /*, */, ;, newline, tab, \", non-ASCII, ...) alone and embedded, in 10 \
           positions (literal, operand, argument, list element, map key, map value, index key, cast operand, ?: branch, chained-call \
           argument); call shapes (stand-alone 0-3 arguments, method, call on call, call on index, macro calls, calls in arguments); \
           member/index paths; ?: in every slot; list and map literals; untranslatable constructs (match, f-string, byte string) in \
           every slot. random: expression trees to depth 5 over the translatable subset (operators, ?:, unary runs, stand-alone and \
           chained calls, member/index paths, lists, maps, constructors with 0-2 arguments, int/uint/double/bool/null/string \
           literals), half of the cases with quote-bearing strings, one in eight with an untranslatable construct somewhere. \
           Oracle per case: the SQL text is one statement for a standard SQL tokenizer (no comment, no `;`, no unterminated \
           literal, nothing left over) and re-parses to the tree of the source under the renaming (== = , != <>, || OR, && AND, \
           ?: case, constructor cast, . ->/->>, [] index, list ARRAY, map json_build_object): same operators, operand order and \
           grouping, same function names with arguments in source order, same field/index paths, casts for 0/1-argument \
           constructors; the multiset of SQL string-literal contents equals the multiset of CEL string-literal values; \
           untranslatable sources give an Unsupported error; no panic. Non-trivial = contains a call inside a member chain, or a \
           string literal containing a quote, backslash or comment opener, or operators nested >= 3 deep; distinct by source text.",
    assumptions: &[
        "Program::ast() normalised by astn (call arguments un-reversed, parentheses transparent) is the tree the source denotes (C02 checks that separately)",
        "standard SQL lexical rules: a literal ends at an unpaired ', '' is an embedded quote, backslash is ordinary, -- and /* */ are comments, ; ends the statement",
        "where the emitted text leaves grouping to precedence, the most lenient reading is used: postfix forms (::type, ->, ->>, [i], (args)) apply left to right and bind tighter than a prefix run, which binds tighter than any binary operator; PostgreSQL's stricter rule (:: and [] bind tighter than ->) is not asserted",
        "numeric literals are compared by value (5u = 5, 0.0 = 0): the SQL dialect has no unsigned or float literal spelling and the repository's examples pin `0.0` -> `0`",
        "`->>` is required for a field that ends its member chain and `->` for a field that is navigated further (as the repository's examples show); the arrow of a method name is not asserted",
        "identifiers are copied verbatim and generated identifiers avoid SQL key words; identifier quoting is outside the property",
        "a run of >= 2 unary minuses emitted as `--` is reported under the single signature c20:unary-minus-run:comment-opener and the rest of that output is checked with `-` read as a minus sign",
    ],
    run,
    replay,
    both_profiles: |_| false,
};

// ---------------------------------------------------------------------------
// What the source tree contains

#[derive(Clone, Copy, Debug, PartialEq, Eq, PartialOrd, Ord)]
enum StrPos {
    Literal,
    MapKey,
    IndexKey,
}

impl StrPos {
    fn name(self) -> &'static str {
        match self {
            StrPos::Literal => "string-literal",
            StrPos::MapKey => "map-key",
            StrPos::IndexKey => "index-key",
        }
    }
}

#[derive(Default, Debug)]
struct Info {
    /// canonical text of every string literal (map keys and index keys included) + position
    strings: Vec<(String, StrPos)>,
    neg_run: bool,
    untranslatable: Vec<&'static str>,
    chain_call: bool,
    op_depth: usize,
    constructs: std::collections::BTreeSet<&'static str>,
}

fn is_str_canon(t: &str) -> bool {
    t.starts_with('"')
}

fn analyse(s: &Shape, pos: StrPos, recv: bool, depth: usize, info: &mut Info) {
    let opd = |d: usize, info: &mut Info| {
        if d > info.op_depth {
            info.op_depth = d;
        }
    };
    match s {
        Shape::Tern(c, a, b) => {
            info.constructs.insert("ternary");
            opd(depth + 1, info);
            for x in [c, a, b] {
                analyse(x, StrPos::Literal, false, depth + 1, info);
            }
        }
        Shape::Match(..) => {
            info.constructs.insert("match");
            info.untranslatable.push("match");
        }
        Shape::Bin(_, a, b) => {
            info.constructs.insert("binary");
            opd(depth + 1, info);
            analyse(a, StrPos::Literal, false, depth + 1, info);
            analyse(b, StrPos::Literal, false, depth + 1, info);
        }
        Shape::Not(_, x) => {
            info.constructs.insert("not-run");
            opd(depth + 1, info);
            analyse(x, StrPos::Literal, false, depth + 1, info);
        }
        Shape::Neg(n, x) => {
            info.constructs.insert("minus-run");
            if *n >= 2 {
                info.neg_run = true;
            }
            opd(depth + 1, info);
            analyse(x, StrPos::Literal, false, depth + 1, info);
        }
        Shape::Ident(n) => {
            if n.starts_with('<') {
                info.untranslatable.push("keyword-primary");
            }
        }
        Shape::Lit(t) => {
            if is_str_canon(t) {
                info.constructs.insert("string");
                info.strings.push((t.clone(), pos));
            } else if t.starts_with("b[") {
                info.constructs.insert("bytes");
                info.untranslatable.push("byte-string");
            }
        }
        Shape::List(l) => {
            info.constructs.insert("list");
            for x in l {
                analyse(x, StrPos::Literal, false, depth, info);
            }
        }
        Shape::Map(m) => {
            info.constructs.insert("map");
            for (k, v) in m {
                analyse(k, StrPos::MapKey, false, depth, info);
                analyse(v, StrPos::Literal, false, depth, info);
            }
        }
        Shape::Field(o, _) => {
            info.constructs.insert("field");
            analyse(o, StrPos::Literal, true, depth, info);
        }
        Shape::Index(a, i) => {
            info.constructs.insert("index");
            analyse(a, StrPos::Literal, true, depth, info);
            analyse(i, StrPos::IndexKey, false, depth, info);
        }
        Shape::Call(f, args) => {
            let plain = matches!(f.as_ref(), Shape::Ident(_));
            if !plain || recv {
                info.chain_call = true;
                info.constructs.insert("chained-call");
            } else if matches!(f.as_ref(), Shape::Ident(n) if sqlp::sql_type_of_ctor(n).is_some()) {
                info.constructs.insert("constructor");
            } else {
                info.constructs.insert("call");
            }
            if !plain {
                analyse(f, StrPos::Literal, true, depth, info);
            }
            for a in args {
                analyse(a, StrPos::Literal, false, depth, info);
            }
        }
        Shape::FStr(_) => {
            info.constructs.insert("fstring");
            info.untranslatable.push("f-string");
        }
    }
}

/// the raw value behind a canonical (`{:?}`-quoted) string is not needed: "contains a quote"
/// etc. can be read off the canonical text, because `{:?}` escapes `'` as `\'` only inside
/// char literals, never inside strings, and writes `\` as `\\`
fn canon_has_quote(t: &str) -> bool {
    t.contains('\'')
}
fn canon_risky(t: &str) -> bool {
    t.contains('\'') || t.contains("\\\\") || t.contains("--") || t.contains("/*")
}

// ---------------------------------------------------------------------------
// Tree comparison

#[derive(Clone, Debug)]
struct Mis {
    class: String,
    mode: String,
    msg: String,
    /// soft = the comparison continued behind this finding with a corrected alignment;
    /// hard = the sub-trees below this node were not compared
    hard: bool,
}

fn hard(out: &mut Vec<Mis>, class: &str, mode: impl Into<String>, msg: String) {
    out.push(Mis {
        class: class.to_string(),
        mode: mode.into(),
        msg,
        hard: true,
    });
}

fn soft(out: &mut Vec<Mis>, class: &str, mode: impl Into<String>, msg: String) {
    out.push(Mis {
        class: class.to_string(),
        mode: mode.into(),
        msg,
        hard: false,
    });
}

/// (hard, soft) counts: alignments are compared lexicographically
fn cost(v: &[Mis]) -> (usize, usize) {
    let h = v.iter().filter(|m| m.hard).count();
    (h, v.len() - h)
}

fn plus_soft(c: (usize, usize)) -> (usize, usize) {
    (c.0, c.1 + 1)
}

#[derive(Clone, Copy, PartialEq, Eq)]
enum Role {
    /// not the receiver of a postfix form
    Top,
    /// receiver of `.f` or `[i]`
    Navigated,
    /// receiver of `(args)`
    Callee,
}

fn cel_class(c: &Shape, role: Role) -> &'static str {
    match c {
        Shape::Tern(..) => "ternary",
        Shape::Match(..) => "match",
        Shape::Bin(..) => "binary",
        Shape::Not(..) => "not-run",
        Shape::Neg(..) => "minus-run",
        Shape::Ident(_) => "ident",
        Shape::Lit(t) if is_str_canon(t) => "string-literal",
        Shape::Lit(_) => "literal",
        Shape::List(_) => "list",
        Shape::Map(_) => "map",
        Shape::Field(..) => "field",
        Shape::Index(..) => "index",
        Shape::Call(f, args) => match f.as_ref() {
            Shape::Ident(n) if sqlp::sql_type_of_ctor(n).is_some() && args.len() <= 1 => {
                if role == Role::Top {
                    "constructor"
                } else {
                    "constructor-in-chain"
                }
            }
            Shape::Ident(_) if role == Role::Top => "standalone-call",
            _ => "chained-call",
        },
        Shape::FStr(_) => "fstring",
    }
}

fn lit_matches(cel: &str, s: &Sq) -> bool {
    if is_str_canon(cel) {
        return matches!(s, Sq::Str(x) if V::Str(x.clone()).canon() == cel);
    }
    match cel {
        "true" => return matches!(s, Sq::Bool(true)),
        "false" => return matches!(s, Sq::Bool(false)),
        "null" => return matches!(s, Sq::Null),
        _ => {}
    }
    let Sq::Num(t) = s else { return false };
    let digits = |x: &str| !x.is_empty() && x.chars().all(|c| c.is_ascii_digit());
    let int_text = cel.strip_suffix('u').unwrap_or(cel);
    if digits(int_text) {
        // integer literal (int or uint): the SQL token must be an integer of the same value
        return digits(t) && t.parse::<u128>().is_ok() && int_text.parse::<u128>().ok() == t.parse::<u128>().ok();
    }
    // double literal: the SQL token must read back as exactly the same double
    match (cel.parse::<f64>(), t.parse::<f64>()) {
        (Ok(a), Ok(b)) => a.to_bits() == b.to_bits(),
        _ => false,
    }
}

fn is_ctor1(c: &Shape) -> bool {
    matches!(c, Shape::Call(f, args) if args.len() == 1 && matches!(f.as_ref(), Shape::Ident(n) if sqlp::sql_type_of_ctor(n).is_some()))
}

/// where a node sits: (class of the enclosing construct, slot in it). A node that does not
/// correspond is reported against the construct that emitted it into that slot, which keeps
/// the signature space small and names the emitter rather than the victim.
type At = (&'static str, &'static str);

fn wrong_node(out: &mut Vec<Mis>, c: &Shape, s: &Sq, at: At) {
    hard(
        out,
        at.0,
        format!("{}-differs", at.1),
        format!("in slot `{}` of a {}: source node {} corresponds to SQL node {}", at.1, at.0, c.show(), s.to_shape().show()),
    );
}

fn diff_seq(out: &mut Vec<Mis>, cs: &[&Shape], ss: &[&Sq], at: At) {
    for (c, s) in cs.iter().zip(ss.iter()) {
        diff(c, s, Role::Top, at, out);
    }
}

/// Compare the source tree with the re-parsed SQL tree; every deviation is appended to `out`.
/// Where a deviation has a known shape (reversed argument list, swapped operands, a cast that
/// was not grouped, a constructor emitted as a call) it is recorded and the comparison goes on
/// with the corrected alignment, so that independent deviations deeper in the same output
/// keep their own signatures.
fn diff(c: &Shape, s: &Sq, role: Role, at: At, out: &mut Vec<Mis>) {
    match c {
        Shape::Tern(cc, ca, cb) => match s {
            Sq::Case(sc, sa, sb) => {
                diff(cc, sc, Role::Top, ("ternary", "condition"), out);
                diff(ca, sa, Role::Top, ("ternary", "then"), out);
                diff(cb, sb, Role::Top, ("ternary", "else"), out);
            }
            _ => wrong_node(out, c, s, at),
        },
        Shape::Bin(op, ca, cb) => match s {
            Sq::Bin(sop, sa, sb) => {
                if sqlp::cel_op_of_sql(sop) != Some(op.as_str()) {
                    hard(out, "binary", "operator", format!("source operator {} emitted as {}", op, sop));
                    return;
                }
                let mut fwd = Vec::new();
                diff(ca, sa, Role::Top, ("binary", "lhs"), &mut fwd);
                diff(cb, sb, Role::Top, ("binary", "rhs"), &mut fwd);
                if !fwd.is_empty() {
                    let mut sw = Vec::new();
                    diff(ca, sb, Role::Top, ("binary", "lhs"), &mut sw);
                    diff(cb, sa, Role::Top, ("binary", "rhs"), &mut sw);
                    if plus_soft(cost(&sw)) < cost(&fwd) {
                        soft(out, "binary", "operands-swapped", format!("operands of {} are emitted in the opposite order", op));
                        out.extend(sw);
                        return;
                    }
                }
                out.extend(fwd);
            }
            _ => wrong_node(out, c, s, at),
        },
        Shape::Not(n, cx) | Shape::Neg(n, cx) => {
            let ch = if matches!(c, Shape::Not(..)) { '!' } else { '-' };
            match s {
                Sq::Prefix(sch, sn, sx) if *sch == ch => {
                    if sn != n {
                        hard(out, cel_class(c, role), "run-length", format!("run of {} `{}` emitted as a run of {}", n, ch, sn));
                    }
                    diff(cx, sx, Role::Top, (cel_class(c, role), "operand"), out);
                }
                // `(op-run (l) op (r)::type)` for `op-run ctor(l op r)`: the operand of the run is a
                // cast that was not grouped, so the run attached itself to the first operand
                Sq::Bin(sop, sl, sr) if is_ctor1(cx) && matches!(sl.as_ref(), Sq::Prefix(sch, _, _) if *sch == ch) => {
                    if let Sq::Prefix(_, sn, inner) = sl.as_ref() {
                        let regrouped = Sq::Prefix(ch, *sn, Box::new(Sq::Bin(sop.clone(), inner.clone(), sr.clone())));
                        diff(c, &regrouped, role, at, out);
                    }
                }
                _ => wrong_node(out, c, s, at),
            }
        }
        Shape::Ident(n) => match s {
            Sq::Ident(sn) if sn == n => {}
            Sq::Ident(sn) => hard(out, "ident", "name", format!("identifier {} emitted as {}", n, sn)),
            _ => wrong_node(out, c, s, at),
        },
        Shape::Lit(t) => match s {
            Sq::Num(_) | Sq::Str(_) | Sq::Bool(_) | Sq::Null => {
                if !lit_matches(t, s) {
                    // a literal emitted as a different literal: named after the literal
                    hard(
                        out,
                        if is_str_canon(t) { "string-literal" } else { "literal" },
                        "value",
                        format!("literal {} emitted as {}", t, s.to_shape().show()),
                    );
                }
            }
            _ => wrong_node(out, c, s, at),
        },
        Shape::List(cl) => match s {
            Sq::Array(sl) => {
                if cl.len() != sl.len() {
                    hard(out, "list", "elements-count", format!("{} elements in the source, {} in the SQL", cl.len(), sl.len()));
                    return;
                }
                diff_seq(out, &cl.iter().collect::<Vec<_>>(), &sl.iter().collect::<Vec<_>>(), ("list", "element"));
            }
            _ => wrong_node(out, c, s, at),
        },
        Shape::Map(cm) => {
            let empty_obj = matches!(s, Sq::Cast(x, ty) if ty == "json" && matches!(x.as_ref(), Sq::Str(t) if t == "{}"));
            match s {
                _ if empty_obj => {
                    if !cm.is_empty() {
                        hard(out, "map", "entries-count", format!("{} entries emitted as the empty object", cm.len()));
                    }
                }
                Sq::JsonObj(sm) => {
                    if cm.len() != sm.len() {
                        hard(out, "map", "entries-count", format!("{} entries in the source, {} in the SQL", cm.len(), sm.len()));
                        return;
                    }
                    for ((ck, cv), (sk, sv)) in cm.iter().zip(sm.iter()) {
                        diff(ck, sk, Role::Top, ("map", "key"), out);
                        diff(cv, sv, Role::Top, ("map", "value"), out);
                    }
                }
                _ => wrong_node(out, c, s, at),
            }
        }
        Shape::Field(co, cf) => match s {
            Sq::Arrow(so, sf, text) => {
                if sf != cf {
                    hard(out, "field", "name", format!("field {} emitted as {}", cf, sf));
                    return;
                }
                diff(co, so, Role::Navigated, ("field", "object"), out);
                match role {
                    Role::Top if !*text => soft(
                        out,
                        "field",
                        "chain-end-not-text-arrow",
                        format!("field .{} ends its member chain but is emitted with -> instead of ->>", cf),
                    ),
                    Role::Navigated if *text => soft(
                        out,
                        "field",
                        "navigated-through-text-arrow",
                        format!("field .{} is navigated further but is emitted with ->> (text extraction)", cf),
                    ),
                    _ => {}
                }
            }
            _ => wrong_node(out, c, s, at),
        },
        Shape::Index(ca, ci) => match s {
            Sq::Index(sa, si) => {
                diff(ca, sa, Role::Navigated, ("index", "object"), out);
                diff(ci, si, Role::Top, ("index", "index"), out);
            }
            _ => wrong_node(out, c, s, at),
        },
        Shape::Call(cf, cargs) => {
            let class = cel_class(c, role);
            // 0/1-argument type constructor: a cast
            if let Shape::Ident(name) = cf.as_ref() {
                if let Some(ty) = sqlp::sql_type_of_ctor(name) {
                    if cargs.len() <= 1 {
                        match s {
                            Sq::Cast(sx, sty) => {
                                if sty != ty {
                                    soft(out, class, "cast-type", format!("{}(..) cast to {} instead of {}", name, sty, ty));
                                }
                                match cargs.first() {
                                    Some(a) => diff(a, sx, Role::Top, (class, "cast-operand"), out),
                                    None => {
                                        if !matches!(sx.as_ref(), Sq::Null) {
                                            hard(out, class, "empty-cast-operand", format!("{}() casts {} instead of NULL", name, sx.to_shape().show()));
                                        }
                                    }
                                }
                            }
                            Sq::Call(sf, sargs) if matches!(sf.as_ref(), Sq::Ident(n) if n == name) && sargs.len() == cargs.len() => {
                                soft(
                                    out,
                                    class,
                                    "call-not-cast",
                                    format!("{}(..) emitted as a function call {} instead of a cast to {}", name, s.to_shape().show(), ty),
                                );
                                diff_seq(out, &cargs.iter().collect::<Vec<_>>(), &sargs.iter().collect::<Vec<_>>(), (class, "cast-operand"));
                            }
                            // `(l) op (r)::type` for `ctor(l op r)`: the cast reached only the last operand
                            Sq::Bin(sop, sl, sr)
                                if !cargs.is_empty() && matches!(sr.as_ref(), Sq::Cast(_, sty) if sty == ty) =>
                            {
                                soft(
                                    out,
                                    "cast-of-operator",
                                    "not-grouped",
                                    format!(
                                        "{}({}) emitted without grouping: the cast applies to the last operand only ({})",
                                        name,
                                        cargs[0].show(),
                                        s.to_shape().show()
                                    ),
                                );
                                if let Sq::Cast(inner, _) = sr.as_ref() {
                                    let regrouped = Sq::Bin(sop.clone(), sl.clone(), inner.clone());
                                    diff(&cargs[0], &regrouped, Role::Top, (class, "cast-operand"), out);
                                }
                            }
                            _ => wrong_node(out, c, s, at),
                        }
                        return;
                    }
                }
            }
            match s {
                Sq::Call(sf, sargs) => {
                    diff(cf, sf, Role::Callee, (class, "callee"), out);
                    if cargs.len() != sargs.len() {
                        hard(out, class, "arity", format!("{} arguments in the source, {} in the SQL", cargs.len(), sargs.len()));
                        return;
                    }
                    let cs: Vec<&Shape> = cargs.iter().collect();
                    let ss: Vec<&Sq> = sargs.iter().collect();
                    let mut fwd = Vec::new();
                    diff_seq(&mut fwd, &cs, &ss, (class, "argument"));
                    if !fwd.is_empty() && cargs.len() >= 2 {
                        let rs: Vec<&Sq> = sargs.iter().rev().collect();
                        let mut rev = Vec::new();
                        diff_seq(&mut rev, &cs, &rs, (class, "argument"));
                        if plus_soft(cost(&rev)) < cost(&fwd) {
                            soft(
                                out,
                                class,
                                "args-reversed",
                                format!("arguments of {} are emitted in reverse order", cf.show()),
                            );
                            out.extend(rev);
                            return;
                        }
                    }
                    out.extend(fwd);
                }
                _ => wrong_node(out, c, s, at),
            }
        }
        Shape::Match(..) | Shape::FStr(_) => wrong_node(out, c, s, at),
    }
}

// ---------------------------------------------------------------------------
// One case

enum Tr {
    Sql(String),
    Unsupported(String),
    OtherErr(String),
    Panic(String),
}

fn translate(prog: &rscel::Program) -> Option<Tr> {
    let ast = prog.ast()?;
    let r = guard(|| -> Result<String, String> {
        match ast.into_sql_builder() {
            Ok(b) => b.to_sql().map_err(|e| format!("{:?}", e)),
            Err(e) => Err(format!("{:?}", e)),
        }
    });
    Some(match r {
        Ok(Ok(sql)) => Tr::Sql(sql),
        Ok(Err(e)) if e.starts_with("Unsupported(") => Tr::Unsupported(e),
        Ok(Err(e)) => Tr::OtherErr(e),
        Err(p) => Tr::Panic(format!("{} at {}", p.msg, p.loc)),
    })
}

fn fail(sig: String, what: String, src: &str, cel: &Shape, sql: &str, extra: Value) -> Failure {
    Failure::new(
        sig,
        what,
        json!({"kind": "source", "source": src, "expected_tree": cel.show(), "sql": sql, "extra": extra}),
    )
}

/// Judge one SQL text against the source tree. Returns (signature, description) pairs.
fn judge(cel: &Shape, info: &Info, sql: &str) -> Vec<(String, String)> {
    let mut out: Vec<(String, String)> = Vec::new();
    let strict = sqlp::lex(sql, Dash::Standard);
    let mut lexed = strict;
    if info.neg_run && lexed.has_dash_comment() {
        let lenient = sqlp::lex(sql, Dash::NeverComment);
        if lenient.has_adjacent_minus() {
            out.push((
                "c20:unary-minus-run:comment-opener".to_string(),
                "a run of >= 2 unary minuses is emitted as `--`, which opens an SQL comment".to_string(),
            ));
            lexed = lenient;
        }
    }
    // quote-bearing strings: one signature per position class, whatever the symptom
    let quote_pos: Option<StrPos> = info.strings.iter().filter(|(t, _)| canon_has_quote(t)).map(|(_, p)| *p).min();
    let quote_sig = |symptom: &str, out: &mut Vec<(String, String)>| -> bool {
        match quote_pos {
            Some(p) => {
                out.push((
                    format!("c20:quote-in-{}:not-escaped", p.name()),
                    format!("a string containing ' is emitted without doubling the quote ({})", symptom),
                ));
                true
            }
            None => false,
        }
    };
    // 1. lexical level: one statement, no comment
    let mut symptoms: Vec<(&'static str, String)> = Vec::new();
    if let Some(e) = &lexed.error {
        let (k, m) = match e {
            sqlp::LexError::UnterminatedString(o) => ("unterminated-literal", format!("string literal opened at byte {} never ends", o)),
            sqlp::LexError::UnterminatedComment(o) => ("unterminated-comment", format!("block comment opened at byte {} never ends", o)),
            sqlp::LexError::UnterminatedQuotedIdent(o) => ("unterminated-quoted-identifier", format!("quoted identifier opened at byte {} never ends", o)),
        };
        symptoms.push((k, m));
    }
    if lexed.has_semi() {
        symptoms.push(("statement-split", "a `;` outside any literal ends the statement".to_string()));
    }
    if lexed.has_comment() {
        symptoms.push(("comment-opened", "a comment is opened outside any literal".to_string()));
    }
    if !symptoms.is_empty() {
        let all = symptoms.iter().map(|(_, m)| m.as_str()).collect::<Vec<_>>().join("; ");
        if !quote_sig(&all, &mut out) {
            for (k, m) in symptoms {
                out.push((format!("c20:output:{}", k), m));
            }
        }
        return out;
    }
    // 2. the whole text is one expression of the dialect
    let sq = match sqlp::parse_tokens(&lexed.toks) {
        Ok(sq) => sq,
        Err(e) => {
            if !quote_sig(&format!("not one expression: {}", e.msg), &mut out) {
                out.push((format!("c20:output:unparsable:{}", e.kind), format!("the SQL text is not one expression of the dialect: {}", e.msg)));
            }
            return out;
        }
    };
    // 3. every CEL string literal is exactly one SQL string literal with the same content
    let mut want: Vec<String> = info.strings.iter().map(|(t, _)| t.clone()).collect();
    let mut got: Vec<String> = Vec::new();
    sq.string_literals(&mut got);
    let mut got: Vec<String> = got.into_iter().map(|s| V::Str(s).canon()).collect();
    want.sort();
    got.sort();
    if want != got {
        let msg = format!("string literals of the source {:?} but of the SQL {:?}", want, got);
        if quote_sig(&msg, &mut out) {
            // literal boundaries moved: the tree read from this text says nothing more
            return out;
        }
        out.push(("c20:string-literals:multiset-differs".to_string(), msg));
    }
    // 4. same tree
    let mut ms: Vec<Mis> = Vec::new();
    diff(cel, &sq, Role::Top, ("output", "root"), &mut ms);
    for m in ms {
        let sig = format!("c20:{}:{}", m.class, m.mode);
        if !out.iter().any(|(s, _)| *s == sig) {
            out.push((sig, m.msg));
        }
    }
    out
}

fn check_source(src: &str, sub: &str, acc: &mut Acc) -> Vec<Failure> {
    let prog = match compile(src) {
        Res2::Ok(p) => p,
        Res2::Err(_) => {
            acc.case(sub, src, false, "rejected-by-compiler");
            acc.skip("source rejected by the compiler");
            return vec![];
        }
        Res2::Panic(_) => {
            acc.case(sub, src, false, "compiler-panicked");
            acc.skip("compiler panicked (C01 owns panics of the compiler)");
            return vec![];
        }
    };
    let Some(ast) = prog.ast() else {
        acc.case(sub, src, false, "no-ast");
        acc.skip("program has no syntax tree");
        return vec![];
    };
    let cel = match guard(|| shape_of(ast)) {
        Ok(s) => s,
        Err(_) => {
            acc.case(sub, src, false, "no-ast");
            acc.skip("syntax tree could not be normalised");
            return vec![];
        }
    };
    let mut info = Info::default();
    analyse(&cel, StrPos::Literal, false, 0, &mut info);
    let risky = info.strings.iter().any(|(t, _)| canon_risky(t));
    let quoted = info.strings.iter().any(|(t, _)| canon_has_quote(t));
    let nontrivial = info.chain_call || risky || info.op_depth >= 3;
    let class = if !info.untranslatable.is_empty() {
        "untranslatable"
    } else if quoted {
        "string-with-quote"
    } else if info.chain_call {
        "call-in-chain"
    } else if risky {
        "string-with-backslash-or-comment-opener"
    } else if info.op_depth >= 3 {
        "operators-nested-3+"
    } else {
        "plain"
    };
    acc.case(sub, src, nontrivial, class);
    for k in &info.constructs {
        acc.class(&format!("has:{}", k));
    }
    if info.neg_run {
        acc.class("has:minus-run>=2");
    }
    let tr = match translate(&prog) {
        Some(t) => t,
        None => return vec![],
    };
    let shown = match &tr {
        Tr::Sql(s) => s.clone(),
        Tr::Unsupported(e) | Tr::OtherErr(e) => format!("Err({})", e),
        Tr::Panic(p) => format!("PANIC {}", p),
    };
    let sample_key = match sub {
        "random" => format!("random:{}", class),
        "grid-raw" if RAW.iter().position(|r| *r == src).map_or(false, |i| i < RAW_SAMPLED) => src.to_string(),
        _ => class.to_string(),
    };
    acc.sample(&sample_key, || json!({"sub": sub, "class": class, "source": src, "tree": cel.show(), "sql": shown}));
    let root = cel_class(&cel, Role::Top);
    let mut out = Vec::new();
    match (&tr, info.untranslatable.is_empty()) {
        (Tr::Panic(p), _) => out.push(fail(
            format!("c20:{}:panic", if info.untranslatable.is_empty() { root } else { "untranslatable" }),
            format!("translating {} panicked: {}", src, p),
            src,
            &cel,
            &shown,
            json!({}),
        )),
        (Tr::OtherErr(e), _) => out.push(fail(
            "c20:translation:error-not-unsupported".to_string(),
            format!("translating {} failed with an error that is not Unsupported: {}", src, e),
            src,
            &cel,
            &shown,
            json!({}),
        )),
        (Tr::Unsupported(_), false) => {}
        (Tr::Unsupported(e), true) => out.push(fail(
            format!("c20:{}:reported-unsupported", root),
            format!("{} uses only translatable constructs but was reported as {}", src, e),
            src,
            &cel,
            &shown,
            json!({}),
        )),
        (Tr::Sql(sql), false) => out.push(fail(
            format!("c20:untranslatable-{}:translated", info.untranslatable[0]),
            format!("{} contains a {} (no translation) but produced SQL {} instead of an Unsupported error", src, info.untranslatable[0], sql),
            src,
            &cel,
            &shown,
            json!({}),
        )),
        (Tr::Sql(sql), true) => {
            for (sig, msg) in judge(&cel, &info, sql) {
                let actual = sqlp::parse(sql).map(|t| t.to_shape().show()).unwrap_or_else(|e| format!("<{}>", e.msg));
                out.push(fail(
                    sig,
                    format!("{} -> {} : {}", src, sql, msg),
                    src,
                    &cel,
                    &shown,
                    json!({"actual_tree": actual}),
                ));
            }
        }
    }
    out
}

// ---------------------------------------------------------------------------
// Generators

const IDENTS: &[&str] = &["x", "y", "z", "a", "user", "obj", "data", "cfg", "n", "flag"];
const FIELDS: &[&str] = &["f", "g", "name", "id", "profile", "size", "k"];
const FUNCS: &[&str] = &["f", "g", "h", "max", "size", "someFunction", "contains", "startsWith"];
const CTORS: &[&str] = &["int", "uint", "float", "double", "string", "bool", "bytes", "timestamp", "duration"];

/// string alphabet; the first `SAFE` entries contain no `'`
const SYMS: &[&str] = &[
    "a", "k", "b c", "1", "", " ", "\\", "--", "/*", "*/", ";", "\n", "\t", "\"", "é", "日", "😀", "DROP TABLE x", "{}", "(", ")", ",", "::", "->",
    "\\n", "$$", "%", "_", "\\\\", "'", "''", "\\'", "' OR 1=1 --", "');", "'--", "'/*",
];
const SAFE: usize = 29;

fn gen_str(g: &mut G, quotes: bool) -> String {
    let pool = if quotes { SYMS.len() } else { SAFE };
    let n = 1 + g.below(3);
    let mut s = String::new();
    for _ in 0..n {
        s.push_str(SYMS[g.below(pool)]);
    }
    s
}

fn gen_lit(g: &mut G, quotes: bool) -> E {
    const INTS: &[i64] = &[1, 0, 2, 5, 42, 1_000_000, i64::MAX];
    const UINTS: &[u64] = &[7, 0, u64::MAX];
    const FLOATS: &[f64] = &[2.5, 0.0, 0.5, 1.0, 3.14, 2.5e10, 1e21, 1.5e-7, 1e300, 0.1];
    match g.below(8) {
        0 | 1 => E::Lit(V::Int(*g.pick(INTS))),
        2 | 3 => E::Lit(V::Str(gen_str(g, quotes))),
        4 => E::Lit(V::Bool(g.flag())),
        5 => E::Lit(V::Null),
        6 => E::Lit(V::F(*g.pick(FLOATS))),
        _ => E::Lit(V::UInt(*g.pick(UINTS))),
    }
}

struct Cfg {
    quotes: bool,
    max_depth: u32,
}

fn gen_args(g: &mut G, cfg: &Cfg, depth: u32, max: usize) -> Vec<E> {
    let n = g.below(max + 1);
    (0..n).map(|_| gen_e(g, cfg, depth + 1)).collect()
}

fn gen_chain(g: &mut G, cfg: &Cfg, depth: u32) -> E {
    // base, then 1..4 postfix forms
    let mut cur = match g.below(8) {
        0..=3 => var(g.pick_str(IDENTS)),
        4 => E::Call(Box::new(var(g.pick_str(FUNCS))), gen_args(g, cfg, depth, 3)),
        5 => E::List(gen_args(g, cfg, depth, 2)),
        6 => E::Map(vec![(E::Lit(V::Str(gen_str(g, cfg.quotes))), gen_e(g, cfg, depth + 1))]),
        _ => bin(Op::Add, var(g.pick_str(IDENTS)), gen_e(g, cfg, depth + 1)),
    };
    let n = 1 + g.below(4);
    for _ in 0..n {
        cur = match g.below(6) {
            0 | 1 => E::Field(Box::new(cur), g.pick_str(FIELDS).to_string()),
            2 => {
                let idx = if g.flag() { E::Lit(V::Str(gen_str(g, cfg.quotes))) } else { gen_e(g, cfg, depth + 1) };
                E::Index(Box::new(cur), Box::new(idx))
            }
            3 | 4 => {
                // method call: .name(args)
                let name = g.pick_str(FIELDS).to_string();
                E::Call(Box::new(E::Field(Box::new(cur), name)), gen_args(g, cfg, depth, 3))
            }
            _ => E::Call(Box::new(cur), gen_args(g, cfg, depth, 3)),
        };
    }
    cur
}

fn gen_e(g: &mut G, cfg: &Cfg, depth: u32) -> E {
    if depth >= cfg.max_depth {
        return if g.flag() { gen_lit(g, cfg.quotes) } else { var(g.pick_str(IDENTS)) };
    }
    match g.below(20) {
        0 | 1 => var(g.pick_str(IDENTS)),
        2 | 3 => gen_lit(g, cfg.quotes),
        4..=7 => {
            let op = *g.pick(ALL_OPS);
            bin(op, gen_e(g, cfg, depth + 1), gen_e(g, cfg, depth + 1))
        }
        8 => E::Tern(Box::new(gen_e(g, cfg, depth + 1)), Box::new(gen_e(g, cfg, depth + 1)), Box::new(gen_e(g, cfg, depth + 1))),
        9 => {
            let n = 1 + g.below(3) as u8;
            let x = Box::new(gen_e(g, cfg, depth + 1));
            if g.flag() {
                E::Not(n, x)
            } else {
                E::Neg(n, x)
            }
        }
        10 | 11 => E::Call(Box::new(var(g.pick_str(FUNCS))), gen_args(g, cfg, depth, 3)),
        12..=14 => gen_chain(g, cfg, depth),
        15 => E::List(gen_args(g, cfg, depth, 3)),
        16 => {
            let n = g.below(3);
            E::Map(
                (0..n)
                    .map(|_| {
                        let k = if g.chance(32) { gen_e(g, cfg, depth + 1) } else { E::Lit(V::Str(gen_str(g, cfg.quotes))) };
                        (k, gen_e(g, cfg, depth + 1))
                    })
                    .collect(),
            )
        }
        17 | 18 => {
            let name = g.pick_str(CTORS);
            E::Call(Box::new(var(name)), gen_args(g, cfg, depth, 2))
        }
        _ => {
            // macro-shaped method call
            let m = g.pick_str(&["map", "filter", "all", "exists"]);
            let recv = if g.flag() { var(g.pick_str(IDENTS)) } else { E::List(gen_args(g, cfg, depth, 2)) };
            method(recv, m, vec![var("v"), gen_e(g, cfg, depth + 1)])
        }
    }
}

fn untranslatable_forms() -> Vec<(&'static str, E)> {
    vec![
        (
            "match",
            E::Match(
                Box::new(var("x")),
                vec![(Pat::Cmp(None, ilit(1)), ilit(2)), (Pat::Any, ilit(3))],
            ),
        ),
        ("match-type", E::Match(Box::new(var("x")), vec![(Pat::Type("int".into()), ilit(1)), (Pat::Any, ilit(0))])),
        ("fstring", E::FStr(vec![FSeg::Lit("v=".into()), FSeg::Expr(var("x"))])),
        ("fstring-lit", E::FStr(vec![FSeg::Lit("plain".into())])),
        ("bytes", E::Lit(V::Bytes(vec![0x61, 0x27, 0x00]))),
        ("bytes-empty", E::Lit(V::Bytes(vec![]))),
    ]
}

/// every slot a sub-expression can occupy
fn slots(u: &E) -> Vec<(&'static str, E)> {
    let b = |e: &E| Box::new(e.clone());
    vec![
        ("root", u.clone()),
        ("lhs", bin(Op::Add, u.clone(), var("y"))),
        ("rhs", bin(Op::And, var("y"), u.clone())),
        ("cond", E::Tern(b(u), Box::new(ilit(1)), Box::new(ilit(2)))),
        ("then", E::Tern(Box::new(var("c")), b(u), Box::new(ilit(2)))),
        ("else", E::Tern(Box::new(var("c")), Box::new(ilit(1)), b(u))),
        ("not", E::Not(1, b(u))),
        ("neg", E::Neg(1, b(u))),
        ("arg", call("g", vec![var("y"), u.clone()])),
        ("method-arg", method(var("y"), "m", vec![u.clone()])),
        ("receiver", method(u.clone(), "m", vec![])),
        ("field-of", E::Field(b(u), "f".into())),
        ("indexed", E::Index(b(u), Box::new(ilit(0)))),
        ("index", E::Index(Box::new(var("y")), b(u))),
        ("element", E::List(vec![ilit(1), u.clone()])),
        ("map-key", E::Map(vec![(u.clone(), ilit(1))])),
        ("map-value", E::Map(vec![(slit("k"), u.clone())])),
        ("cast", call("int", vec![u.clone()])),
    ]
}

fn grid() -> Vec<(&'static str, String)> {
    let mut out: Vec<(&'static str, String)> = Vec::new();
    let mut push = |sub: &'static str, e: &E| out.push((sub, render_min(e)));

    // (1) every binary operator x literal / identifier operands
    let operands: Vec<E> = vec![
        var("x"),
        var("y"),
        ilit(1),
        E::Lit(V::F(2.5)),
        slit("s"),
        E::Lit(V::Bool(true)),
        E::Lit(V::Null),
        E::Lit(V::UInt(3)),
    ];
    for op in ALL_OPS {
        for a in &operands {
            for b in &operands {
                push("grid-binary", &bin(*op, a.clone(), b.clone()));
            }
        }
    }
    // two operators: every pair, both groupings
    for o1 in ALL_OPS {
        for o2 in ALL_OPS {
            push("grid-binary2", &bin(*o2, bin(*o1, var("a"), var("x")), var("y")));
            push("grid-binary2", &bin(*o1, var("a"), bin(*o2, var("x"), var("y"))));
        }
    }

    // (2) unary runs
    let un_operands: Vec<E> = vec![
        var("x"),
        ilit(5),
        E::Lit(V::F(2.5)),
        E::Lit(V::Bool(true)),
        E::Field(Box::new(var("x")), "f".into()),
        E::Index(Box::new(var("x")), Box::new(ilit(0))),
        call("f", vec![var("x")]),
        bin(Op::Add, var("x"), var("y")),
        slit("s"),
    ];
    for n in 1..=3u8 {
        for x in &un_operands {
            push("grid-unary", &E::Not(n, Box::new(x.clone())));
            push("grid-unary", &E::Neg(n, Box::new(x.clone())));
            push("grid-unary", &bin(Op::Sub, var("y"), E::Neg(n, Box::new(x.clone()))));
            push("grid-unary", &E::Not(1, Box::new(E::Neg(n, Box::new(x.clone())))));
        }
    }

    // (3) constructors x arity x argument form
    let cast_args: Vec<E> = vec![
        var("x"),
        ilit(4),
        slit("4"),
        E::Lit(V::Null),
        E::Lit(V::F(3.14)),
        bin(Op::Add, var("x"), var("y")),
        bin(Op::Or, var("x"), var("y")),
        bin(Op::Eq, var("x"), var("y")),
        E::Neg(1, Box::new(var("x"))),
        E::Field(Box::new(var("x")), "f".into()),
        E::Index(Box::new(var("x")), Box::new(ilit(0))),
        E::Tern(Box::new(var("c")), Box::new(ilit(1)), Box::new(ilit(2))),
        call("f", vec![var("x")]),
        E::List(vec![ilit(1)]),
    ];
    for c in CTORS {
        push("grid-constructor", &call(c, vec![]));
        for a in &cast_args {
            push("grid-constructor", &call(c, vec![a.clone()]));
        }
        push("grid-constructor", &call(c, vec![var("x"), var("y")]));
        push("grid-constructor", &call(c, vec![ilit(1), slit("s")]));
        for c2 in CTORS {
            push("grid-constructor", &call(c, vec![call(c2, vec![var("x")])]));
        }
        // operand position, and at the head / inside a chain
        push("grid-constructor", &bin(Op::Add, call(c, vec![slit("5")]), ilit(3)));
        push("grid-constructor", &bin(Op::Mul, ilit(3), call(c, vec![bin(Op::Add, var("x"), var("y"))])));
        push("grid-constructor", &E::Field(Box::new(call(c, vec![var("x")])), "f".into()));
        push("grid-constructor", &E::Index(Box::new(call(c, vec![var("x")])), Box::new(ilit(0))));
        push("grid-constructor", &method(call(c, vec![var("x")]), "m", vec![]));
        push("grid-constructor", &method(var("x"), c, vec![var("y")]));
        push("grid-constructor", &method(var("x"), c, vec![var("y"), var("z")]));
    }

    // (4) every alphabet symbol alone and embedded, in every position
    for sym in SYMS {
        for text in [sym.to_string(), format!("a{}b", sym), format!("{}{}", sym, sym)] {
            let s = E::Lit(V::Str(text));
            push("grid-strings", &s);
            push("grid-strings", &bin(Op::Eq, var("x"), s.clone()));
            push("grid-strings", &call("f", vec![var("x"), s.clone()]));
            push("grid-strings", &E::List(vec![s.clone(), ilit(1)]));
            push("grid-strings", &E::Map(vec![(s.clone(), ilit(1))]));
            push("grid-strings", &E::Map(vec![(slit("k"), s.clone())]));
            push("grid-strings", &E::Index(Box::new(var("x")), Box::new(s.clone())));
            push("grid-strings", &call("string", vec![s.clone()]));
            push("grid-strings", &E::Tern(Box::new(var("c")), Box::new(s.clone()), Box::new(slit("n"))));
            push("grid-strings", &method(var("x"), "contains", vec![s.clone()]));
        }
    }

    // (5) call shapes
    let args: Vec<Vec<E>> = vec![
        vec![],
        vec![var("a")],
        vec![ilit(1), ilit(2)],
        vec![var("a"), slit("s"), ilit(3)],
        vec![bin(Op::Add, var("x"), ilit(1)), bin(Op::Sub, var("y"), ilit(1))],
    ];
    for a in &args {
        push("grid-calls", &call("f", a.clone()));
        push("grid-calls", &method(var("x"), "f", a.clone()));
        push("grid-calls", &E::Field(Box::new(call("f", a.clone())), "g".into()));
        push("grid-calls", &E::Index(Box::new(call("f", a.clone())), Box::new(ilit(0))));
        push("grid-calls", &E::Call(Box::new(call("f", a.clone())), a.clone()));
        push("grid-calls", &E::Call(Box::new(E::Index(Box::new(var("x")), Box::new(ilit(0)))), a.clone()));
        push("grid-calls", &method(method(var("x"), "f", a.clone()), "g", a.clone()));
        push("grid-calls", &method(E::Field(Box::new(var("a")), "b".into()), "c", a.clone()));
        push(
            "grid-calls",
            &E::Index(Box::new(method(E::Field(Box::new(var("a")), "b".into()), "c", a.clone())), Box::new(var("e"))),
        );
        push("grid-calls", &call("f", vec![call("g", a.clone()), call("h", a.clone())]));
        push("grid-calls", &method(var("x"), "f", vec![call("g", a.clone()), method(var("y"), "h", a.clone())]));
        push("grid-calls", &bin(Op::Add, call("f", a.clone()), method(var("x"), "g", a.clone())));
        push("grid-calls", &E::List(vec![call("f", a.clone()), method(var("x"), "g", a.clone())]));
        push("grid-calls", &E::Not(1, Box::new(method(var("x"), "f", a.clone()))));
        push("grid-calls", &E::Neg(1, Box::new(call("f", a.clone()))));
        push("grid-calls", &method(E::List(vec![ilit(1), ilit(2)]), "f", a.clone()));
        push("grid-calls", &method(slit("s"), "f", a.clone()));
        push("grid-calls", &method(bin(Op::Add, var("x"), var("y")), "f", a.clone()));
    }
    for m in ["map", "filter", "all", "exists", "exists_one"] {
        push("grid-calls", &method(E::List(vec![ilit(1), ilit(2)]), m, vec![var("v"), bin(Op::Add, var("v"), var("x"))]));
        push("grid-calls", &method(var("x"), m, vec![var("v"), bin(Op::Gt, var("v"), ilit(1))]));
    }
    push("grid-calls", &method(var("x"), "reduce", vec![var("acc"), var("v"), bin(Op::Add, var("acc"), var("v")), ilit(0)]));

    // (6) member / index paths
    let fld = |e: E, f: &str| E::Field(Box::new(e), f.to_string());
    let idx = |e: E, i: E| E::Index(Box::new(e), Box::new(i));
    let paths: Vec<E> = vec![
        fld(var("a"), "b"),
        fld(fld(var("a"), "b"), "c"),
        fld(fld(fld(var("a"), "b"), "c"), "d"),
        idx(var("a"), ilit(0)),
        idx(idx(var("a"), ilit(0)), ilit(1)),
        idx(fld(var("a"), "b"), ilit(0)),
        fld(idx(var("a"), ilit(0)), "b"),
        fld(idx(fld(var("a"), "b"), ilit(0)), "c"),
        idx(var("a"), slit("k")),
        fld(idx(fld(var("a"), "b"), slit("k")), "c"),
        idx(var("a"), bin(Op::Add, var("i"), ilit(1))),
        idx(var("a"), fld(var("b"), "c")),
        fld(E::Map(vec![(slit("k"), ilit(1))]), "k"),
        idx(E::List(vec![ilit(1), ilit(2)]), ilit(0)),
        fld(E::Tern(Box::new(var("c")), Box::new(var("x")), Box::new(var("y"))), "f"),
        idx(bin(Op::Add, var("x"), var("y")), ilit(0)),
        bin(Op::Eq, fld(fld(var("cfg"), "db"), "host"), slit("localhost")),
        E::List(vec![fld(var("user"), "name"), fld(fld(var("user"), "profile"), "id")]),
        E::Neg(1, Box::new(fld(fld(var("a"), "b"), "c"))),
        E::Tern(Box::new(fld(var("a"), "b")), Box::new(fld(var("a"), "c")), Box::new(idx(var("a"), ilit(1)))),
    ];
    for p in &paths {
        push("grid-paths", p);
    }

    // (7) ?: in every slot, lists and maps
    let t = E::Tern(Box::new(bin(Op::Gt, var("x"), ilit(0))), Box::new(slit("pos")), Box::new(slit("neg")));
    for (_, e) in slots(&t) {
        push("grid-ternary", &e);
    }
    let containers: Vec<E> = vec![
        E::List(vec![]),
        E::List(vec![ilit(1)]),
        E::List(vec![E::List(vec![]), E::List(vec![ilit(1), E::List(vec![var("x")])])]),
        E::Map(vec![]),
        E::Map(vec![(slit("a"), ilit(1))]),
        E::Map(vec![(slit("a"), ilit(1)), (slit("b"), E::Map(vec![(slit("c"), E::Lit(V::Bool(true)))]))]),
        E::Map(vec![(slit(""), slit("empty_key"))]),
        E::Map(vec![(ilit(1), ilit(2))]),
        E::Map(vec![(var("x"), var("y"))]),
        E::Map(vec![(slit("a"), E::List(vec![E::Map(vec![]), E::Map(vec![(slit("k"), var("x"))])]))]),
        E::Map(vec![(slit("a"), ilit(1)), (slit("a"), ilit(2))]),
    ];
    for c in &containers {
        for (_, e) in slots(c) {
            push("grid-containers", &e);
        }
    }
    // literals of every kind
    for v in [
        V::Int(0),
        V::Int(42),
        V::Int(i64::MAX),
        V::UInt(0),
        V::UInt(u64::MAX),
        V::F(0.0),
        V::F(3.14),
        V::F(1e21),
        V::F(1.5e-7),
        V::F(1e300),
        V::F(0.1),
        V::F(123456789.125),
        V::Bool(true),
        V::Bool(false),
        V::Null,
    ] {
        let l = E::Lit(v);
        push("grid-literals", &l);
        push("grid-literals", &bin(Op::Add, l.clone(), var("x")));
        push("grid-literals", &E::Neg(1, Box::new(l.clone())));
        push("grid-literals", &call("f", vec![l.clone()]));
    }

    // (8) untranslatable constructs in every slot
    for (_, u) in untranslatable_forms() {
        for (_, e) in slots(&u) {
            push("grid-untranslatable", &e);
        }
    }
    out
}

/// hand-written sources (spellings the renderer does not produce)
const RAW: &[&str] = &[
    // the first RAW_SAMPLED entries are written out as samples
    "\"b'; DROP TABLE x; --\"",
    "x[\"k'\"]",
    "{'k\\'': 1}",
    "x.f(1, 2)",
    "f(1, 2).g",
    "[1,2].map(v, v + x)",
    "a.b.c(d)[e]",
    "- -x",
    "int(x + y)",
    "int(x).f",
    "f'{x}'",
    "b'abc'",
    "match x { case 1: 2, case _: 3 }",
    "x > 0 ? {'k': [1, 2.5, 3u]}.k[0] : -user.profile.id",
    "'it\\'s'",
    "'a\\'b' + \"c'd\"",
    "x['k\\'']",
    "r'a\\b'",
    "r\"it's\"",
    "--5",
    "- - -x",
    "-(-x)",
    "!(!x)",
    "((x))",
    "(x.f)(1, 2)",
    "(f)(1, 2)",
    "int((x + y))",
    "string((user.name))",
    "x in [1, 2, 3]",
    "x  ==  y\n&&\t!z",
];
const RAW_SAMPLED: usize = 14;

fn check_random(genome: &[u8], acc: &mut Acc) -> Vec<Failure> {
    let mut g = G::new(genome);
    let quotes = g.flag();
    let untrans = g.chance(32);
    let cfg = Cfg {
        quotes,
        max_depth: 2 + g.below(4) as u32,
    };
    let mut e = gen_e(&mut g, &cfg, 0);
    if untrans {
        let forms = untranslatable_forms();
        let u = forms[g.below(forms.len())].1.clone();
        // put it into a random slot next to / around the generated tree
        e = match g.below(6) {
            0 => bin(Op::Add, e, u),
            1 => call("f", vec![e, u]),
            2 => E::List(vec![u, e]),
            3 => E::Tern(Box::new(e), Box::new(u), Box::new(ilit(1))),
            4 => E::Map(vec![(slit("k"), u), (slit("j"), e)]),
            _ => method(u, "m", vec![e]),
        };
    }
    let toks = tokens_of(&e, Parens::Minimal, None);
    let src = if g.chance(64) {
        join_tokens(&toks, Space::Random, Some(&mut g))
    } else {
        join_tokens(&toks, Space::Single, None)
    };
    check_source(&src, "random", acc)
}

fn run(opts: &Opts, acc: &mut Acc) {
    let bad = sqlp::selftest();
    if !bad.is_empty() {
        for b in bad.iter().take(5) {
            acc.inconclusive.push(format!("sqlp self-test failed: {}", b));
        }
        return;
    }
    // hand-written spellings first, on the main accumulator, so that the written-out samples
    // show every kind of case (one sample per source here, one per class afterwards)
    let mut seen = std::collections::BTreeSet::new();
    for src in RAW {
        if seen.insert(src.to_string()) {
            for f in check_source(src, "grid-raw", acc) {
                acc.fail(f);
            }
        }
    }
    let mut cases = grid();
    // distinct by source
    cases.retain(|(_, s)| seen.insert(s.clone()));
    par_chunks(acc, opts.threads, &cases, |(sub, src), a| {
        for f in check_source(src, sub, a) {
            a.fail(f);
        }
    });
    for (sub, note) in [
        ("grid-binary", "14 binary operators x 8 x 8 literal/identifier operands"),
        ("grid-binary2", "all 196 ordered operator pairs, left- and right-nested"),
        ("grid-unary", "runs of 1-3 `!` and 1-3 `-` x 9 operand forms, alone, after binary minus and under `!`"),
        ("grid-constructor", "9 constructors x arity 0/1/2 x 14 argument forms, nested casts, operand position, chain head, method-name position"),
        ("grid-strings", "every alphabet symbol alone / embedded / doubled x 10 positions"),
        ("grid-calls", "5 argument lists x 18 call shapes, macro-shaped calls"),
        ("grid-paths", "member / index paths"),
        ("grid-ternary", "?: in every slot"),
        ("grid-containers", "list and map literals in every slot"),
        ("grid-literals", "numeric / bool / null literals"),
        ("grid-untranslatable", "match / f-string / byte string in every slot"),
        ("grid-raw", "hand-written spellings"),
    ] {
        acc.mark_exhaustive(sub, note);
    }
    let n = opts.tier.pick(400_000, 5_000_000);
    random_genomes(acc, opts, "random", n, 400, |gn, a| check_random(gn, a));
}

fn replay(_opts: &Opts, d: &Value, acc: &mut Acc) {
    // accept both a whole replay file and its `detail` object
    let d = d.get("detail").unwrap_or(d);
    if let Some(src) = d.get("source").and_then(|s| s.as_str()) {
        for f in check_source(src, "replay", acc) {
            acc.fail(f);
        }
    } else if let Some(hex) = d.get("genome_hex").and_then(|h| h.as_str()) {
        for f in check_random(&crate::engine::unhex(hex), acc) {
            acc.fail(f);
        }
    } else {
        acc.inconclusive.push("C20 replay file has neither source nor genome_hex".to_string());
    }
}

/// libFuzzer entry: one generated expression through to_sql
pub fn fuzz_case(genome: &[u8], acc: &mut Acc) -> Vec<Failure> {
    check_random(genome, acc)
}
