//! C07 — comprehension macros equal their defining folds; loop variables are lexical.

use super::Prop;
use crate::engine::{guard, par_chunks, random_genomes, Acc, Failure, Opts};
use crate::expr::*;
use crate::g::G;
use crate::model::{self, Ctx, FnResult, Out};
use crate::rec::run_recorded;
use crate::run::canon_cel;
use crate::val::*;
use rscel::{BindContext, CelContext};
use serde_json::{json, Value};
use std::collections::BTreeMap;

pub static PROP: Prop = Prop {
    id: "C07",
    rule: "lists of length 0..64 (beyond the call-depth limit of 32) x the macros all/exists/exists_one/filter/map(2,3)/reduce x \
           body templates (threshold predicates with the deciding element at every position, bodies reading outer variables and \
           stored programs, bodies that fail at a chosen position, nested macros re-using the same loop-variable name, an echoing \
           recording function seen(x) that logs every visit) x {outer binding of the loop variable's name present, absent}; \
           exhaustive over lengths {0,1,2,3,31,32,33,64} x deciding positions, random over element types and template \
           parameters. Oracle: the defining folds with early exit (model.rs), the exact visit log, and the caller's bindings \
           after execution. Maps: m.map / m.filter over maps with 4-8 keys must yield a permutation of the expected multiset \
           and the SAME order across repeated executions, across separately built equal maps, and between a literal and a bound \
           map. Non-trivial = length > 32, or early exit strictly inside the list, or a shadowed/nested variable, or a map \
           with >= 4 keys; distinct by canonical case.",
    assumptions: &[
        "seen(x) is a bound function returning its argument; what a body receives is observed only through it",
        "the order of map keys is not prescribed, only that it is one fixed order",
    ],
    run,
    replay,
    both_profiles: super::thorough_both,
};

#[derive(Clone, Debug)]
struct Case {
    label: String,
    e: E,
    binds: Vec<(String, V)>,
    progs: Vec<(String, E)>,
    nontrivial: bool,
}

fn funcs() -> BTreeMap<String, FnResult> {
    let mut m = BTreeMap::new();
    m.insert("seen".to_string(), FnResult::Echo);
    m
}

fn check_case(c: &Case, sub: &str, acc: &mut Acc) -> Vec<Failure> {
    let vars: BTreeMap<String, V> = c.binds.iter().cloned().collect();
    let progs: BTreeMap<String, E> = c.progs.iter().cloned().collect();
    let fs = funcs();
    let mut ctx = Ctx::new(&vars, &progs, &fs);
    let expected = ctx.eval(&c.e, &mut Vec::new());
    let want_log = ctx.log.clone();
    let log_known = !ctx.log_unspecified;
    let src = render_min(&c.e);
    let canon = format!("{} @ {} @ {:?}", src, crate::run::binds_json(&c.binds), c.progs.iter().map(|(n, e)| format!("{}:={}", n, render_min(e))).collect::<Vec<_>>());
    acc.case(sub, &canon, c.nontrivial, &c.label);
    if expected == Out::Unspec {
        acc.skip("model: not determined by the statement");
    }
    let prog_srcs: Vec<(String, String)> = c.progs.iter().map(|(n, e)| (n.clone(), render_min(e))).collect();
    let r = run_recorded(&src, &c.binds, &prog_srcs, &fs);
    acc.eval_only(sub, 1);
    let sum = r.out.res.sum();
    acc.sample(&c.label, || json!({"source": src, "bindings": crate::run::binds_json(&c.binds), "programs": prog_srcs,
                                   "model": expected.show(), "model_visits": want_log, "result": sum.show(), "visits": r.log}));
    let detail = |extra: Value| {
        json!({"kind": "case", "source": src, "programs": prog_srcs,
               "bindings": c.binds.iter().map(|(k, v)| json!([k, super::c03::vjson(v)])).collect::<Vec<_>>(), "extra": extra})
    };
    let mut out = Vec::new();
    if let Some(mode) = model::judge(&expected, &r.out.res) {
        out.push(Failure::new(
            format!("c07:{}:{}", c.label, mode),
            format!("{} with {} -> {} but the defining fold gives {}", src, crate::run::binds_json(&c.binds), sum.show(), expected.show()),
            detail(json!({"expected": expected.show(), "actual": sum.show()})),
        ));
        return out;
    }
    if log_known && expected != Out::Unspec && r.log != want_log {
        out.push(Failure::new(
            format!("c07:{}:visits-differ", c.label),
            format!("{} visited {:?} but elements must be visited in order up to the deciding one: {:?}", src, r.log, want_log),
            detail(json!({"expected_visits": want_log, "actual_visits": r.log})),
        ));
        return out;
    }
    // the caller's bindings are unchanged
    for (k, v) in &c.binds {
        let after = r.params_after.get(k).cloned().flatten();
        if after.as_deref() != Some(v.canon().as_str()) {
            out.push(Failure::new(
                format!("c07:{}:outer-binding-changed", c.label),
                format!("{}: binding {} was {} before and {:?} after execution", src, k, v.canon(), after),
                detail(json!({"name": k})),
            ));
            return out;
        }
    }
    for lv in ["x", "e", "it", "acc"] {
        if !c.binds.iter().any(|(k, _)| k == lv) {
            if let Some(Some(v)) = r.params_after.get(lv) {
                out.push(Failure::new(
                    format!("c07:{}:loop-variable-leaked", c.label),
                    format!("{}: loop variable {} is bound to {} in the caller's bindings after execution", src, lv, v),
                    detail(json!({"name": lv})),
                ));
                return out;
            }
        }
    }
    out
}

fn int_list(n: usize) -> V {
    V::List((0..n).map(|k| V::Int(k as i64)).collect())
}

/// templates over list variable `l`, threshold `t`, position `k`
fn templates(n: usize, k: i64, outer_x: bool) -> Vec<(String, E, Vec<(String, V)>, Vec<(String, E)>, bool)> {
    let l = || var("l");
    let x = || var("x");
    let seen = |e: E| call("seen", vec![e]);
    let inside = k >= 0 && (k as usize) + 1 < n;
    let mut base: Vec<(String, V)> = vec![("l".into(), int_list(n)), ("t".into(), V::Int(k)), ("y".into(), V::Int(3))];
    if outer_x {
        base.push(("x".into(), V::s("outer")));
    }
    let long = n > 32;
    let mut out: Vec<(String, E, Vec<(String, V)>, Vec<(String, E)>, bool)> = Vec::new();
    let mut add = |label: &str, e: E, nontriv: bool| out.push((label.to_string(), e, base.clone(), vec![], nontriv || long || outer_x));
    // all: false first at position k; exists: true first at position k
    add("all", method(l(), "all", vec![x(), bin(Op::Ne, seen(x()), var("t"))]), inside);
    add("exists", method(l(), "exists", vec![x(), bin(Op::Eq, seen(x()), var("t"))]), inside);
    // exists_one: hits at k and k+2 -> decided at k+2
    add(
        "exists_one",
        method(l(), "exists_one", vec![x(), bin(Op::Or, bin(Op::Eq, seen(x()), var("t")), bin(Op::Eq, x(), bin(Op::Add, var("t"), ilit(2))))]),
        inside,
    );
    add("exists_one-single", method(l(), "exists_one", vec![x(), bin(Op::Eq, seen(x()), var("t"))]), inside);
    add("filter", method(l(), "filter", vec![x(), bin(Op::Ge, seen(x()), var("t"))]), false);
    add("filter-truthy", method(l(), "filter", vec![x(), bin(Op::Rem, x(), ilit(3))]), false);
    add("map", method(l(), "map", vec![x(), bin(Op::Mul, seen(x()), ilit(2))]), false);
    add("map3", method(l(), "map", vec![x(), bin(Op::Lt, seen(x()), var("t")), bin(Op::Add, x(), var("y"))]), false);
    // the transform of map(x,p,e) runs only for accepted elements (guard idiom): it would fail on the others
    add("map3-guard", method(l(), "map", vec![x(), bin(Op::Ne, x(), var("t")), bin(Op::Div, ilit(100), bin(Op::Sub, x(), var("t")))]), inside);
    add("map3-transform-only-accepted", method(l(), "map", vec![x(), bin(Op::Eq, bin(Op::Rem, x(), ilit(2)), ilit(0)), seen(x())]), n > 1);
    add("map3-pred-fails-first", method(l(), "map", vec![x(), bin(Op::Gt, bin(Op::Div, ilit(100), bin(Op::Sub, x(), var("t"))), ilit(-1000)), seen(x())]), inside);
    // predicates that are truthy without being bool
    add("map3-truthy", method(l(), "map", vec![x(), bin(Op::Rem, seen(x()), ilit(3)), bin(Op::Add, x(), var("y"))]), n > 1);
    add("exists-truthy", method(l(), "exists", vec![x(), bin(Op::Sub, seen(x()), var("t"))]), inside);
    add("all-truthy", method(l(), "all", vec![x(), bin(Op::Sub, seen(x()), var("t"))]), inside);
    add("exists_one-truthy", method(l(), "exists_one", vec![x(), bin(Op::Rem, seen(x()), ilit(4))]), n > 2);
    add("reduce", method(l(), "reduce", vec![var("acc"), x(), bin(Op::Add, var("acc"), seen(x())), ilit(0)]), false);
    add(
        "reduce-order",
        method(l(), "reduce", vec![var("acc"), x(), bin(Op::Add, var("acc"), E::List(vec![x()])), E::List(vec![])]),
        false,
    );
    add(
        "reduce-seed-outer",
        method(l(), "reduce", vec![var("acc"), x(), bin(Op::Sub, var("acc"), x()), var("y")]),
        false,
    );
    // a body that fails exactly at position k: the macro fails and later elements are not visited
    let failing = |m: &str| {
        method(
            l(),
            m,
            vec![x(), bin(Op::Ge, bin(Op::Div, ilit(100), bin(Op::Sub, seen(x()), var("t"))), ilit(-1000))],
        )
    };
    for m in ["all", "exists", "exists_one", "filter", "map"] {
        add(&format!("{}-failing-body", m), failing(m), inside);
    }
    add(
        "reduce-failing-body",
        method(l(), "reduce", vec![var("acc"), x(), bin(Op::Add, var("acc"), bin(Op::Div, ilit(1), bin(Op::Sub, seen(x()), var("t")))), ilit(0)]),
        inside,
    );
    // nested macro re-using the same variable name; the inner one shadows the outer one
    add(
        "nested-same-name",
        method(l(), "map", vec![x(), bin(Op::Add, method(E::List(vec![x(), ilit(7)]), "map", vec![x(), bin(Op::Mul, x(), ilit(10))]), E::List(vec![x()]))]),
        true,
    );
    add(
        "nested-outer-visible",
        method(l(), "filter", vec![x(), method(E::List(vec![ilit(1), ilit(2)]), "exists", vec![var("e"), bin(Op::Eq, bin(Op::Add, var("e"), x()), var("t"))])]),
        true,
    );
    // after the macro the name means the outer binding again (or is unbound)
    add(
        "after-macro",
        E::List(vec![method(l(), "map", vec![x(), x()]), E::List(vec![call("coalesce", vec![x(), slit("unbound")])])]),
        true,
    );
    drop(add);
    // stored program read inside the body, evaluated under the same bindings (it sees y, not x)
    out.push((
        "body-reads-program".to_string(),
        method(l(), "map", vec![x(), bin(Op::Add, x(), var("prog"))]),
        base.clone(),
        vec![("prog".to_string(), bin(Op::Mul, var("y"), ilit(2)))],
        true,
    ));
    // stored programs that read the loop variable: each element sees its own value (a program
    // reference is evaluated under the bindings in effect where it stands, every time)
    out.push((
        "program-reads-loopvar-map".to_string(),
        method(l(), "map", vec![x(), var("twice")]),
        base.clone(),
        vec![("twice".to_string(), bin(Op::Mul, x(), ilit(2)))],
        true,
    ));
    out.push((
        "program-reads-loopvar-filter".to_string(),
        method(l(), "filter", vec![x(), var("big")]),
        base.clone(),
        vec![("big".to_string(), bin(Op::Ge, x(), var("t")))],
        true,
    ));
    out.push((
        "program-reads-loopvar-reduce".to_string(),
        method(l(), "reduce", vec![var("acc"), x(), var("step"), ilit(0)]),
        base.clone(),
        vec![("step".to_string(), bin(Op::Add, var("acc"), x()))],
        true,
    ));
    out.push((
        "program-reads-loopvar-twice".to_string(),
        E::List(vec![
            method(l(), "map", vec![x(), var("twice")]),
            method(l(), "exists", vec![x(), bin(Op::Eq, var("twice"), bin(Op::Mul, var("t"), ilit(2)))]),
            method(E::List(vec![ilit(5)]), "map", vec![x(), var("twice")]),
        ]),
        base.clone(),
        vec![("twice".to_string(), bin(Op::Mul, x(), ilit(2)))],
        true,
    ));
    out
}

fn grid_cases(tier_thorough: bool) -> Vec<Case> {
    let mut out = Vec::new();
    let lens: Vec<usize> = if tier_thorough { (0..=66).collect() } else { vec![0, 1, 2, 3, 5, 31, 32, 33, 40, 64] };
    for &n in &lens {
        let mut ks: Vec<i64> = vec![-1, 0, 1, n as i64 / 2, n as i64 - 2, n as i64 - 1, n as i64, n as i64 + 3];
        ks.sort();
        ks.dedup();
        for k in ks {
            for outer_x in [false, true] {
                for (label, e, binds, progs, nt) in templates(n, k, outer_x) {
                    out.push(Case { label, e, binds, progs, nontrivial: nt });
                }
            }
        }
    }
    // element types other than int: identity map / constant filter keep order and multiplicity
    let mut pool = crate::val::misc_pool();
    pool.extend([V::Int(1), V::Int(1), V::UInt(1), V::F(f64::NAN), V::F(-0.0), V::Bool(false)]);
    out.push(Case {
        label: "map-identity-every-type".into(),
        e: method(var("l"), "map", vec![var("x"), var("x")]),
        binds: vec![("l".into(), V::List(pool.clone()))],
        progs: vec![],
        nontrivial: true,
    });
    out.push(Case {
        label: "filter-truthy-every-type".into(),
        e: method(var("l"), "filter", vec![var("x"), var("x")]),
        binds: vec![("l".into(), V::List(pool.clone()))],
        progs: vec![],
        nontrivial: true,
    });
    out.push(Case {
        label: "all-truthy-every-type".into(),
        e: method(var("l"), "all", vec![var("x"), var("x")]),
        binds: vec![("l".into(), V::List(pool.clone()))],
        progs: vec![],
        nontrivial: true,
    });
    out.push(Case {
        label: "map3-truthy-every-type".into(),
        e: method(var("l"), "map", vec![var("x"), var("x"), E::List(vec![var("x")])]),
        binds: vec![("l".into(), V::List(pool.clone()))],
        progs: vec![],
        nontrivial: true,
    });
    // one element at a time, so that each type's truthiness decides the result on its own
    for v in pool {
        for m in ["all", "exists", "exists_one", "filter"] {
            out.push(Case {
                label: format!("{}-truthy-single", m),
                e: method(var("l"), m, vec![var("x"), var("x")]),
                binds: vec![("l".into(), V::List(vec![v.clone()]))],
                progs: vec![],
                nontrivial: true,
            });
        }
        out.push(Case {
            label: "map3-truthy-single".into(),
            e: method(var("l"), "map", vec![var("x"), var("x"), ilit(1)]),
            binds: vec![("l".into(), V::List(vec![v.clone()]))],
            progs: vec![],
            nontrivial: true,
        });
    }
    // non-list receivers
    for v in [V::Int(1), V::s("abc"), V::Null, V::Bytes(vec![1])] {
        for m in ["all", "exists", "exists_one", "filter", "map"] {
            out.push(Case {
                label: format!("{}-non-list", m),
                e: method(var("l"), m, vec![var("x"), var("x")]),
                binds: vec![("l".into(), v.clone())],
                progs: vec![],
                nontrivial: false,
            });
        }
    }
    out
}

fn gen_case(g: &mut G) -> Case {
    let n = match g.below(4) {
        0 => g.below(4),
        1 => 30 + g.below(6),
        _ => g.below(65),
    };
    let k = g.range(-1, n as i64 + 1);
    let outer_x = g.flag();
    let mut ts = templates(n, k, outer_x);
    let i = g.below(ts.len());
    let (label, e, mut binds, progs, nt) = ts.swap_remove(i);
    // random element values instead of 0..n-1
    if g.flag() {
        let l: Vec<V> = (0..n).map(|_| V::Int(g.range(-3, n as i64 + 2))).collect();
        for b in binds.iter_mut() {
            if b.0 == "l" {
                b.1 = V::List(l.clone());
            }
        }
    }
    Case { label, e, binds, progs, nontrivial: nt }
}

// ---------------------------------------------------------------------------
// maps: one fixed key order

fn exec_with_map(src: &str, m: Option<&[(String, V)]>) -> String {
    let r = guard(|| {
        let mut ctx = CelContext::new();
        ctx.add_program_str("main", src)?;
        let mut b = BindContext::new();
        if let Some(entries) = m {
            // a freshly constructed map each time (insertion order as given)
            let mut h = std::collections::HashMap::new();
            for (k, v) in entries {
                h.insert(k.clone(), v.to_cel());
            }
            b.bind_param("m", rscel::CelValue::Map(h));
        }
        ctx.exec("main", &b)
    });
    match r {
        Ok(Ok(v)) => canon_cel(&v),
        Ok(Err(e)) => format!("Err({})", crate::run::err_class(&e)),
        Err(p) => format!("PANIC {}", p.msg),
    }
}

fn check_map_order(keys: &[String], sub: &str, acc: &mut Acc) -> Vec<Failure> {
    let entries: Vec<(String, V)> = keys.iter().enumerate().map(|(i, k)| (k.clone(), V::Int(i as i64))).collect();
    let mut rev = entries.clone();
    rev.reverse();
    let lit = {
        let parts: Vec<String> = entries.iter().map(|(k, v)| format!("{}: {}", str_lit(k), v.canon())).collect();
        format!("{{{}}}", parts.join(", "))
    };
    let mut sorted_keys: Vec<String> = keys.to_vec();
    sorted_keys.sort();
    let mut out = Vec::new();
    for (macro_src, expect_multiset) in [
        ("m.map(k, k)", sorted_keys.iter().map(|k| V::s(k).canon()).collect::<Vec<_>>()),
        ("m.filter(k, true)", sorted_keys.iter().map(|k| V::s(k).canon()).collect::<Vec<_>>()),
        ("m.map(k, m[k] >= 0, k)", sorted_keys.iter().map(|k| V::s(k).canon()).collect::<Vec<_>>()),
    ] {
        let canon = format!("{} over keys {:?}", macro_src, keys);
        acc.case(sub, &canon, keys.len() >= 4, "map-order");
        let lit_src = macro_src.replace("m.", &format!("{}.", lit)).replace("m[", &format!("{}[", lit));
        let mut results: Vec<(String, String)> = Vec::new();
        for rep in 0..3 {
            results.push((format!("bound#{}", rep), exec_with_map(macro_src, Some(&entries))));
        }
        results.push(("bound-reverse-insertion".into(), exec_with_map(macro_src, Some(&rev))));
        results.push(("literal".into(), exec_with_map(&lit_src, None)));
        results.push(("literal#2".into(), exec_with_map(&lit_src, None)));
        acc.eval_only(sub, results.len() as u64 - 1);
        acc.sample("map-order", || json!({"source": macro_src, "keys": keys, "results": results}));
        // permutation of the expected multiset
        let first = &results[0].1;
        let mut got: Vec<String> = first.trim_start_matches('[').trim_end_matches(']').split(", ").filter(|s| !s.is_empty()).map(|s| s.to_string()).collect();
        got.sort();
        let mut want = expect_multiset.clone();
        want.sort();
        if got != want {
            out.push(Failure::new(
                "c07:map-iteration:wrong-elements",
                format!("{} over {:?} -> {} which is not a permutation of the keys", macro_src, keys, first),
                json!({"kind": "map", "keys": keys}),
            ));
            continue;
        }
        if let Some((which, other)) = results.iter().skip(1).find(|(_, r)| r != first) {
            out.push(Failure::new(
                "c07:map-iteration:order-not-fixed",
                format!("{} over keys {:?}: {} but {} gave {}", macro_src, keys, first, which, other),
                json!({"kind": "map", "keys": keys}),
            ));
        }
    }
    out
}

fn run(opts: &Opts, acc: &mut Acc) {
    let grid = grid_cases(opts.tier == crate::engine::Tier::Thorough && !opts.is_dbg());
    par_chunks(acc, opts.threads, &grid, |c, a| {
        for f in check_case(c, "grid", a) {
            a.fail(f);
        }
    });
    acc.mark_exhaustive("grid", "list lengths x deciding positions x macro templates x outer binding present/absent");
    if !opts.is_dbg() {
        let keysets: Vec<Vec<String>> = vec![
            vec!["a", "b", "c", "d"],
            vec!["d", "c", "b", "a"],
            vec!["k1", "k2", "k3", "k4", "k5", "k6", "k7", "k8"],
            vec!["", "é", "x y", "A", "a"],
            vec!["one"],
            vec![],
            vec!["zeta", "alpha", "mid", "beta", "omega", "10", "9"],
        ]
        .into_iter()
        .map(|v| v.into_iter().map(String::from).collect())
        .collect();
        par_chunks(acc, opts.threads, &keysets, |k, a| {
            for f in check_map_order(k, "maps", a) {
                a.fail(f);
            }
        });
    }
    let n = match (opts.tier, opts.is_dbg()) {
        (crate::engine::Tier::Quick, _) => 150_000,
        (_, false) => 1_500_000,
        (_, true) => 150_000,
    };
    random_genomes(acc, opts, "random", n, 200, |gn, a| {
        let mut g = G::new(gn);
        let c = gen_case(&mut g);
        check_case(&c, "random", a)
    });
    if !opts.is_dbg() {
        let n = opts.tier.pick(1_500, 5_000);
        random_genomes(acc, opts, "maps-random", n, 64, |gn, a| {
            let mut g = G::new(gn);
            let nk = 4 + g.below(5);
            let mut keys: Vec<String> = Vec::new();
            for _ in 0..nk {
                let k = format!("{}{}", g.pick_str(&["k", "key", "z", "a", "é"]), g.below(50));
                if !keys.contains(&k) {
                    keys.push(k);
                }
            }
            check_map_order(&keys, "maps-random", a)
        });
    }
}

fn replay(_opts: &Opts, d: &Value, acc: &mut Acc) {
    if d.get("kind").and_then(|k| k.as_str()) == Some("map") {
        let keys: Vec<String> = d
            .get("keys")
            .and_then(|k| k.as_array())
            .map(|a| a.iter().filter_map(|x| x.as_str().map(String::from)).collect())
            .unwrap_or_default();
        for f in check_map_order(&keys, "replay", acc) {
            acc.fail(f);
        }
        return;
    }
    if let Some(hex) = d.get("genome_hex").and_then(|h| h.as_str()) {
        let gn = crate::engine::unhex(hex);
        let mut g = G::new(&gn);
        let c = gen_case(&mut g);
        for f in check_case(&c, "replay", acc) {
            acc.fail(f);
        }
        return;
    }
    let src = d.get("source").and_then(|s| s.as_str()).unwrap_or("");
    let want = d.get("bindings").cloned();
    for c in grid_cases(true) {
        if render_min(&c.e) == src {
            let have = Some(json!(c.binds.iter().map(|(k, v)| json!([k, super::c03::vjson(v)])).collect::<Vec<_>>()));
            if want.is_some() && want != have {
                continue;
            }
            for f in check_case(&c, "replay", acc) {
                acc.fail(f);
            }
            return;
        }
    }
    acc.inconclusive.push("C07 replay: case not found".into());
}

/// libFuzzer entry: one generated case
pub fn fuzz_case(genome: &[u8], acc: &mut Acc) -> Vec<Failure> {
    let mut g = G::new(genome);
    let c = gen_case(&mut g);
    check_case(&c, "fuzz", acc)
}
