//! C06 — collections: literals, indexing (incl. negative), membership, concatenation, size.

use super::Prop;
use crate::engine::{par_chunks, random_genomes, Acc, Failure, Opts};
use crate::expr::*;
use crate::g::G;
use crate::model::{self, Ctx, Out};
use crate::run::eval;
use crate::val::*;
use serde_json::{json, Value};
use std::collections::BTreeMap;

pub static PROP: Prop = Prop {
    id: "C06",
    rule: "exhaustive: lists of size 0..5 x every integer index in [-size-2, size+2] as int and as uint, extreme ints/uints and \
           one index of every non-integer type; map literals given as entry sequences over keys {a,b} of length 0..3 (all \
           duplicate patterns) x lookups of a/b/c by m[k] and m.k; `in` over a left/right pool with one value of every type; \
           + over all pairs of list/string/bytes/other representatives; size in free and method form. random: lists/maps up \
           to size 6, nesting <= 3, elements of every type, random indices/keys. Every case runs in three forms: collection \
           as a literal (folded), as a literal with one element replaced by a bound variable (MKLIST/MKDICT at run time), and \
           as a bound value. Oracle: the statement's rules (model.rs). Non-trivial = index on or next to a bound (-size-1, \
           -size, -1, 0, size-1, size), a duplicate or absent key, or a nested element; distinct by canonical case.",
    assumptions: &[
        "indexing strings/bytes, non-string map keys, size(map), membership across different element types and containers holding failing elements are unspecified",
        "a map field whose name equals a built-in function name is a bound method, not asserted (DESIGN 8.10)",
    ],
    run,
    replay,
    // index arithmetic can panic only with overflow checks on: the grid also runs in the dbg profile in the quick tier
    both_profiles: super::always_both,
};

/// One case: an expression over the variables in `binds`, plus its literal twin.
struct Case {
    label: &'static str,
    var_form: E,
    binds: Vec<(String, V)>,
    nontrivial: bool,
}

fn lit_form(e: &E, binds: &[(String, V)]) -> E {
    let mut cur = e.clone();
    for (n, v) in binds {
        cur = crate::gen::substitute(&cur, n, v);
    }
    cur
}

/// literal collection with its first element / first value turned into a variable
fn mixed_form(e: &E, binds: &[(String, V)]) -> Option<(E, Vec<(String, V)>)> {
    // replace variable `c` (the collection) by a literal whose first element is variable `el`
    let (_, cv) = binds.iter().find(|(n, _)| n == "c")?;
    let (lit, el): (E, V) = match cv {
        V::List(l) if !l.is_empty() => {
            let mut items: Vec<E> = l.iter().map(E::from_value).collect();
            items[0] = var("el");
            (E::List(items), l[0].clone())
        }
        V::Map(m) if !m.is_empty() => {
            let mut entries: Vec<(E, E)> = m.iter().map(|(k, v)| (E::Lit(V::Str(k.clone())), E::from_value(v))).collect();
            let first = m.values().next().unwrap().clone();
            entries[0].1 = var("el");
            (E::Map(entries), first)
        }
        _ => return None,
    };
    let mut b2: Vec<(String, V)> = binds.iter().filter(|(n, _)| n != "c").cloned().collect();
    b2.push(("el".to_string(), el));
    Some((replace_var(e, "c", &lit), b2))
}

fn replace_var(e: &E, name: &str, with: &E) -> E {
    match e {
        E::Var(n) if n == name => with.clone(),
        E::Lit(_) | E::Var(_) => e.clone(),
        E::Not(n, x) => E::Not(*n, Box::new(replace_var(x, name, with))),
        E::Neg(n, x) => E::Neg(*n, Box::new(replace_var(x, name, with))),
        E::Bin(op, a, b) => E::Bin(*op, Box::new(replace_var(a, name, with)), Box::new(replace_var(b, name, with))),
        E::Tern(c, a, b) => E::Tern(
            Box::new(replace_var(c, name, with)),
            Box::new(replace_var(a, name, with)),
            Box::new(replace_var(b, name, with)),
        ),
        E::List(l) => E::List(l.iter().map(|x| replace_var(x, name, with)).collect()),
        E::Map(m) => E::Map(m.iter().map(|(k, v)| (replace_var(k, name, with), replace_var(v, name, with))).collect()),
        E::Index(a, i) => E::Index(Box::new(replace_var(a, name, with)), Box::new(replace_var(i, name, with))),
        E::Field(a, f) => E::Field(Box::new(replace_var(a, name, with)), f.clone()),
        E::Call(f, args) => {
            let f2 = match f.as_ref() {
                E::Field(r, n) => E::Field(Box::new(replace_var(r, name, with)), n.clone()),
                o => o.clone(),
            };
            E::Call(Box::new(f2), args.iter().map(|x| replace_var(x, name, with)).collect())
        }
        other => other.clone(),
    }
}

fn check_case(c: &Case, sub: &str, acc: &mut Acc) -> Vec<Failure> {
    let vars: BTreeMap<String, V> = c.binds.iter().cloned().collect();
    let progs = BTreeMap::new();
    let funcs = BTreeMap::new();
    let mut ctx = Ctx::new(&vars, &progs, &funcs);
    let expected = ctx.eval(&c.var_form, &mut Vec::new());
    let var_src = render_min(&c.var_form);
    let lit = lit_form(&c.var_form, &c.binds);
    let lit_src = render_min(&lit);
    let canon = format!("{} @ {}", var_src, crate::run::binds_json(&c.binds));
    acc.case(sub, &canon, c.nontrivial, c.label);
    if expected == Out::Unspec {
        acc.skip("model: not determined by the statement");
    }
    let mut forms: Vec<(&str, String, Vec<(String, V)>)> = vec![
        ("bound", var_src.clone(), c.binds.clone()),
        ("literal", lit_src.clone(), vec![]),
    ];
    if let Some((m, b2)) = mixed_form(&c.var_form, &c.binds) {
        forms.push(("mixed", render_min(&m), b2));
    }
    let mut out = Vec::new();
    let mut sums = Vec::new();
    for (form, src, b) in &forms {
        let r = eval(src, b);
        acc.eval_only(sub, 1);
        sums.push(r.res.sum());
        if let Some(mode) = model::judge(&expected, &r.res) {
            out.push(Failure::new(
                format!("c06:{}:{}:{}", c.label, form, mode),
                format!("{} ({} form, {}) -> {} but the statement gives {}", src, form, crate::run::binds_json(b), r.res.sum().show(), expected.show()),
                json!({"kind": "case", "source": src, "form": form,
                       "bindings": b.iter().map(|(k, v)| json!([k, super::c03::vjson(v)])).collect::<Vec<_>>(),
                       "expected": expected.show(), "actual": r.res.sum().show()}),
            ));
            break;
        }
    }
    if out.is_empty() {
        // all forms agree with each other even where the model is silent
        for i in 1..sums.len() {
            if sums[i].coarse() != sums[0].coarse() && !sums[i].is_panic() && !sums[0].is_panic() {
                out.push(Failure::new(
                    format!("c06:{}:forms-disagree", c.label),
                    format!("{} -> {} but {} ({}) -> {}", forms[0].1, sums[0].show(), forms[i].1, forms[i].0, sums[i].show()),
                    json!({"kind": "case", "source": forms[i].1, "form": forms[i].0,
                           "bindings": forms[i].2.iter().map(|(k, v)| json!([k, super::c03::vjson(v)])).collect::<Vec<_>>()}),
                ));
                break;
            }
        }
    }
    acc.sample(c.label, || json!({"bound_form": var_src, "literal_form": lit_src, "bindings": crate::run::binds_json(&c.binds),
                                  "model": expected.show(), "result": sums.first().map(|s| s.show())}));
    out
}

fn one_of_every_type() -> Vec<V> {
    let mut m = BTreeMap::new();
    m.insert("a".to_string(), V::Int(1));
    vec![
        V::Int(1),
        V::Int(0),
        V::UInt(1),
        V::F(1.0),
        V::F(0.5),
        V::Bool(true),
        V::s("a"),
        V::s(""),
        V::s("ab"),
        V::Bytes(vec![0x61]),
        V::List(vec![V::Int(1), V::s("a")]),
        V::List(vec![]),
        V::Map(m),
        V::Map(BTreeMap::new()),
        V::Null,
        V::Type("int".into()),
        V::Ts(0, 0),
        V::Dur(1_000_000_000),
    ]
}

fn grid_cases() -> Vec<Case> {
    let mut out = Vec::new();
    let c = || var("c");
    // list indexing
    for size in 0..=5usize {
        let l: Vec<V> = (0..size).map(|k| V::Int(10 * (k as i64 + 1))).collect();
        let n = size as i64;
        let mut idx: Vec<V> = Vec::new();
        for i in (-n - 2)..=(n + 2) {
            idx.push(V::Int(i));
            if i >= 0 {
                idx.push(V::UInt(i as u64));
            }
        }
        for x in [i64::MIN, i64::MIN + 1, i64::MAX, i64::MAX - 1, -(1 << 32), 1 << 32] {
            idx.push(V::Int(x));
        }
        for x in [u64::MAX, 1 << 63, 1 << 32] {
            idx.push(V::UInt(x));
        }
        for v in [V::F(0.0), V::F(1.0), V::Bool(false), V::s("0"), V::Null, V::List(vec![V::Int(0)]), V::Bytes(vec![0])] {
            idx.push(v);
        }
        for i in idx {
            let near = match &i {
                V::Int(x) => [-n - 1, -n, -1, 0, n - 1, n].contains(x),
                V::UInt(x) => *x as i128 == n as i128 || *x as i128 == n as i128 - 1 || *x == 0,
                _ => false,
            };
            out.push(Case {
                label: "list-index",
                var_form: E::Index(Box::new(c()), Box::new(var("i"))),
                binds: vec![("c".into(), V::List(l.clone())), ("i".into(), i)],
                nontrivial: near,
            });
        }
    }
    // nested lists
    let nested = V::List(vec![V::List(vec![V::Int(1), V::Int(2)]), V::List(vec![]), V::List(vec![V::List(vec![V::s("x")])])]);
    for i in -4..=3i64 {
        for j in -3..=2i64 {
            out.push(Case {
                label: "nested-index",
                var_form: E::Index(Box::new(E::Index(Box::new(c()), Box::new(var("i")))), Box::new(var("j"))),
                binds: vec![("c".into(), nested.clone()), ("i".into(), V::Int(i)), ("j".into(), V::Int(j))],
                nontrivial: true,
            });
        }
    }
    // map literals with duplicate keys: explicit entry sequences, looked up by index and by field
    let keys = ["a", "b"];
    let mut seqs: Vec<Vec<&str>> = vec![vec![]];
    for len in 1..=3 {
        let mut cur: Vec<Vec<&str>> = vec![vec![]];
        for _ in 0..len {
            let mut next = Vec::new();
            for s in &cur {
                for k in keys {
                    let mut t = s.clone();
                    t.push(k);
                    next.push(t);
                }
            }
            cur = next;
        }
        seqs.extend(cur);
    }
    for s in &seqs {
        let dup = {
            let mut u = s.clone();
            u.sort();
            u.dedup();
            u.len() != s.len()
        };
        for look in ["a", "b", "c"] {
            // entry values are v0, v1, v2 (bound) so that which entry survives is visible
            let entries: Vec<(E, E)> = s.iter().enumerate().map(|(k, key)| (slit(key), var(&format!("v{}", k)))).collect();
            let binds: Vec<(String, V)> = (0..s.len()).map(|k| (format!("v{}", k), V::Int(100 + k as i64))).collect();
            out.push(Case {
                label: "map-literal-index",
                var_form: E::Index(Box::new(E::Map(entries.clone())), Box::new(slit(look))),
                binds: binds.clone(),
                nontrivial: dup || !s.contains(&look),
            });
            out.push(Case {
                label: "map-literal-field",
                var_form: E::Field(Box::new(E::Map(entries.clone())), look.to_string()),
                binds: binds.clone(),
                nontrivial: dup || !s.contains(&look),
            });
            out.push(Case {
                label: "map-literal-whole",
                var_form: E::Map(entries),
                binds,
                nontrivial: dup,
            });
        }
    }
    // bound maps: m[k], m.k, nested paths
    let mut inner = BTreeMap::new();
    inner.insert("x".to_string(), V::Int(7));
    inner.insert("n".to_string(), V::Null);
    let mut m = BTreeMap::new();
    m.insert("a".to_string(), V::Int(1));
    m.insert("inner".to_string(), V::Map(inner));
    m.insert("".to_string(), V::s("empty-key"));
    m.insert("é".to_string(), V::s("non-ascii"));
    for k in [V::s("a"), V::s("inner"), V::s(""), V::s("é"), V::s("zz"), V::s("A"), V::Int(0), V::Null, V::Bool(true), V::Bytes(vec![0x61])] {
        let absent = matches!(&k, V::Str(s) if !m.contains_key(s));
        out.push(Case {
            label: "map-index",
            var_form: E::Index(Box::new(c()), Box::new(var("k"))),
            binds: vec![("c".into(), V::Map(m.clone())), ("k".into(), k)],
            nontrivial: absent,
        });
    }
    for f in ["a", "inner", "zz", "A", "x"] {
        out.push(Case {
            label: "map-field",
            var_form: E::Field(Box::new(c()), f.to_string()),
            binds: vec![("c".into(), V::Map(m.clone()))],
            nontrivial: !m.contains_key(f),
        });
        for f2 in ["x", "n", "zz"] {
            out.push(Case {
                label: "map-field-nested",
                var_form: E::Field(Box::new(E::Field(Box::new(c()), f.to_string())), f2.to_string()),
                binds: vec![("c".into(), V::Map(m.clone()))],
                nontrivial: true,
            });
            out.push(Case {
                label: "map-index-nested",
                var_form: E::Index(Box::new(E::Index(Box::new(c()), Box::new(slit(f)))), Box::new(slit(f2))),
                binds: vec![("c".into(), V::Map(m.clone()))],
                nontrivial: true,
            });
        }
    }
    // in / + / size over one value of every type on both sides
    let pool = one_of_every_type();
    for a in &pool {
        for b in &pool {
            out.push(Case {
                label: "in",
                var_form: bin(Op::In, var("x"), c()),
                binds: vec![("x".into(), a.clone()), ("c".into(), b.clone())],
                nontrivial: matches!(b, V::List(_) | V::Map(_) | V::Str(_)),
            });
            out.push(Case {
                label: "concat",
                var_form: bin(Op::Add, var("x"), c()),
                binds: vec![("x".into(), a.clone()), ("c".into(), b.clone())],
                nontrivial: matches!((a, b), (V::List(_), V::List(_)) | (V::Str(_), V::Str(_)) | (V::Bytes(_), V::Bytes(_))),
            });
        }
        out.push(Case {
            label: "size-free",
            var_form: call("size", vec![c()]),
            binds: vec![("c".into(), a.clone())],
            nontrivial: matches!(a, V::List(_) | V::Str(_) | V::Bytes(_)),
        });
        out.push(Case {
            label: "size-method",
            var_form: method(c(), "size", vec![]),
            binds: vec![("c".into(), a.clone())],
            nontrivial: matches!(a, V::List(_) | V::Str(_) | V::Bytes(_)),
        });
    }
    // membership with elements: present/absent/duplicates, substring positions, key presence
    let hay = V::List(vec![V::Int(1), V::Int(2), V::Int(2), V::Int(-1)]);
    for x in [-1i64, 0, 1, 2, 3] {
        out.push(Case {
            label: "in-list",
            var_form: bin(Op::In, var("x"), c()),
            binds: vec![("x".into(), V::Int(x)), ("c".into(), hay.clone())],
            nontrivial: true,
        });
    }
    for (n, h) in [("", "abc"), ("a", "abc"), ("c", "abc"), ("bc", "abc"), ("abcd", "abc"), ("é", "héllo"), ("", ""), ("b", "")] {
        out.push(Case {
            label: "in-string",
            var_form: bin(Op::In, var("x"), c()),
            binds: vec![("x".into(), V::s(n)), ("c".into(), V::s(h))],
            nontrivial: true,
        });
    }
    // size of non-ASCII strings and of bytes
    for s in ["", "a", "é", "héllo", "日本語", "😀", "a😀b"] {
        out.push(Case {
            label: "size-free",
            var_form: call("size", vec![c()]),
            binds: vec![("c".into(), V::s(s))],
            nontrivial: true,
        });
        out.push(Case {
            label: "size-method",
            var_form: method(c(), "size", vec![]),
            binds: vec![("c".into(), V::s(s))],
            nontrivial: true,
        });
    }
    // concatenation keeps order
    out.push(Case {
        label: "concat",
        var_form: bin(Op::Add, bin(Op::Add, c(), var("x")), c()),
        binds: vec![("c".into(), V::List(vec![V::Int(1), V::Int(2)])), ("x".into(), V::List(vec![V::s("m")]))],
        nontrivial: true,
    });
    out
}

fn gen_case(g: &mut G) -> Case {
    match g.below(6) {
        0 | 1 => {
            let n = g.below(7);
            let l: Vec<V> = (0..n).map(|_| gen_value(g, 2)).collect();
            let i = match g.below(4) {
                0 => V::Int(g.range(-(n as i64) - 2, n as i64 + 2)),
                1 => V::UInt(g.below(n + 3) as u64),
                2 => V::Int(gen_int(g)),
                _ => gen_value(g, 0),
            };
            let near = matches!(&i, V::Int(x) if [-(n as i64) - 1, -(n as i64), -1, 0, n as i64 - 1, n as i64].contains(x));
            Case {
                label: "list-index",
                var_form: E::Index(Box::new(var("c")), Box::new(var("i"))),
                binds: vec![("c".into(), V::List(l)), ("i".into(), i)],
                nontrivial: near,
            }
        }
        2 => {
            let n = g.below(5);
            let mut m = BTreeMap::new();
            for _ in 0..n {
                m.insert(g.pick_str(KEY_ALPHABET).to_string(), gen_value(g, 2));
            }
            let k = g.pick_str(KEY_ALPHABET).to_string();
            let absent = !m.contains_key(&k);
            if g.flag() && !k.is_empty() && k.chars().all(|c| c.is_ascii_alphanumeric()) {
                Case {
                    label: "map-field",
                    var_form: E::Field(Box::new(var("c")), k),
                    binds: vec![("c".into(), V::Map(m))],
                    nontrivial: absent,
                }
            } else {
                Case {
                    label: "map-index",
                    var_form: E::Index(Box::new(var("c")), Box::new(var("k"))),
                    binds: vec![("c".into(), V::Map(m)), ("k".into(), V::Str(k))],
                    nontrivial: absent,
                }
            }
        }
        3 => {
            let a = gen_value(g, 1);
            let b = match g.below(3) {
                0 => V::List((0..g.below(5)).map(|_| gen_value(g, 1)).collect()),
                1 => V::Str(gen_string(g, 6)),
                _ => gen_value(g, 2),
            };
            Case {
                label: "in",
                var_form: bin(Op::In, var("x"), var("c")),
                binds: vec![("x".into(), a), ("c".into(), b)],
                nontrivial: true,
            }
        }
        4 => {
            let (a, b) = match g.below(4) {
                0 => (
                    V::List((0..g.below(4)).map(|_| gen_value(g, 1)).collect()),
                    V::List((0..g.below(4)).map(|_| gen_value(g, 1)).collect()),
                ),
                1 => (V::Str(gen_string(g, 5)), V::Str(gen_string(g, 5))),
                2 => (V::Bytes(gen_bytes(g, 5)), V::Bytes(gen_bytes(g, 5))),
                _ => (gen_value(g, 1), gen_value(g, 1)),
            };
            Case {
                label: "concat",
                var_form: bin(Op::Add, var("x"), var("c")),
                binds: vec![("x".into(), a), ("c".into(), b)],
                nontrivial: true,
            }
        }
        _ => {
            let v = match g.below(4) {
                0 => V::List((0..g.below(7)).map(|_| gen_value(g, 1)).collect()),
                1 => V::Str(gen_string(g, 8)),
                2 => V::Bytes(gen_bytes(g, 8)),
                _ => gen_value(g, 2),
            };
            // a map that has a field named `size`: `c.size` is that field (C12), and calling a field
            // value says nothing about size() (a type value there is a constructor: timestamp() reads the clock)
            let field_shadows = matches!(&v, V::Map(m) if m.contains_key("size"));
            if g.flag() || field_shadows {
                Case { label: "size-free", var_form: call("size", vec![var("c")]), binds: vec![("c".into(), v)], nontrivial: true }
            } else {
                Case { label: "size-method", var_form: method(var("c"), "size", vec![]), binds: vec![("c".into(), v)], nontrivial: true }
            }
        }
    }
}

/// values that cannot be rendered as literals are kept out of the literal form's way
fn expressible(c: &Case) -> bool {
    c.binds.iter().all(|(_, v)| v.lit().is_some())
}

fn run(opts: &Opts, acc: &mut Acc) {
    let grid = grid_cases();
    par_chunks(acc, opts.threads, &grid, |c, a| {
        for f in check_case(c, "grid", a) {
            a.fail(f);
        }
    });
    acc.mark_exhaustive("grid", "index ranges, duplicate-key entry sequences, in/+/size over one value of every type");
    let n = match (opts.tier, opts.is_dbg()) {
        (crate::engine::Tier::Quick, false) => 400_000,
        (crate::engine::Tier::Quick, true) => 30_000,
        (_, false) => 3_000_000,
        (_, true) => 300_000,
    };
    random_genomes(acc, opts, "random", n, 300, |gn, a| {
        let mut g = G::new(gn);
        let c = gen_case(&mut g);
        if !expressible(&c) {
            a.case("random", &render_min(&c.var_form), false, "not-literal-expressible");
            return vec![];
        }
        check_case(&c, "random", a)
    });
}

fn replay(_opts: &Opts, d: &Value, acc: &mut Acc) {
    if let Some(hex) = d.get("genome_hex").and_then(|h| h.as_str()) {
        let gn = crate::engine::unhex(hex);
        let mut g = G::new(&gn);
        let c = gen_case(&mut g);
        for f in check_case(&c, "replay", acc) {
            acc.fail(f);
        }
        return;
    }
    // grid cases: find by source + bindings
    let src = d.get("source").and_then(|s| s.as_str()).unwrap_or("");
    for c in grid_cases() {
        let vs = render_min(&c.var_form);
        let ls = render_min(&lit_form(&c.var_form, &c.binds));
        let ms = mixed_form(&c.var_form, &c.binds).map(|(m, _)| render_min(&m));
        if vs == src || ls == src || ms.as_deref() == Some(src) {
            let want = d.get("bindings").cloned();
            let have = Some(json!(c.binds.iter().map(|(k, v)| json!([k, super::c03::vjson(v)])).collect::<Vec<_>>()));
            if vs == src && want.is_some() && want != have {
                continue;
            }
            for f in check_case(&c, "replay", acc) {
                acc.fail(f);
            }
            return;
        }
    }
    acc.inconclusive.push("C06 replay: case not found in the grid and no genome given".into());
}

/// libFuzzer entry: one generated case
pub fn fuzz_case(genome: &[u8], acc: &mut Acc) -> Vec<Failure> {
    let mut g = G::new(genome);
    let c = gen_case(&mut g);
    if !expressible(&c) {
        return vec![];
    }
    check_case(&c, "fuzz", acc)
}
