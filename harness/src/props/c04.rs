//! C04 — equality and ordering obey their algebraic laws; sort/min/max agree with them.
//!
//! Every comparison is put to rscel in two forms: operands bound as variables (`x < y`,
//! decided by the VM) and operands written as literals (folded at compile time). The six
//! answers of an ordered pair form an observation; the laws are judged on rscel's own
//! observations (pair laws, converse laws on the reversed pair, transitivity on triples),
//! and the observations are compared with model.rs wherever the statement determines them.

use super::c03::{vjson, vunjson};
use super::Prop;
use crate::engine::{par_chunks, par_range, random_genomes, Acc, Failure, Opts, Tier};
use crate::g::G;
use crate::model::{compare, equal, Cmp, EqR};
use crate::run::{eval, Res};
use crate::val::*;
use rscel::CelValue;
use serde_json::{json, Value};
use std::cmp::Ordering;
use std::collections::BTreeMap;
use std::sync::atomic::{AtomicU32, Ordering as AO};

pub static PROP: Prop = Prop {
    id: "C04",
    rule: "exhaustive: every ordered pair of the joint numeric pool (int, uint, double incl. NaN) and of the string, bytes, bool, \
           timestamp and duration pools, of one representative of every type against every other, and of a pool of nested \
           lists/maps, each pair under < <= > >= == != in a bound form (x OP y) and a literal form (folded); every triple of \
           int+uint jointly, of NaN-free doubles and of each other pool (transitivity judged on the recorded answers); sort of \
           all lists of length <= 4 over {1,1u,1.0,2,0u,-0.5} and over five values around 2^53, of rotations/reversals of every pool \
           (<= 24 elements) and of constant lists of 21..24 elements with one or two odd elements at every position; min/max \
           of all tuples of length 1..4 over {1,1u,1.0,2,0u,-1}; min()/max(). random: pairs (a value against its \
           re-representation, bit-cast, rounding neighbours, prefixes), triples within a class, lists of 0..24 elements drawn \
           from 1..8 base values (duplicates, int/uint/double spellings of one number), argument tuples of 1..6, nested \
           containers against mutated copies. Non-trivial = the two values are numbers of different representations, or \
           compare equal without being the same value (a tie), or one is an extreme of its type (int/uint range ends, \
           uint >= 2^63-1, +-0.0, infinities, NaN, largest/smallest doubles, empty string/bytes, time range ends), or \
           strings/bytes where one is a prefix of the other or the first difference involves a byte >= 0x80, or both are \
           containers; a triple when one of its pairs is; a list/tuple when it holds a tie, an extreme or more than 20 \
           elements. Distinct by canonical tuple.",
    assumptions: &[
        "the order is the one of model.rs: int and uint as mathematical integers, integer vs double through the nearest double, doubles IEEE (every ordering with NaN false, NaN != NaN), strings and bytes lexicographic by byte, false < true, time chronological",
        "bool compared with a number, ordering two lists/maps/nulls/types, and == / != between unrelated types are not determined by the statement: only complementarity, symmetry, agreement of the two forms and absence of panics are asserted there",
        "transitivity is asserted only within the classes the statement lists (the nearest-double rule makes == non-transitive across the integer/double boundary); for sort/min/max over such a non-transitive argument set only 'ordered permutation' / 'some extreme argument' is asserted",
        "sort with NaN, with elements that are not mutually comparable, and min/max with such arguments: no panic only",
        "the literal form relies on V::lit() rendering exactly the value (checked by C03/C13)",
    ],
    run,
    replay,
    both_profiles: super::thorough_both,
};

// ---------------------------------------------------------------------------
// Observations

#[derive(Clone, Copy, PartialEq, Eq, Debug)]
enum B {
    T,
    F,
    /// an error (compile time or run time)
    E,
    /// a value that is not a bool
    Odd,
    /// a panic
    P,
}

impl B {
    fn code(self) -> u32 {
        match self {
            B::T => 0,
            B::F => 1,
            B::E => 2,
            B::Odd => 3,
            B::P => 4,
        }
    }
    fn from_code(c: u32) -> B {
        match c {
            0 => B::T,
            1 => B::F,
            2 => B::E,
            3 => B::Odd,
            _ => B::P,
        }
    }
    fn show(self) -> &'static str {
        match self {
            B::T => "true",
            B::F => "false",
            B::E => "error",
            B::Odd => "non-bool value",
            B::P => "PANIC",
        }
    }
    fn is_bool(self) -> bool {
        matches!(self, B::T | B::F)
    }
}

fn b_of(r: &Res) -> B {
    match r {
        Res::Ok(CelValue::Bool(true)) => B::T,
        Res::Ok(CelValue::Bool(false)) => B::F,
        Res::Ok(_) => B::Odd,
        Res::Err(_) => B::E,
        Res::Panic(_) => B::P,
    }
}

const LT: usize = 0;
const LE: usize = 1;
const GT: usize = 2;
const GE: usize = 3;
const EQ: usize = 4;
const NE: usize = 5;
const OPS: [(&str, &str); 6] = [("<", "lt"), ("<=", "le"), (">", "gt"), (">=", "ge"), ("==", "eq"), ("!=", "ne")];

type Obs = [B; 6];

fn enc(o: &Obs) -> u32 {
    let mut v = 1u32 << 31; // "filled" marker
    for (k, b) in o.iter().enumerate() {
        v |= b.code() << (3 * k as u32);
    }
    v
}

fn dec(v: u32) -> Option<Obs> {
    if v >> 31 == 0 {
        return None;
    }
    let mut o = [B::F; 6];
    for (k, slot) in o.iter_mut().enumerate() {
        *slot = B::from_code((v >> (3 * k as u32)) & 7);
    }
    Some(o)
}

fn show_obs(o: &Obs) -> String {
    OPS.iter().zip(o.iter()).map(|((s, _), b)| format!("{}:{}", s, b.show())).collect::<Vec<_>>().join(" ")
}

/// label of an unordered pair of types, for signatures and histograms
fn pair_class(a: &V, b: &V) -> String {
    let n = |v: &V| match v {
        V::F(_) => "double",
        o => o.type_name(),
    };
    let (x, y) = (n(a), n(b));
    if x == y {
        x.to_string()
    } else if x < y {
        format!("{}-{}", x, y)
    } else {
        format!("{}-{}", y, x)
    }
}

/// input class used in failure signatures: unrelated type pairs share one class
fn sig_class(a: &V, b: &V) -> String {
    if kind_of(a, b) == Kind::Unrelated {
        "unrelated".to_string()
    } else {
        pair_class(a, b)
    }
}

#[derive(Clone, Copy, PartialEq, Eq, Debug)]
enum Kind {
    /// the statement orders this pair (same comparable type, or two numbers)
    Comparable { nan: bool },
    /// different, unrelated types: every ordering operator must fail
    Unrelated,
    /// two lists, maps, nulls or types: ordering not determined by the statement
    SameTypeUnordered,
    /// bool against a number: not determined
    Unspec,
}

fn kind_of(a: &V, b: &V) -> Kind {
    match compare(a, b) {
        Cmp::Ord(Some(_)) => Kind::Comparable { nan: false },
        Cmp::Ord(None) => Kind::Comparable { nan: true },
        Cmp::Fail => {
            if a.type_name() != b.type_name() {
                Kind::Unrelated
            } else {
                Kind::SameTypeUnordered
            }
        }
        Cmp::Unspec => Kind::Unspec,
    }
}

fn pair_detail(a: &V, b: &V, extra: Value) -> Value {
    let mut d = json!({"kind": "pair", "a": vjson(a), "b": vjson(b)});
    if let (Value::Object(m), Value::Object(e)) = (&mut d, extra) {
        for (k, v) in e {
            m.insert(k, v);
        }
    }
    d
}

/// Ask rscel for the six answers on (a, b) in both forms. Panics and disagreement between
/// the forms are failures of their own. Returns the bound-form observation and the number
/// of evaluations made.
fn observe(a: &V, b: &V, out: &mut Vec<Failure>) -> (Obs, u64) {
    let class = sig_class(a, b);
    let binds = vec![("x".to_string(), a.clone()), ("y".to_string(), b.clone())];
    let lits = match (a.lit(), b.lit()) {
        (Some(x), Some(y)) => Some((x, y)),
        _ => None,
    };
    let mut o = [B::F; 6];
    let mut n = 0u64;
    for (k, (sym, name)) in OPS.iter().enumerate() {
        let src = format!("x {} y", sym);
        let r = eval(&src, &binds);
        n += 1;
        let bv = b_of(&r.res);
        o[k] = bv;
        if let Res::Panic(p) = &r.res {
            out.push(Failure::new(
                format!("c04:{}:{}:panic-{}", class, name, p.kind()),
                format!("{} {} {} (bound form) panicked: {} at {}", a.canon(), sym, b.canon(), p.msg, p.loc),
                pair_detail(a, b, json!({"op": name, "form": "bound", "actual": r.res.sum().show()})),
            ));
        }
        if let Some((la, lb)) = &lits {
            let lsrc = format!("{} {} {}", la, sym, lb);
            let r2 = eval(&lsrc, &[]);
            n += 1;
            let bl = b_of(&r2.res);
            if let Res::Panic(p) = &r2.res {
                out.push(Failure::new(
                    format!("c04:{}:{}:panic-{}", class, name, p.kind()),
                    format!("{} (literal form) panicked: {} at {}", lsrc, p.msg, p.loc),
                    pair_detail(a, b, json!({"op": name, "form": "literal", "source": lsrc, "actual": r2.res.sum().show()})),
                ));
            } else if bl != bv && bv != B::P {
                out.push(Failure::new(
                    format!("c04:{}:{}:forms-disagree", class, name),
                    format!(
                        "{} {} {}: bound form gives {} but the literal form `{}` gives {}",
                        a.canon(), sym, b.canon(), r.res.sum().show(), lsrc, r2.res.sum().show()
                    ),
                    pair_detail(a, b, json!({"op": name, "source": lsrc, "bound": r.res.sum().show(), "literal": r2.res.sum().show()})),
                ));
            }
        }
    }
    (o, n)
}

/// Laws and model agreement that need only the observation of (a, b).
fn pair_local(a: &V, b: &V, o: &Obs, out: &mut Vec<Failure>) {
    let class = sig_class(a, b);
    let what = |law: &str| format!("{} ? {}: {} [{}]", a.canon(), b.canon(), law, show_obs(o));
    let det = |law: &str, expected: &str| pair_detail(a, b, json!({"law": law, "expected": expected, "actual": show_obs(o)}));
    if o.iter().any(|x| *x == B::P) {
        return; // reported by observe
    }
    let eqk = equal(a, b);

    // `==` and `!=` are complementary
    match (o[EQ], o[NE]) {
        (B::T, B::F) | (B::F, B::T) => {}
        (B::E, B::E) if eqk == EqR::Unspec => {}
        _ => out.push(Failure::new(
            format!("c04:{}:eq-ne-not-complementary", class),
            what("== and != must be complementary"),
            det("complementary", "exactly one of ==, != true"),
        )),
    }
    // `==` is reflexive on values without NaN
    if a.same(b) && !a.has_nan() && o[EQ] != B::T {
        out.push(Failure::new(
            format!("c04:{}:eq-not-reflexive", class),
            what("a value without NaN must equal itself"),
            det("reflexive", "== true"),
        ));
    }
    // model: equality
    let exp_eq = match eqk {
        EqR::Yes => Some(true),
        EqR::No => Some(false),
        EqR::Unspec => None,
    };
    if let Some(e) = exp_eq {
        let want = |t: bool| if t { B::T } else { B::F };
        if o[EQ] != want(e) {
            out.push(Failure::new(
                format!("c04:{}:eq:model-mismatch", class),
                what(&format!("the statement gives == {}", e)),
                det("model-eq", &format!("== {}", e)),
            ));
        }
        if o[NE] != want(!e) {
            out.push(Failure::new(
                format!("c04:{}:ne:model-mismatch", class),
                what(&format!("the statement gives != {}", !e)),
                det("model-ne", &format!("!= {}", !e)),
            ));
        }
    }

    match kind_of(a, b) {
        Kind::Comparable { nan } => {
            let mut all_bool = true;
            for k in [LT, LE, GT, GE, EQ, NE] {
                if !o[k].is_bool() {
                    all_bool = false;
                    out.push(Failure::new(
                        format!("c04:{}:{}:no-bool-on-comparable-pair", class, OPS[k].1),
                        what(&format!("{} must yield true or false on a comparable pair", OPS[k].0)),
                        det("comparable-pair-yields-bool", "true or false"),
                    ));
                }
            }
            if !all_bool {
                return;
            }
            let t = |k: usize| o[k] == B::T;
            if !nan {
                let cnt = [LT, EQ, GT].iter().filter(|k| t(**k)).count();
                if cnt != 1 {
                    out.push(Failure::new(
                        format!("c04:{}:trichotomy", class),
                        what("exactly one of <, ==, > must hold"),
                        det("trichotomy", "exactly one of <, ==, >"),
                    ));
                }
            }
            if t(LE) != (t(LT) || t(EQ)) {
                out.push(Failure::new(
                    format!("c04:{}:le-not-union", class),
                    what("<= must be (< or ==)"),
                    det("le-union", "<= iff (< or ==)"),
                ));
            }
            if t(GE) != (t(GT) || t(EQ)) {
                out.push(Failure::new(
                    format!("c04:{}:ge-not-union", class),
                    what(">= must be (> or ==)"),
                    det("ge-union", ">= iff (> or ==)"),
                ));
            }
            // model: the one order
            if let Cmp::Ord(ord) = compare(a, b) {
                let exp = [
                    ord == Some(Ordering::Less),
                    matches!(ord, Some(Ordering::Less) | Some(Ordering::Equal)),
                    ord == Some(Ordering::Greater),
                    matches!(ord, Some(Ordering::Greater) | Some(Ordering::Equal)),
                ];
                for k in [LT, LE, GT, GE] {
                    if t(k) != exp[k] {
                        out.push(Failure::new(
                            format!("c04:{}:{}:model-mismatch", class, OPS[k].1),
                            what(&format!("the statement's order gives {} {}", OPS[k].0, exp[k])),
                            det("model-order", &format!("{} {}", OPS[k].0, exp[k])),
                        ));
                    }
                }
            }
        }
        Kind::Unrelated => {
            // "comparing values of unrelated types is an error"
            for k in [LT, LE, GT, GE] {
                if o[k] != B::E {
                    out.push(Failure::new(
                        format!("c04:{}:{}:no-error", class, OPS[k].1),
                        what(&format!("{} between unrelated types must be an error", OPS[k].0)),
                        det("unrelated-types-fail", "error"),
                    ));
                }
            }
        }
        Kind::SameTypeUnordered | Kind::Unspec => {}
    }
}

/// Laws that relate (a, b) to (b, a).
fn pair_sym(a: &V, b: &V, ab: &Obs, ba: &Obs, out: &mut Vec<Failure>) {
    let class = sig_class(a, b);
    if ab.iter().chain(ba.iter()).any(|x| *x == B::P) {
        return;
    }
    let det = |law: &str| {
        pair_detail(a, b, json!({"law": law, "a?b": show_obs(ab), "b?a": show_obs(ba)}))
    };
    if ab[EQ] != ba[EQ] {
        out.push(Failure::new(
            format!("c04:{}:eq-not-symmetric", class),
            format!("{} == {} is {} but {} == {} is {}", a.canon(), b.canon(), ab[EQ].show(), b.canon(), a.canon(), ba[EQ].show()),
            det("symmetric"),
        ));
    }
    if let Kind::Comparable { .. } = kind_of(a, b) {
        if ab[LT].is_bool() && ba[GT].is_bool() && ab[LT] != ba[GT] {
            out.push(Failure::new(
                format!("c04:{}:lt-gt-not-converse", class),
                format!("{} < {} is {} but {} > {} is {}", a.canon(), b.canon(), ab[LT].show(), b.canon(), a.canon(), ba[GT].show()),
                det("converse"),
            ));
        }
    }
}

fn class_of3(a: &V, b: &V, c: &V) -> String {
    let int = |v: &V| matches!(v, V::Int(_) | V::UInt(_));
    if int(a) && int(b) && int(c) {
        "int-uint".to_string()
    } else {
        pair_class(a, b)
    }
}

/// Transitivity on a triple of one class (callers pass NaN-free values of one listed class).
fn triple_laws(a: &V, b: &V, c: &V, ab: &Obs, bc: &Obs, ac: &Obs, out: &mut Vec<Failure>) {
    let class = class_of3(a, b, c);
    for (k, law) in [(LT, "lt-not-transitive"), (EQ, "eq-not-transitive"), (LE, "le-not-transitive")] {
        if ab[k] == B::T && bc[k] == B::T && ac[k] == B::F {
            let s = OPS[k].0;
            out.push(Failure::new(
                format!("c04:{}:{}", class, law),
                format!("{a} {s} {b} and {b} {s} {c} hold but {a} {s} {c} does not", a = a.canon(), b = b.canon(), c = c.canon(), s = s),
                json!({"kind": "triple", "a": vjson(a), "b": vjson(b), "c": vjson(c), "law": law,
                       "a?b": show_obs(ab), "b?c": show_obs(bc), "a?c": show_obs(ac)}),
            ));
        }
    }
}

// ---------------------------------------------------------------------------
// Non-triviality

fn extreme(v: &V) -> bool {
    match v {
        V::Int(i) => *i >= i64::MAX - 1 || *i <= i64::MIN + 1,
        V::UInt(u) => *u == 0 || *u >= i64::MAX as u64,
        V::F(f) => f.is_nan() || f.is_infinite() || *f == 0.0 || f.abs() == f64::MAX || f.abs() == f64::from_bits(1),
        V::Str(s) => s.is_empty(),
        V::Bytes(b) => b.is_empty(),
        V::Ts(s, _) => *s == TS_MIN_S || *s == TS_MAX_S,
        V::Dur(n) => n.unsigned_abs() == (DUR_MAX_MS * 1_000_000) as u128,
        _ => false,
    }
}

fn byte_subtle(x: &[u8], y: &[u8]) -> bool {
    if x == y {
        return false;
    }
    match x.iter().zip(y.iter()).position(|(p, q)| p != q) {
        None => true, // one is a proper prefix of the other
        Some(i) => x[i] >= 0x80 || y[i] >= 0x80,
    }
}

fn pair_nontrivial(a: &V, b: &V) -> bool {
    if extreme(a) || extreme(b) {
        return true;
    }
    if a.is_numeric() && b.is_numeric() && a.type_name() != b.type_name() {
        return true;
    }
    if compare(a, b) == Cmp::Ord(Some(Ordering::Equal)) && !a.same(b) {
        return true;
    }
    match (a, b) {
        (V::Str(x), V::Str(y)) => byte_subtle(x.as_bytes(), y.as_bytes()),
        (V::Bytes(x), V::Bytes(y)) => byte_subtle(x, y),
        (V::List(_) | V::Map(_), V::List(_) | V::Map(_)) => true,
        _ => false,
    }
}

fn list_nontrivial(l: &[V]) -> bool {
    if l.len() > 20 || l.iter().any(extreme) {
        return true;
    }
    for i in 0..l.len() {
        for j in (i + 1)..l.len() {
            if compare(&l[i], &l[j]) == Cmp::Ord(Some(Ordering::Equal)) {
                return true;
            }
        }
    }
    false
}

// ---------------------------------------------------------------------------
// Exhaustive pair matrices

struct Class {
    name: &'static str,
    idx: Vec<usize>,
}

/// All ordered pairs of `vals` (observation, local laws, model), then the converse laws on
/// (i, j)/(j, i), then transitivity over every triple of each class in `classes`.
fn matrix(acc: &mut Acc, opts: &Opts, sub: &str, vals: &[V], classes: &[Class]) {
    let n = vals.len();
    let cells: Vec<AtomicU32> = (0..n * n).map(|_| AtomicU32::new(0)).collect();
    par_range(acc, opts.threads, n * n, |idx, a| {
        let (i, j) = (idx / n, idx % n);
        let (x, y) = (&vals[i], &vals[j]);
        let mut out = Vec::new();
        let (o, evals) = observe(x, y, &mut out);
        cells[idx].store(enc(&o), AO::Relaxed);
        pair_local(x, y, &o, &mut out);
        let class = pair_class(x, y);
        a.case(sub, &format!("{} ? {}", x.canon(), y.canon()), i != j && pair_nontrivial(x, y) || (i == j && extreme(x)), &format!("pair:{}", class));
        a.eval_only(sub, evals.saturating_sub(1));
        match kind_of(x, y) {
            Kind::SameTypeUnordered => a.skip("ordering two lists/maps/nulls/types is not determined by the statement"),
            Kind::Unspec => a.skip("bool compared with a number is not determined by the statement"),
            _ => {}
        }
        a.sample(&format!("pair:{}", class), || json!({"a": x.canon(), "b": y.canon(), "answers": show_obs(&o),
            "literal_form": x.lit().zip(y.lit()).map(|(p, q)| format!("{} < {}", p, q))}));
        for f in out {
            a.fail(f);
        }
    });
    let obs: Vec<Obs> = cells.iter().map(|c| dec(c.load(AO::Relaxed)).unwrap_or([B::P; 6])).collect();
    // converse laws
    for i in 0..n {
        for j in i..n {
            let mut out = Vec::new();
            pair_sym(&vals[i], &vals[j], &obs[i * n + j], &obs[j * n + i], &mut out);
            for f in out {
                acc.fail(f);
            }
        }
    }
    acc.mark_exhaustive(sub, &format!("{}^2 ordered pairs x 6 operators x 2 forms; converse laws on every (i,j)/(j,i)", n));
    // transitivity
    for cl in classes {
        let m = cl.idx.len();
        let tsub = format!("{}-triples", sub);
        let cname = format!("triple:{}", cl.name);
        par_range(acc, opts.threads, m, |p, a| {
            let i = cl.idx[p];
            for &j in &cl.idx {
                for &k in &cl.idx {
                    let (x, y, z) = (&vals[i], &vals[j], &vals[k]);
                    let nt = pair_nontrivial(x, y) || pair_nontrivial(y, z) || pair_nontrivial(x, z);
                    a.case(&tsub, &format!("{} ? {} ? {}", x.canon(), y.canon(), z.canon()), nt, &cname);
                    let mut out = Vec::new();
                    triple_laws(x, y, z, &obs[i * n + j], &obs[j * n + k], &obs[i * n + k], &mut out);
                    for f in out {
                        a.fail(f);
                    }
                }
            }
        });
        acc.mark_exhaustive(&tsub, "every triple of each class, judged on the answers recorded for the pair matrix (no further rscel evaluations)");
    }
}

fn numeric_vals() -> Vec<V> {
    let mut v: Vec<V> = Vec::new();
    v.extend(int_pool().into_iter().map(V::Int));
    v.extend(uint_pool().into_iter().map(V::UInt));
    v.extend(f64_pool().into_iter().map(V::F));
    v
}

fn hetero_vals() -> Vec<V> {
    let mut v = vec![V::Int(1), V::Int(0), V::UInt(1), V::F(1.0), V::F(f64::NAN), V::Bool(true), V::Bool(false)];
    v.extend(misc_pool());
    v
}

fn m1(k: &str, v: V) -> V {
    let mut m = BTreeMap::new();
    m.insert(k.to_string(), v);
    V::Map(m)
}

fn m2(k1: &str, v1: V, k2: &str, v2: V) -> V {
    let mut m = BTreeMap::new();
    m.insert(k1.to_string(), v1);
    m.insert(k2.to_string(), v2);
    V::Map(m)
}

fn nested_vals() -> Vec<V> {
    let l = |v: Vec<V>| V::List(v);
    vec![
        l(vec![]),
        l(vec![V::Int(1)]),
        l(vec![V::UInt(1)]),
        l(vec![V::F(1.0)]),
        l(vec![V::Int(1), V::Int(2)]),
        l(vec![V::Int(2), V::Int(1)]),
        l(vec![V::Int(1), V::Int(2), V::Int(3)]),
        l(vec![V::UInt(1), V::F(2.0), V::Int(3)]),
        l(vec![l(vec![])]),
        l(vec![l(vec![V::Int(1)])]),
        l(vec![l(vec![V::UInt(1)]), l(vec![])]),
        l(vec![l(vec![V::Int(1)]), l(vec![])]),
        l(vec![V::F(f64::NAN)]),
        l(vec![V::s("a")]),
        l(vec![V::s("a"), V::s("b")]),
        l(vec![V::Null]),
        l(vec![V::UInt(u64::MAX)]),
        l(vec![V::Int(-1)]),
        l(vec![V::Int((1 << 53) + 1)]),
        l(vec![V::F(9007199254740992.0)]),
        l(vec![V::F(0.0)]),
        l(vec![V::F(-0.0)]),
        V::Map(BTreeMap::new()),
        m1("a", V::Int(1)),
        m1("a", V::UInt(1)),
        m1("a", V::F(1.0)),
        m1("a", V::Int(2)),
        m1("b", V::Int(1)),
        m1("a", V::F(f64::NAN)),
        m2("a", V::Int(1), "b", V::Int(2)),
        m2("a", V::Int(1), "b", V::UInt(2)),
        m2("a", V::Int(1), "c", V::Int(2)),
        m1("a", m1("x", l(vec![V::Int(1)]))),
        m1("a", m1("x", l(vec![V::UInt(1)]))),
        m1("a", m1("x", l(vec![V::Int(2)]))),
        m1("a", m1("x", l(vec![]))),
        l(vec![m1("a", V::Int(1))]),
        l(vec![m1("a", V::F(1.0))]),
        l(vec![V::Map(BTreeMap::new())]),
        m1("a", V::UInt(u64::MAX)),
        m1("a", V::Int(-1)),
    ]
}

// ---------------------------------------------------------------------------
// sort / min / max

/// true when the model order restricted to `l` is a total preorder (it is not when the
/// nearest-double rule ties a double to two different integers)
fn consistent_preorder(l: &[V]) -> bool {
    let n = l.len();
    let mut c = vec![Ordering::Equal; n * n];
    for i in 0..n {
        for j in 0..n {
            match compare(&l[i], &l[j]) {
                Cmp::Ord(Some(o)) => c[i * n + j] = o,
                _ => return false,
            }
        }
    }
    for i in 0..n {
        for j in 0..n {
            let ij = c[i * n + j];
            if ij == Ordering::Greater {
                continue;
            }
            for k in 0..n {
                let jk = c[j * n + k];
                if jk == Ordering::Greater {
                    continue;
                }
                let ik = c[i * n + k];
                // i <= j <= k  =>  i <= k, strictly when one step is strict
                if ik == Ordering::Greater {
                    return false;
                }
                if (ij == Ordering::Less || jk == Ordering::Less) && ik != Ordering::Less {
                    return false;
                }
            }
        }
    }
    true
}

fn mutually_comparable(l: &[V]) -> bool {
    for i in 0..l.len() {
        for j in i..l.len() {
            if !matches!(compare(&l[i], &l[j]), Cmp::Ord(Some(_))) {
                return false;
            }
        }
    }
    true
}

fn list_class(l: &[V]) -> String {
    let mut names: Vec<&str> = l
        .iter()
        .map(|v| match v {
            V::F(_) => "double",
            o => o.type_name(),
        })
        .collect();
    names.sort();
    names.dedup();
    if names.is_empty() {
        "empty".to_string()
    } else if names.len() > 3 {
        "mixed".to_string()
    } else {
        names.join("+")
    }
}

fn vlist_json(l: &[V]) -> Value {
    Value::Array(l.iter().map(vjson).collect())
}

/// how far the statement constrains sort/min/max over these elements
fn set_status(l: &[V]) -> &'static str {
    if l.iter().any(|v| v.has_nan()) {
        "nan"
    } else if !mutually_comparable(l) {
        "incomparable"
    } else if !consistent_preorder(l) {
        "non-transitive"
    } else {
        "comparable"
    }
}

fn check_sort(l: &[V], sub: &str, acc: &mut Acc) -> Vec<Failure> {
    let mut out = Vec::new();
    let status = set_status(l);
    let asserted = status == "comparable" || status == "non-transitive";
    let cls = if asserted { format!("{}{}", list_class(l), if status == "non-transitive" { ":non-transitive" } else { "" }) } else { status.to_string() };
    let canon = format!("sort {}", V::List(l.to_vec()).canon());
    acc.case(sub, &canon, asserted && list_nontrivial(l), &format!("sort:{}{}", cls, if l.len() > 20 { ":long" } else { "" }));
    if !asserted {
        acc.skip("sort of elements that are not mutually comparable (or hold NaN): no panic only");
    }
    let lv = V::List(l.to_vec());
    let mut forms: Vec<(&str, String, Vec<(String, V)>)> = vec![("bound", "l.sort()".to_string(), vec![("l".to_string(), lv.clone())])];
    if let Some(s) = lv.lit() {
        forms.push(("literal", format!("{}.sort()", s), vec![]));
    }
    let mut want: Vec<String> = l.iter().map(|v| v.canon()).collect();
    want.sort();
    for (k, (form, src, binds)) in forms.iter().enumerate() {
        let r = eval(src, binds);
        if k > 0 {
            acc.eval_only(sub, 1);
        }
        let detail = |mode: &str| json!({"kind": "sort", "list": vlist_json(l), "form": form, "source": src, "mode": mode, "actual": r.res.sum().show()});
        if let Res::Panic(p) = &r.res {
            out.push(Failure::new(
                format!("c04:sort:{}:panic-{}", status, p.kind()),
                format!("{} with l = {} ({} form) panicked: {} at {}", src, lv.canon(), form, p.msg, p.loc),
                detail("panic"),
            ));
            continue;
        }
        if !asserted {
            continue;
        }
        let got = match r.res.value() {
            Some(V::List(g)) => g,
            _ => {
                out.push(Failure::new(
                    format!("c04:sort:{}:not-a-list", cls),
                    format!("{} with l = {} ({} form) -> {}; a sorted list is required", src, lv.canon(), form, r.res.sum().show()),
                    detail("not-a-list"),
                ));
                continue;
            }
        };
        let mut have: Vec<String> = got.iter().map(|v| v.canon()).collect();
        have.sort();
        if have != want {
            out.push(Failure::new(
                format!("c04:sort:{}:not-a-permutation", cls),
                format!("{}.sort() ({} form) -> {}: not a permutation of the input", lv.canon(), form, V::List(got.clone()).canon()),
                detail("not-a-permutation"),
            ));
            continue;
        }
        for w in got.windows(2) {
            if !matches!(compare(&w[0], &w[1]), Cmp::Ord(Some(Ordering::Less)) | Cmp::Ord(Some(Ordering::Equal))) {
                out.push(Failure::new(
                    format!("c04:sort:{}:not-ordered", cls),
                    format!(
                        "{}.sort() ({} form) -> {}: {} stands before {}",
                        lv.canon(), form, V::List(got.clone()).canon(), w[0].canon(), w[1].canon()
                    ),
                    detail("not-ordered"),
                ));
                break;
            }
        }
        if k == 0 {
            acc.sample(&format!("sort:{}", cls), || json!({"input": lv.canon(), "sorted": V::List(got.clone()).canon()}));
        }
    }
    out
}

enum Extreme {
    /// index of the first least/greatest argument
    Exact(usize),
    /// the order on the arguments is not transitive: any argument nothing is strictly beyond
    AnyOf(Vec<usize>),
    Open,
}

fn extreme_arg(args: &[V], is_max: bool) -> Extreme {
    if !mutually_comparable(args) {
        return Extreme::Open;
    }
    let beyond = if is_max { Ordering::Greater } else { Ordering::Less };
    let cands: Vec<usize> = (0..args.len())
        .filter(|&i| (0..args.len()).all(|j| compare(&args[j], &args[i]) != Cmp::Ord(Some(beyond))))
        .collect();
    if cands.is_empty() {
        return Extreme::Open;
    }
    if consistent_preorder(args) {
        Extreme::Exact(cands[0])
    } else {
        Extreme::AnyOf(cands)
    }
}

fn check_minmax(is_max: bool, args: &[V], sub: &str, acc: &mut Acc) -> Vec<Failure> {
    let mut out = Vec::new();
    let fname = if is_max { "max" } else { "min" };
    let cls = list_class(args);
    let exp = extreme_arg(args, is_max);
    let canon = format!("{}({})", fname, args.iter().map(|v| v.canon()).collect::<Vec<_>>().join(", "));
    // a tie for the extreme position is what makes "first" observable
    let tie = match &exp {
        Extreme::Exact(i) => (0..args.len()).any(|j| j != *i && compare(&args[j], &args[*i]) == Cmp::Ord(Some(Ordering::Equal))),
        Extreme::AnyOf(_) => true,
        Extreme::Open => false,
    };
    let label = match &exp {
        Extreme::Exact(_) => format!("{}:{}{}", fname, cls, if tie { ":tie" } else { "" }),
        Extreme::AnyOf(_) => format!("{}:{}:non-transitive", fname, cls),
        Extreme::Open => format!("{}:{}", fname, set_status(args)),
    };
    acc.case(sub, &canon, tie || (!matches!(exp, Extreme::Open) && args.iter().any(extreme)), &label);
    if matches!(exp, Extreme::Open) {
        acc.skip("min/max of arguments that are not mutually comparable (or hold NaN): no panic only");
    }
    let names: Vec<String> = (0..args.len()).map(|i| format!("a{}", i)).collect();
    let binds: Vec<(String, V)> = names.iter().cloned().zip(args.iter().cloned()).collect();
    let mut forms: Vec<(&str, String, Vec<(String, V)>)> = vec![("bound", format!("{}({})", fname, names.join(", ")), binds)];
    let lits: Option<Vec<String>> = args.iter().map(|v| v.lit()).collect();
    if let Some(ls) = lits {
        forms.push(("literal", format!("{}({})", fname, ls.join(", ")), vec![]));
    }
    for (k, (form, src, binds)) in forms.iter().enumerate() {
        let r = eval(src, binds);
        if k > 0 {
            acc.eval_only(sub, 1);
        }
        let detail = |expected: String| json!({"kind": "minmax", "max": is_max, "args": vlist_json(args), "form": form, "source": src,
                                               "expected": expected, "actual": r.res.sum().show()});
        if let Res::Panic(p) = &r.res {
            out.push(Failure::new(
                format!("c04:{}:{}:panic-{}", fname, set_status(args), p.kind()),
                format!("{} ({} form) panicked: {} at {}", canon, form, p.msg, p.loc),
                detail("no panic".into()),
            ));
            continue;
        }
        let ok_set: Vec<usize> = match &exp {
            Extreme::Exact(i) => vec![*i],
            Extreme::AnyOf(c) => c.clone(),
            Extreme::Open => continue,
        };
        let got = r.res.value();
        let hit = got.as_ref().map_or(false, |g| ok_set.iter().any(|i| args[*i].same(g)));
        if !hit {
            let expected = match &exp {
                Extreme::Exact(i) => format!("{} (argument {})", args[*i].canon(), i),
                _ => format!("one of {}", ok_set.iter().map(|i| args[*i].canon()).collect::<Vec<_>>().join(", ")),
            };
            let mode = match (&r.res, &exp) {
                (Res::Err(_), _) => "error",
                (_, Extreme::Exact(i)) if got.as_ref().map_or(false, |g| compare(g, &args[*i]) == Cmp::Ord(Some(Ordering::Equal))) => "not-the-first",
                _ => "wrong-argument",
            };
            out.push(Failure::new(
                format!("c04:{}:{}:{}", fname, if tie { "tie" } else { "no-tie" }, mode),
                format!("{} ({} form) -> {} but the first {} argument is {}", canon, form, r.res.sum().show(), if is_max { "greatest" } else { "least" }, expected),
                detail(expected.clone()),
            ));
        }
        if k == 0 {
            acc.sample(&label, || json!({"call": canon, "result": r.res.sum().show()}));
        }
    }
    out
}

fn check_zero_args(sub: &str, acc: &mut Acc) -> Vec<Failure> {
    let mut out = Vec::new();
    for f in ["min", "max"] {
        let src = format!("{}()", f);
        let r = eval(&src, &[]);
        acc.case(sub, &src, true, "zero-args");
        if !matches!(r.res, Res::Err(_)) {
            out.push(Failure::new(
                format!("c04:{}:zero-args:{}", f, if r.res.panic().is_some() { "panic" } else { "no-error" }),
                format!("{} -> {}; at least one argument is required", src, r.res.sum().show()),
                json!({"kind": "zero-args", "actual": r.res.sum().show()}),
            ));
        }
    }
    out
}

// ---------------------------------------------------------------------------
// Random cases

#[derive(Clone, Debug)]
enum Case {
    Pair(V, V),
    Triple(&'static str, V, V, V),
    Sort(Vec<V>),
    MinMax(bool, Vec<V>),
}

const CLASSES: [&str; 9] = ["int-uint", "numeric", "double", "string", "bytes", "bool", "timestamp", "duration", "any"];

fn next_f64(f: f64, up: bool) -> f64 {
    if f.is_nan() || f.is_infinite() {
        return f;
    }
    if f == 0.0 {
        return if up { f64::from_bits(1) } else { -f64::from_bits(1) };
    }
    let b = f.to_bits();
    let away = (f > 0.0) == up;
    f64::from_bits(if away { b.wrapping_add(1) } else { b.wrapping_sub(1) })
}

/// the same (or a neighbouring) number in another spelling
fn respell(v: &V, g: &mut G) -> V {
    let exact: Option<i128> = match v {
        V::Int(i) => Some(*i as i128),
        V::UInt(u) => Some(*u as i128),
        V::F(f) if f.is_finite() && f.fract() == 0.0 && f.abs() < 3.0e19 => Some(*f as i128),
        _ => None,
    };
    let as_f = match v {
        V::Int(i) => *i as f64,
        V::UInt(u) => *u as f64,
        V::F(f) => *f,
        _ => return v.clone(),
    };
    match g.below(8) {
        0 => exact.and_then(|x| i64::try_from(x).ok()).map(V::Int).unwrap_or_else(|| v.clone()),
        1 => exact.and_then(|x| u64::try_from(x).ok()).map(V::UInt).unwrap_or_else(|| v.clone()),
        2 => V::F(as_f),
        3 => V::F(next_f64(as_f, true)),
        4 => V::F(next_f64(as_f, false)),
        // the same 64 bits read as the other integer type
        5 => match v {
            V::Int(i) => V::UInt(*i as u64),
            V::UInt(u) => V::Int(*u as i64),
            o => o.clone(),
        },
        6 => match v {
            V::Int(i) => V::Int(i.wrapping_add(1)),
            V::UInt(u) => V::UInt(u.wrapping_sub(1)),
            V::F(f) => V::Int(if f.is_finite() && f.abs() < 9.0e18 { *f as i64 } else { 0 }),
            o => o.clone(),
        },
        _ => match v {
            V::Int(i) => V::Int(i.wrapping_sub(1)),
            V::UInt(u) => V::UInt(u.wrapping_add(1)),
            V::F(f) => V::UInt(if f.is_finite() && *f >= 0.0 && *f < 1.8e19 { *f as u64 } else { 0 }),
            o => o.clone(),
        },
    }
}

fn gen_in_class(g: &mut G, cls: &str) -> V {
    match cls {
        "int-uint" => {
            if g.flag() {
                V::Int(gen_int(g))
            } else {
                V::UInt(gen_uint(g))
            }
        }
        "numeric" => {
            let v = match g.below(3) {
                0 => V::Int(gen_int(g)),
                1 => V::UInt(gen_uint(g)),
                _ => V::F(gen_f64(g)),
            };
            if v.has_nan() {
                V::F(0.0)
            } else {
                v
            }
        }
        "double" => V::F(gen_f64(g)),
        "string" => V::Str(gen_string(g, 6)),
        "bytes" => V::Bytes(gen_bytes(g, 6)),
        "bool" => V::Bool(g.flag()),
        "timestamp" => {
            let (s, n) = gen_ts(g);
            V::Ts(s, n)
        }
        "duration" => V::Dur(clamp_dur(gen_dur(g))),
        _ => gen_value(g, 2),
    }
}

/// a value related to `v`: the same value, a respelling, an extension, a neighbour
fn gen_related(g: &mut G, cls: &str, v: &V) -> V {
    match g.below(4) {
        0 => return gen_in_class(g, cls),
        1 => return v.clone(),
        _ => {}
    }
    match v {
        V::Int(_) | V::UInt(_) | V::F(_) => {
            let r = respell(v, g);
            match cls {
                "int-uint" if matches!(r, V::F(_)) => v.clone(),
                "double" if !matches!(r, V::F(_)) => v.clone(),
                _ => r,
            }
        }
        V::Str(s) => {
            let mut t = s.clone();
            if g.flag() {
                t.push_str(g.pick_str(STR_ALPHABET));
            } else {
                t.pop();
            }
            V::Str(t)
        }
        V::Bytes(b) => {
            let mut t = b.clone();
            match g.below(3) {
                0 => t.push(g.byte()),
                1 => {
                    t.pop();
                }
                _ => {
                    if let Some(x) = t.last_mut() {
                        *x ^= 0x80;
                    }
                }
            }
            V::Bytes(t)
        }
        V::Ts(s, n) => {
            if g.flag() {
                V::Ts(*s, if *n == 0 { 1 } else { n - 1 })
            } else if *s < TS_MAX_S {
                V::Ts(s + 1, 0)
            } else {
                V::Ts(s - 1, *n)
            }
        }
        V::Dur(n) => V::Dur(clamp_dur(if g.flag() { n + 1 } else { -*n })),
        V::List(l) => {
            let mut t = l.clone();
            match g.below(4) {
                0 => {
                    t.pop();
                }
                1 => t.push(gen_value(g, 1)),
                2 => t.reverse(),
                _ => {
                    if !t.is_empty() {
                        let i = g.below(t.len());
                        t[i] = gen_related(g, "any", &t[i].clone());
                    }
                }
            }
            V::List(t)
        }
        V::Map(m) => {
            let mut t = m.clone();
            let keys: Vec<String> = t.keys().cloned().collect();
            match g.below(3) {
                0 => {
                    if let Some(k) = keys.first() {
                        t.remove(k);
                    }
                }
                1 => {
                    t.insert(g.pick_str(KEY_ALPHABET).to_string(), gen_value(g, 1));
                }
                _ => {
                    if !keys.is_empty() {
                        let k = keys[g.below(keys.len())].clone();
                        let nv = gen_related(g, "any", &t[&k].clone());
                        t.insert(k, nv);
                    }
                }
            }
            V::Map(t)
        }
        o => o.clone(),
    }
}

fn gen_container(g: &mut G) -> V {
    let n = g.below(4);
    if g.flag() {
        V::List((0..n).map(|_| gen_value(g, 2)).collect())
    } else {
        let mut m = BTreeMap::new();
        for _ in 0..n {
            m.insert(g.pick_str(KEY_ALPHABET).to_string(), gen_value(g, 2));
        }
        V::Map(m)
    }
}

/// `len` elements drawn from a few base values of one class (duplicates and respellings)
fn gen_multiset(g: &mut G, cls: &str, max_base: usize, len: usize) -> Vec<V> {
    let nb = 1 + g.below(max_base);
    let base: Vec<V> = (0..nb).map(|_| gen_in_class(g, cls)).collect();
    (0..len)
        .map(|_| {
            let v = g.pick(&base).clone();
            if cls == "numeric" && g.chance(96) {
                let r = respell(&v, g);
                if r.has_nan() {
                    v
                } else {
                    r
                }
            } else {
                v
            }
        })
        .collect()
}

fn gen_case(g: &mut G) -> Case {
    match g.below(10) {
        0..=3 => {
            let cls = match g.below(12) {
                0 | 1 => "int-uint",
                2 | 3 | 4 => "numeric",
                5 => "double",
                6 => "string",
                7 => "bytes",
                8 => "timestamp",
                9 => "duration",
                10 => "any",
                _ => "container",
            };
            if cls == "container" {
                let a = gen_container(g);
                let b = gen_related(g, "any", &a);
                return Case::Pair(a, b);
            }
            let a = if cls == "numeric" && g.chance(24) { V::F(f64::NAN) } else { gen_in_class(g, cls) };
            let b = gen_related(g, cls, &a);
            if g.flag() {
                Case::Pair(a, b)
            } else {
                Case::Pair(b, a)
            }
        }
        4 | 5 => {
            // transitivity only within the classes the statement lists
            let cls = *g.pick(&["int-uint", "double", "string", "bytes", "bool", "timestamp", "duration"]);
            let a = gen_in_class(g, cls);
            let b = gen_related(g, cls, &a);
            let c = if g.flag() { gen_related(g, cls, &b) } else { gen_related(g, cls, &a) };
            Case::Triple(cls, a, b, c)
        }
        6 | 7 => {
            let cls = CLASSES[g.below(CLASSES.len())];
            let len = g.below(25);
            Case::Sort(gen_multiset(g, cls, 8, len))
        }
        _ => {
            let cls = CLASSES[g.below(CLASSES.len())];
            let len = 1 + g.below(6);
            Case::MinMax(g.flag(), gen_multiset(g, cls, 4, len))
        }
    }
}

/// full check of one unordered pair: both directions, local and converse laws
fn check_pair(a: &V, b: &V, sub: &str, acc: &mut Acc) -> Vec<Failure> {
    let mut out = Vec::new();
    let (ab, n1) = observe(a, b, &mut out);
    let (ba, n2) = observe(b, a, &mut out);
    let class = pair_class(a, b);
    acc.case(sub, &format!("{} ? {}", a.canon(), b.canon()), pair_nontrivial(a, b) || (a.same(b) && extreme(a)), &format!("pair:{}", class));
    acc.eval_only(sub, (n1 + n2).saturating_sub(1));
    match kind_of(a, b) {
        Kind::SameTypeUnordered => acc.skip("ordering two lists/maps/nulls/types is not determined by the statement"),
        Kind::Unspec => acc.skip("bool compared with a number is not determined by the statement"),
        _ => {}
    }
    pair_local(a, b, &ab, &mut out);
    pair_local(b, a, &ba, &mut out);
    pair_sym(a, b, &ab, &ba, &mut out);
    out
}

fn check_triple(cls: &str, a: &V, b: &V, c: &V, sub: &str, acc: &mut Acc) -> Vec<Failure> {
    let mut out = Vec::new();
    let (ab, n1) = observe(a, b, &mut out);
    let (bc, n2) = observe(b, c, &mut out);
    let (ac, n3) = observe(a, c, &mut out);
    let nt = pair_nontrivial(a, b) || pair_nontrivial(b, c) || pair_nontrivial(a, c);
    acc.case(sub, &format!("{} ? {} ? {}", a.canon(), b.canon(), c.canon()), nt, &format!("triple:{}", cls));
    acc.eval_only(sub, (n1 + n2 + n3).saturating_sub(1));
    pair_local(a, b, &ab, &mut out);
    pair_local(b, c, &bc, &mut out);
    pair_local(a, c, &ac, &mut out);
    if a.has_nan() || b.has_nan() || c.has_nan() {
        acc.skip("transitivity is stated for doubles without NaN");
    } else {
        triple_laws(a, b, c, &ab, &bc, &ac, &mut out);
    }
    out
}

fn check_case(c: &Case, sub: &str, acc: &mut Acc) -> Vec<Failure> {
    match c {
        Case::Pair(a, b) => check_pair(a, b, sub, acc),
        Case::Triple(cls, a, b, c) => check_triple(cls, a, b, c, sub, acc),
        Case::Sort(l) => check_sort(l, sub, acc),
        Case::MinMax(mx, args) => check_minmax(*mx, args, sub, acc),
    }
}

// ---------------------------------------------------------------------------

fn all_lists(alpha: &[V], max_len: usize) -> Vec<Vec<V>> {
    let mut out: Vec<Vec<V>> = vec![vec![]];
    let mut cur: Vec<Vec<V>> = vec![vec![]];
    for _ in 0..max_len {
        let mut next = Vec::new();
        for l in &cur {
            for a in alpha {
                let mut t = l.clone();
                t.push(a.clone());
                next.push(t);
            }
        }
        out.extend(next.iter().cloned());
        cur = next;
    }
    out
}

/// values around 2^53 where the nearest-double rule ties one double to two integers
fn rounding_alpha() -> Vec<V> {
    vec![
        V::Int(1 << 53),
        V::Int((1 << 53) + 1),
        V::F(9007199254740992.0),
        V::UInt((1 << 53) + 1),
        V::F(9007199254740994.0),
    ]
}

/// lists of 21..24 elements (beyond the insertion-sort range of the standard sort) that are
/// constant except for one or two odd elements: a rounding tie, a NaN, a value of another type
fn long_lists() -> Vec<Vec<V>> {
    let mut out = Vec::new();
    let big = 1i64 << 53;
    for len in 21..=24usize {
        for p in 0..len {
            for d in [1, 3, 10] {
                let q = (p + d) % len;
                let mut l = vec![V::Int(big); len];
                l[p] = V::Int(big + 1);
                l[q] = V::F(big as f64);
                out.push(l);
            }
            let mut l = vec![V::F(0.0); len];
            l[p] = V::F(f64::NAN);
            out.push(l);
            let mut l = vec![V::Int(0); len];
            l[p] = V::Null;
            out.push(l);
            let mut l = vec![V::s("a"); len];
            l[p] = V::Int(1);
            out.push(l);
            let mut l = vec![V::Int(1); len];
            l[p] = V::UInt(1);
            l[(p + 7) % len] = V::F(1.0);
            out.push(l);
        }
    }
    out
}

fn pool_lists() -> Vec<Vec<V>> {
    let pools: Vec<Vec<V>> = vec![
        int_pool().into_iter().map(V::Int).chain(uint_pool().into_iter().map(V::UInt)).collect(),
        f64_pool().into_iter().filter(|f| !f.is_nan()).map(V::F).collect(),
        numeric_vals().into_iter().filter(|v| !v.has_nan()).collect(),
        str_pool().into_iter().map(V::Str).collect(),
        bytes_pool().into_iter().map(V::Bytes).collect(),
        ts_pool().into_iter().map(|(s, n)| V::Ts(s, n)).collect(),
        dur_pool().into_iter().map(V::Dur).collect(),
        vec![V::Bool(true), V::Bool(false), V::Bool(true), V::Bool(false), V::Bool(false)],
    ];
    let mut out = Vec::new();
    for p in pools {
        let n = p.len();
        let step = if n > 60 { 5 } else { 1 };
        let mut r = 0;
        while r < n {
            let mut l: Vec<V> = (0..n.min(24)).map(|k| p[(r + k * if n > 60 { 3 } else { 1 }) % n].clone()).collect();
            out.push(l.clone());
            l.reverse();
            out.push(l);
            r += step;
        }
    }
    out
}

fn idx_where(vals: &[V], f: impl Fn(&V) -> bool) -> Vec<usize> {
    (0..vals.len()).filter(|i| f(&vals[*i])).collect()
}

fn run(opts: &Opts, acc: &mut Acc) {
    // (1) numbers: every ordered pair of the joint pool; triples within int+uint and within doubles
    let nums = numeric_vals();
    let classes = vec![
        Class { name: "int-uint", idx: idx_where(&nums, |v| matches!(v, V::Int(_) | V::UInt(_))) },
        Class { name: "double", idx: idx_where(&nums, |v| matches!(v, V::F(f) if !f.is_nan())) },
    ];
    matrix(acc, opts, "numeric", &nums, &classes);

    // (2) the other comparable classes
    let others: Vec<(&'static str, Vec<V>)> = vec![
        ("string", str_pool().into_iter().map(V::Str).collect()),
        ("bytes", bytes_pool().into_iter().map(V::Bytes).collect()),
        ("bool", vec![V::Bool(false), V::Bool(true)]),
        ("timestamp", ts_pool().into_iter().map(|(s, n)| V::Ts(s, n)).collect()),
        ("duration", dur_pool().into_iter().map(V::Dur).collect()),
    ];
    for (name, vals) in &others {
        let cl = vec![Class { name, idx: (0..vals.len()).collect() }];
        matrix(acc, opts, name, vals, &cl);
    }

    // (3) one representative of every type against every other; nested containers
    matrix(acc, opts, "unrelated", &hetero_vals(), &[]);
    matrix(acc, opts, "nested", &nested_vals(), &[]);

    // (4) sort and min/max grids
    let mut lists = all_lists(&[V::Int(1), V::UInt(1), V::F(1.0), V::Int(2), V::UInt(0), V::F(-0.5)], 4);
    lists.extend(all_lists(&rounding_alpha(), 4));
    lists.extend(pool_lists());
    lists.extend(long_lists());
    par_chunks(acc, opts.threads, &lists, |l, a| {
        for f in check_sort(l, "sort-grid", a) {
            a.fail(f);
        }
    });
    acc.mark_exhaustive("sort-grid", "all lists of length <= 4 over {1,1u,1.0,2,0u,-0.5} and over {2^53, 2^53+1, 2^53 as double, (2^53+1)u, 2^53+2 as double}; rotations and reversals of every pool cut to 24 elements; constant lists of 21..24 elements with a rounding tie / a NaN / a foreign value / 1u and 1.0 among 1s at every position");
    let tuples: Vec<Vec<V>> = all_lists(&[V::Int(1), V::UInt(1), V::F(1.0), V::Int(2), V::UInt(0), V::Int(-1)], 4)
        .into_iter()
        .filter(|t| !t.is_empty())
        .collect();
    let mut tuples = tuples;
    tuples.extend(all_lists(&rounding_alpha(), 3).into_iter().filter(|t| !t.is_empty()));
    par_chunks(acc, opts.threads, &tuples, |t, a| {
        for mx in [false, true] {
            for f in check_minmax(mx, t, "minmax-grid", a) {
                a.fail(f);
            }
        }
    });
    for f in check_zero_args("minmax-grid", acc) {
        acc.fail(f);
    }
    acc.mark_exhaustive("minmax-grid", "min and max of all tuples of length 1..4 over {1,1u,1.0,2,0u,-1} and of length 1..3 over {2^53, 2^53+1, 2^53 as double, (2^53+1)u, 2^53+2 as double}; min(), max()");

    // (5) random
    let n = match (opts.tier, opts.is_dbg()) {
        (Tier::Quick, _) => 150_000,
        (_, false) => 1_200_000,
        (_, true) => 100_000,
    };
    random_genomes(acc, opts, "random", n, 400, |gn, a| {
        let mut g = G::new(gn);
        let c = gen_case(&mut g);
        check_case(&c, "random", a)
    });
}

fn vlist_unjson(j: Option<&Value>) -> Option<Vec<V>> {
    j?.as_array()?.iter().map(vunjson).collect()
}

fn replay(_opts: &Opts, d: &Value, acc: &mut Acc) {
    let kind = d.get("kind").and_then(|k| k.as_str()).unwrap_or("");
    let val = |k: &str| d.get(k).and_then(vunjson);
    let fails = match kind {
        "pair" => match (val("a"), val("b")) {
            (Some(a), Some(b)) => check_pair(&a, &b, "replay", acc),
            _ => {
                acc.inconclusive.push("C04 replay: pair without operands".into());
                return;
            }
        },
        "triple" => match (val("a"), val("b"), val("c")) {
            (Some(a), Some(b), Some(c)) => check_triple(&class_of3(&a, &b, &c), &a, &b, &c, "replay", acc),
            _ => {
                acc.inconclusive.push("C04 replay: triple without operands".into());
                return;
            }
        },
        "sort" => match vlist_unjson(d.get("list")) {
            Some(l) => check_sort(&l, "replay", acc),
            None => {
                acc.inconclusive.push("C04 replay: sort without list".into());
                return;
            }
        },
        "minmax" => match vlist_unjson(d.get("args")) {
            Some(l) => check_minmax(d.get("max").and_then(|m| m.as_bool()).unwrap_or(false), &l, "replay", acc),
            None => {
                acc.inconclusive.push("C04 replay: min/max without arguments".into());
                return;
            }
        },
        "zero-args" => check_zero_args("replay", acc),
        _ => {
            if let Some(hex) = d.get("genome_hex").and_then(|h| h.as_str()) {
                let gn = crate::engine::unhex(hex);
                let mut g = G::new(&gn);
                let c = gen_case(&mut g);
                check_case(&c, "replay", acc)
            } else {
                acc.inconclusive.push(format!("C04 replay: unknown kind {:?}", kind));
                return;
            }
        }
    };
    for f in fails {
        acc.fail(f);
    }
}

/// libFuzzer entry: one generated case
pub fn fuzz_case(genome: &[u8], acc: &mut Acc) -> Vec<Failure> {
    let mut g = G::new(genome);
    let c = gen_case(&mut g);
    check_case(&c, "fuzz", acc)
}
