//! C10 — emitted bytecode is well-formed on every path; the VM bounds every jump.

use super::Prop;
use crate::bcv;
use crate::engine::{guard, par_chunks, random_genomes, Acc, Failure, Opts};
use crate::expr::*;
use crate::g::G;
use crate::gen::{gen_env, gen_expr, Cfg, Ty};
use crate::run::{compile, err_class, exec_prog, Res, Res2};
use rscel::{BindContext, ByteCode, CelContext, CelError, Program};
use serde_json::{json, Value};

pub static PROP: Prop = Prop {
    id: "C10",
    rule: "programs: sources from the full-language generator (every operator, nested ||/&&/?:/match, calls, macros, \
           f-strings, has/coalesce) compiled with Program::from_source; Program::bytecode() and every nested block \
           (call arguments, macro bodies, f-string segments) is verified statically on ALL paths: jump targets in \
           [0,len], forward only, no pop below empty, equal heights at joins, exactly one value at the end; executing \
           never reports an empty stack. vm: generated instruction sequences over {Push,Pop,Dup,Not,Test,Add,Jmp,JmpCond} \
           injected through serde, jump distances drawn from in-range / ==end / one-past-end / far / i32::MAX / \
           negative-out-of-range / i32::MIN, compared with a reference interpreter (value, or error iff an out-of-range \
           jump, stack underflow or non-boolean condition is executed). Non-trivial = program with >=2 jumps or a nested \
           block; injected sequence that executes at least one jump; distinct by bytecode rendering.",
    assumptions: &[
        "the stack-effect table in DESIGN 3.5 (transcribed from the VM's step function) defines 'balanced'",
        "compiler-emitted control flow is forward-only, so 'dist >= 0' is required of emitted code (the VM itself supports backward jumps)",
    ],
    run,
    replay,
    both_profiles: super::always_both,
};

fn bc_of(p: &Program) -> Vec<ByteCode> {
    p.bytecode().iter().cloned().collect()
}

fn render_bc(b: &[ByteCode]) -> String {
    b.iter().map(|x| format!("{:?}", x)).collect::<Vec<_>>().join("; ")
}

pub fn check_source(src: &str, binds: &[(String, crate::val::V)], sub: &str, class: &str, acc: &mut Acc) -> Vec<Failure> {
    let prog = match compile(src) {
        Res2::Ok(p) => p,
        Res2::Err(_) => {
            acc.case(sub, src, false, "does-not-compile");
            return vec![];
        }
        Res2::Panic(_) => {
            acc.case(sub, src, false, "compile-panics");
            return vec![]; // C01 owns panics
        }
    };
    let bc = bc_of(&prog);
    let rendering = render_bc(&bc);
    let jumps = bcv::count_jumps(&bc);
    let nested = bcv::has_nested(&bc);
    acc.case(sub, &rendering, jumps >= 2 || nested, class);
    acc.class(if bc.len() == 1 { "folded-to-constant" } else { "has-code" });
    if jumps >= 2 {
        acc.class("jumps>=2");
    }
    if nested {
        acc.class("nested-block");
    }
    let mut out = Vec::new();
    match bcv::verify(&bc) {
        Ok(st) => {
            acc.sample(&format!("{}:{}", class, if nested { "nested" } else if jumps >= 2 { "jumps" } else { "plain" }), || {
                json!({"source": src, "bytecode": rendering, "blocks": st.blocks, "jumps": st.jumps, "max_stack": st.max_height})
            });
        }
        Err(e) if e.starts_with(bcv::UNKNOWN_OPCODE) => {
            acc.skip("program uses an instruction the verifier does not know: only the dynamic check applies");
        }
        Err(e) => {
            out.push(Failure::new(
                format!("c10:static:{}", e.split(':').nth(1).unwrap_or("").trim().split(' ').take(3).collect::<Vec<_>>().join("-")),
                format!("{} compiles to ill-formed bytecode: {}", src, e),
                json!({"kind": "source", "source": src, "bytecode": rendering, "problem": e}),
            ));
        }
    }
    // dynamic cross-check: the executed path never finds the stack empty
    let r = exec_prog(&prog, binds);
    acc.eval_only(sub, 1);
    if let Res::Err(CelError::Runtime(m)) = &r {
        if m.contains("No value on stack") || m.contains("Jump target out of range") {
            out.push(Failure::new(
                "c10:dynamic:stack-or-jump-error",
                format!("{} executed into a VM structural error: {}", src, m),
                json!({"kind": "source", "source": src, "bytecode": rendering, "problem": m}),
            ));
        }
    }
    out
}

fn check_generated(genome: &[u8], acc: &mut Acc) -> Vec<Failure> {
    let mut g = G::new(genome);
    let mut cfg = Cfg::full();
    cfg.map_iter = true;
    cfg.clock = true;
    cfg.max_depth = 6;
    let env = gen_env(&mut g, &cfg);
    let ty = *g.pick(&[Ty::Any, Ty::Bool, Ty::Bool, Ty::Int, Ty::Str, Ty::List]);
    let e = gen_expr(&mut g, &cfg, &env, ty);
    let src = render(&e, Parens::Minimal, Space::Single, &mut g);
    let cons = e.constructs();
    let class = if cons.contains("match") {
        "match"
    } else if cons.contains("ternary") {
        "ternary"
    } else if cons.contains("or") || cons.contains("and") {
        "logic"
    } else if cons.contains("call") {
        "call"
    } else {
        "other"
    };
    check_source(&src, &env.bindings(), "programs", class, acc)
}

/// control-flow-dense expressions: nested || && ?: match with variable operands
fn gen_cf(g: &mut G, depth: u32) -> E {
    if depth == 0 || g.below(5) == 0 {
        return match g.below(6) {
            0 => var("p"),
            1 => var("q"),
            2 => var("i"),
            3 => E::Lit(crate::val::V::Bool(g.flag())),
            4 => bin(Op::Lt, var("i"), ilit(g.below(5) as i64)),
            _ => call("f", vec![var("i")]),
        };
    }
    let d = depth - 1;
    match g.below(9) {
        0 | 1 => bin(Op::Or, gen_cf(g, d), gen_cf(g, d)),
        2 | 3 => bin(Op::And, gen_cf(g, d), gen_cf(g, d)),
        4 | 5 => E::Tern(Box::new(gen_cf(g, d)), Box::new(gen_cf(g, d)), Box::new(gen_cf(g, d))),
        6 => {
            let n = g.below(4);
            let mut cases = Vec::new();
            for _ in 0..n {
                let pat = match g.below(4) {
                    0 => Pat::Any,
                    1 => Pat::Type(g.pick_str(&["int", "bool", "string"]).to_string()),
                    2 => Pat::Cmp(None, ilit(g.below(4) as i64)),
                    _ => Pat::Cmp(Some(*g.pick(&[Op::Lt, Op::Ge, Op::Ne])), gen_cf(g, 0)),
                };
                cases.push((pat, gen_cf(g, d)));
            }
            E::Match(Box::new(gen_cf(g, d)), cases)
        }
        7 => E::Not(1, Box::new(gen_cf(g, d))),
        _ => method(E::List(vec![gen_cf(g, d), var("i")]), g.pick_str(&["all", "exists", "map", "filter"]), vec![var("x"), gen_cf(g, d)]),
    }
}

fn check_cf(genome: &[u8], acc: &mut Acc) -> Vec<Failure> {
    let mut g = G::new(genome);
    let depth = 1 + g.below(6) as u32;
    let e = gen_cf(&mut g, depth);
    let src = render(&e, Parens::Minimal, Space::Single, &mut g);
    let binds = vec![
        ("p".to_string(), crate::val::V::Bool(g.flag())),
        ("q".to_string(), crate::val::V::Bool(g.flag())),
        ("i".to_string(), crate::val::V::Int(g.range(-2, 5))),
    ];
    check_source(&src, &binds, "controlflow", "controlflow", acc)
}

// ---------------------------------------------------------------------------
// VM clause: injected instruction sequences

#[derive(Clone, Debug, PartialEq)]
enum Ins {
    PushI(i64),
    PushB(bool),
    Pop,
    Dup,
    Not,
    Test,
    Add,
    Jmp(i32),
    JmpCond(bool, i32),
}

#[derive(Clone, Copy, Debug, PartialEq)]
enum Rv {
    I(i64),
    B(bool),
    E,
}

fn truthy(v: Rv) -> bool {
    match v {
        Rv::I(i) => i != 0,
        Rv::B(b) => b,
        Rv::E => false,
    }
}

/// Reference interpreter for the injected subset. Ok(value) or Err(reason).
fn ref_run(p: &[Ins]) -> (Result<Rv, &'static str>, usize) {
    let mut st: Vec<Rv> = Vec::new();
    let mut pc = 0usize;
    let mut jumps_executed = 0usize;
    let len = p.len() as i64;
    macro_rules! pop {
        () => {
            match st.pop() {
                Some(v) => v,
                None => return (Err("stack underflow"), jumps_executed),
            }
        };
    }
    let mut steps = 0;
    while pc < p.len() {
        steps += 1;
        if steps > 10_000 {
            return (Err("step limit"), jumps_executed);
        }
        let ins = &p[pc];
        pc += 1;
        let mut jump = |pc: &mut usize, d: i32| -> Result<(), &'static str> {
            let t = *pc as i64 + d as i64;
            if t < 0 || t > len {
                return Err("jump out of range");
            }
            *pc = t as usize;
            Ok(())
        };
        match ins {
            Ins::PushI(i) => st.push(Rv::I(*i)),
            Ins::PushB(b) => st.push(Rv::B(*b)),
            Ins::Pop => {
                pop!();
            }
            Ins::Dup => {
                let v = pop!();
                st.push(v);
                st.push(v);
            }
            Ins::Not => {
                let v = pop!();
                st.push(if v == Rv::E { Rv::E } else { Rv::B(!truthy(v)) });
            }
            Ins::Test => {
                let v = pop!();
                st.push(if v == Rv::E { Rv::E } else { Rv::B(truthy(v)) });
            }
            Ins::Add => {
                let b = pop!();
                let a = pop!();
                let r = match (a, b) {
                    (Rv::E, _) | (_, Rv::E) => Rv::E,
                    (Rv::B(_), Rv::B(_)) => Rv::E,
                    (x, y) => {
                        let xi = match x {
                            Rv::I(i) => i,
                            Rv::B(b) => b as i64,
                            Rv::E => 0,
                        };
                        let yi = match y {
                            Rv::I(i) => i,
                            Rv::B(b) => b as i64,
                            Rv::E => 0,
                        };
                        match xi.checked_add(yi) {
                            Some(s) => Rv::I(s),
                            None => Rv::E,
                        }
                    }
                };
                st.push(r);
            }
            Ins::Jmp(d) => {
                jumps_executed += 1;
                if let Err(e) = jump(&mut pc, *d) {
                    return (Err(e), jumps_executed);
                }
            }
            Ins::JmpCond(when, d) => {
                let v = pop!();
                let take = match v {
                    Rv::B(b) => b == *when,
                    Rv::E => !*when,
                    Rv::I(_) => return (Err("non-boolean condition"), jumps_executed),
                };
                if take {
                    jumps_executed += 1;
                    if let Err(e) = jump(&mut pc, *d) {
                        return (Err(e), jumps_executed);
                    }
                }
            }
        }
    }
    match st.pop() {
        Some(Rv::E) => (Err("error value"), jumps_executed),
        Some(v) => (Ok(v), jumps_executed),
        None => (Err("empty stack at end"), jumps_executed),
    }
}

fn ins_json(i: &Ins) -> Value {
    match i {
        Ins::PushI(v) => json!({"Push": {"Int": v}}),
        Ins::PushB(b) => json!({"Push": {"Bool": b}}),
        Ins::Pop => json!("Pop"),
        Ins::Dup => json!("Dup"),
        Ins::Not => json!("Not"),
        Ins::Test => json!("Test"),
        Ins::Add => json!("Add"),
        Ins::Jmp(d) => json!({"Jmp": d}),
        Ins::JmpCond(w, d) => json!({"JmpCond": {"when": if *w { "True" } else { "False" }, "dist": d}}),
    }
}

fn prog_json(p: &[Ins]) -> Value {
    json!({"details": {"source": null, "params": []}, "bytecode": {"inner": p.iter().map(ins_json).collect::<Vec<_>>()}})
}

fn gen_dist(g: &mut G, pc: usize, len: usize) -> i32 {
    let next = pc + 1;
    let room = (len - next) as i32;
    match g.below(10) {
        0..=4 => g.range(0, room as i64) as i32, // in range (incl. == end)
        5 => room,                               // exactly the end
        6 => room + 1,                           // one past the end
        7 => room + 1 + g.below(1000) as i32,    // far
        8 => *g.pick(&[i32::MAX, i32::MAX - 1, 1 << 30]),
        _ => {
            // negative and out of range: target < 0 (never a loop)
            let lo = -(next as i64) - 1;
            *g.pick(&[lo as i32, lo as i32 - 1, lo as i32 - 1000, i32::MIN, i32::MIN + 1])
        }
    }
}

fn gen_ins_seq(g: &mut G) -> Vec<Ins> {
    let len = 1 + g.below(14);
    let mut v = Vec::new();
    for pc in 0..len {
        // start with a couple of pushes most of the time so that deeper VM logic is reached
        if pc < 2 && !g.chance(24) {
            v.push(if g.flag() { Ins::PushI(g.range(-3, 5)) } else { Ins::PushB(g.flag()) });
            continue;
        }
        v.push(match g.below(12) {
            0 | 1 | 2 => Ins::PushI(g.range(-3, 5)),
            3 | 4 => Ins::PushB(g.flag()),
            5 => Ins::Pop,
            6 => Ins::Dup,
            7 => Ins::Not,
            8 => Ins::Test,
            9 => Ins::Add,
            10 => Ins::Jmp(gen_dist(g, pc, len)),
            _ => Ins::JmpCond(g.flag(), gen_dist(g, pc, len)),
        });
    }
    v
}

fn check_injected(p: &[Ins], sub: &str, acc: &mut Acc) -> Vec<Failure> {
    let text = format!("{:?}", p);
    let (expected, jumps) = ref_run(p);
    let class = match &expected {
        Ok(_) => "vm:value".to_string(),
        Err(r) => format!("vm:{}", r.replace(' ', "-")),
    };
    acc.case(sub, &text, jumps >= 1, &class);
    let j = prog_json(p);
    let prog: Program = match serde_json::from_value(j.clone()) {
        Ok(p) => p,
        Err(e) => {
            acc.inconclusive.push(format!("cannot inject bytecode: {}", e));
            return vec![];
        }
    };
    let got = guard(|| {
        let mut ctx = CelContext::new();
        ctx.add_program("main", prog);
        let b = BindContext::new();
        ctx.exec("main", &b)
    });
    acc.sample(&class, || json!({"instructions": text, "expected": format!("{:?}", expected), "actual": format!("{:?}", got.as_ref().map(|r| r.as_ref().map_err(err_class)))}));
    let fail = |mode: &str, what: String| {
        vec![Failure::new(
            format!("c10:vm:{}", mode),
            what,
            json!({"kind": "injected", "program": j, "instructions": text, "expected": format!("{:?}", expected)}),
        )]
    };
    match (got, &expected) {
        (Err(p), _) => fail("panic", format!("VM panicked on {}: {} at {}", text, p.msg, p.loc)),
        (Ok(Ok(v)), Ok(want)) => {
            let ok = match (want, &v) {
                (Rv::I(i), rscel::CelValue::Int(x)) => i == x,
                (Rv::B(b), rscel::CelValue::Bool(x)) => b == x,
                _ => false,
            };
            if ok {
                vec![]
            } else {
                fail("wrong-value", format!("{} returned {:?}, reference says {:?}", text, v, want))
            }
        }
        (Ok(Ok(v)), Err(r)) => fail(
            &format!("value-instead-of-error:{}", r.replace(' ', "-")),
            format!("{} returned {:?} although the reference run ends in: {}", text, v, r),
        ),
        (Ok(Err(e)), Ok(want)) => fail(
            "error-instead-of-value",
            format!("{} failed with {} but the reference run yields {:?}", text, e, want),
        ),
        (Ok(Err(_)), Err(_)) => vec![],
    }
}

/// every boundary distance at every position of a short program, jump taken
fn vm_grid(opts: &Opts, acc: &mut Acc) {
    let mut progs: Vec<Vec<Ins>> = Vec::new();
    for prefix in 0..4usize {
        for suffix in 0..4usize {
            for kind in 0..3 {
                let jpc = prefix + if kind == 0 { 0 } else { 1 };
                let len = jpc + 1 + suffix;
                let next = (jpc + 1) as i64;
                let room = (len as i64) - next;
                let mut ds: Vec<i64> = vec![
                    0, 1, room - 1, room, room + 1, room + 2, 1000, 1 << 20, 1 << 30,
                    i32::MAX as i64, i32::MAX as i64 - 1, i32::MAX as i64 - next, i32::MAX as i64 - next + 1, i32::MAX as i64 - next - 1,
                    -next - 1, -next - 2, -next - 1000, i32::MIN as i64, i32::MIN as i64 + 1, i32::MIN as i64 + next,
                ];
                ds.retain(|d| *d >= i32::MIN as i64 && *d <= i32::MAX as i64 && (*d >= 0 || *d < -next));
                ds.sort();
                ds.dedup();
                for d in ds {
                    let mut p: Vec<Ins> = (0..prefix).map(|i| Ins::PushI(i as i64)).collect();
                    match kind {
                        0 => p.push(Ins::Jmp(d as i32)),
                        1 => {
                            p.push(Ins::PushB(true));
                            p.push(Ins::JmpCond(true, d as i32));
                        }
                        _ => {
                            p.push(Ins::PushB(false));
                            p.push(Ins::JmpCond(false, d as i32));
                        }
                    }
                    for i in 0..suffix {
                        p.push(Ins::PushI(10 + i as i64));
                    }
                    progs.push(p);
                }
            }
        }
    }
    par_chunks(acc, opts.threads, &progs, |p, a| {
        for f in check_injected(p, "vm-grid", a) {
            a.fail(f);
        }
    });
    acc.mark_exhaustive("vm-grid", "taken Jmp / JmpCond at positions 0..4 of programs of length 1..8 x boundary distances (end, end+1, far, around i32::MAX - pc, below 0, i32::MIN)");
}

fn run(opts: &Opts, acc: &mut Acc) {
    vm_grid(opts, acc);
    if opts.is_dbg() {
        let (nv, np) = if opts.tier == crate::engine::Tier::Quick { (6_000, 2_000) } else { (20_000, 10_000) };
        random_genomes(acc, opts, "vm", nv, 120, |gn, a| {
            let mut g = G::new(gn);
            let p = gen_ins_seq(&mut g);
            check_injected(&p, "vm", a)
        });
        random_genomes(acc, opts, "programs", np, 400, |gn, a| check_generated(gn, a));
        return;
    }
    // fixed seeds: the repository's own test expressions with control flow
    for src in [
        "true || false && false",
        "a ? b : c ? d : e",
        "match x { case int: 1, case string: 2, case _: 3 }",
        "match x { case >3: 1 }",
        "[1,2,3].map(x, x > 1, x * 2).all(y, y > 0 || has(z.w))",
        "f'{a}{b || c}'",
        "coalesce(a.b, c ? d : e, f && g)",
    ] {
        for f in check_source(src, &[], "seeds", "seed", acc) {
            acc.fail(f);
        }
    }
    let n = opts.tier.pick(300_000, 3_000_000);
    random_genomes(acc, opts, "programs", n, 400, |gn, a| check_generated(gn, a));
    let n = opts.tier.pick(200_000, 2_000_000);
    random_genomes(acc, opts, "controlflow", n, 200, |gn, a| check_cf(gn, a));
    let n = opts.tier.pick(300_000, 3_000_000);
    random_genomes(acc, opts, "vm", n, 120, |gn, a| {
        let mut g = G::new(gn);
        let p = gen_ins_seq(&mut g);
        check_injected(&p, "vm", a)
    });
}

fn parse_ins(v: &Value) -> Option<Ins> {
    if let Some(s) = v.as_str() {
        return Some(match s {
            "Pop" => Ins::Pop,
            "Dup" => Ins::Dup,
            "Not" => Ins::Not,
            "Test" => Ins::Test,
            "Add" => Ins::Add,
            _ => return None,
        });
    }
    let o = v.as_object()?;
    if let Some(p) = o.get("Push") {
        if let Some(i) = p.get("Int").and_then(|x| x.as_i64()) {
            return Some(Ins::PushI(i));
        }
        if let Some(b) = p.get("Bool").and_then(|x| x.as_bool()) {
            return Some(Ins::PushB(b));
        }
    }
    if let Some(d) = o.get("Jmp").and_then(|x| x.as_i64()) {
        return Some(Ins::Jmp(d as i32));
    }
    if let Some(j) = o.get("JmpCond") {
        let w = j.get("when")?.as_str()? == "True";
        let d = j.get("dist")?.as_i64()? as i32;
        return Some(Ins::JmpCond(w, d));
    }
    None
}

fn replay(_opts: &Opts, d: &Value, acc: &mut Acc) {
    match d.get("kind").and_then(|k| k.as_str()).unwrap_or("") {
        "source" => {
            let src = d.get("source").and_then(|s| s.as_str()).unwrap_or("");
            for f in check_source(src, &[], "replay", "replay", acc) {
                acc.fail(f);
            }
        }
        "injected" => {
            let ins: Option<Vec<Ins>> = d
                .pointer("/program/bytecode/inner")
                .and_then(|a| a.as_array())
                .map(|a| a.iter().filter_map(parse_ins).collect());
            match ins {
                Some(p) => {
                    for f in check_injected(&p, "replay", acc) {
                        acc.fail(f);
                    }
                }
                None => acc.inconclusive.push("bad C10 replay file".into()),
            }
        }
        k => acc.inconclusive.push(format!("unknown C10 replay kind {:?}", k)),
    }
}

/// libFuzzer entry: first byte selects program / control-flow / injected-VM generator
pub fn fuzz_case(genome: &[u8], acc: &mut Acc) -> Vec<Failure> {
    match genome.first().map(|b| b % 3) {
        Some(0) => check_generated(&genome[1..], acc),
        Some(1) => check_cf(&genome[1..], acc),
        Some(_) => {
            let mut g = G::new(&genome[1..]);
            let p = gen_ins_seq(&mut g);
            check_injected(&p, "fuzz", acc)
        }
        None => vec![],
    }
}
