//! C02 — parsing assigns the CEL grammar's precedence, associativity and grouping.
//!
//! (i) exhaustive: every flat (parenthesis-free) sequence of 1..3 binary operators over
//!     decorated operands, and every placement of one `?:` around such sequences; the
//!     expected tree comes from the harness's own precedence-climbing parser over the CEL
//!     table — independent of rscel's recursive descent.
//! (ii) random trees rendered with minimal / full / random redundant parentheses and random
//!     whitespace: all renderings must parse to the tree that was generated.
//! (iii) typed random trees evaluated under random bindings: all renderings agree with each
//!     other and with a small reference evaluator (grouping is observable in `- / %`).

use super::Prop;
use crate::astn::shape_of;
use crate::engine::{par_chunks, random_genomes, Acc, Failure, Opts, Tier};
use crate::expr::*;
use crate::g::G;
use crate::run::{compile, eval, Res2, Sum};
use crate::val::V;
use serde_json::{json, Value};

pub static PROP: Prop = Prop {
    id: "C02",
    rule: "exhaustive: all flat sequences of 1-2 binary operators (14 operators) x all operand decorations \
           (ident, literal, !/!!/-/-- runs, field, index, free and method calls, unary-over-postfix, parenthesised), \
           all 2744 operator triples x sampled decorations, all placements of one ?: with <=1 operator per slot and \
           else-nested ?: chains; expected tree from an independent precedence-climbing parser. random: trees to depth 8 \
           rendered minimal/full/random-redundant parentheses x tight/single/random whitespace (incl. tabs and newlines); \
           typed trees evaluated under random int/bool bindings against a reference evaluator; runs of 1..4 '!' / '-' over an \
           operand pool of every type, literal and bound, every grouping of the run (--x, -(-x), - -x) evaluating alike. Non-trivial = >=2 operators \
           of different precedence, or two of equal precedence whose grouping is observable (- / % relations), or a ?:; \
           distinct by rendered source / expected shape.",
    assumptions: &[
        "the CEL precedence table as stated in the property (?: < || < && < relations < + - < * / % < unary < postfix)",
        "Program::ast() is the exposed syntax tree; Primary::Parens is treated as transparent",
    ],
    run,
    replay,
    both_profiles: super::thorough_both,
};

// ---------------------------------------------------------------------------
// flat sequences and the independent precedence-climbing oracle

#[derive(Clone, Debug)]
enum Tok {
    Atom(E),
    Op(Op),
    Q,
    Colon,
}

struct Climb<'a> {
    t: &'a [Tok],
    i: usize,
}

impl<'a> Climb<'a> {
    fn expr(&mut self) -> Option<E> {
        let c = self.binary(1)?;
        if let Some(Tok::Q) = self.t.get(self.i) {
            self.i += 1;
            // then-branch: `||` level; else-branch: a full expression (right-nested)
            let a = self.binary(1)?;
            match self.t.get(self.i) {
                Some(Tok::Colon) => self.i += 1,
                _ => return None,
            }
            let b = self.expr()?;
            return Some(E::Tern(Box::new(c), Box::new(a), Box::new(b)));
        }
        Some(c)
    }

    fn binary(&mut self, min: u8) -> Option<E> {
        let mut lhs = match self.t.get(self.i) {
            Some(Tok::Atom(e)) => {
                self.i += 1;
                e.clone()
            }
            _ => return None,
        };
        loop {
            let op = match self.t.get(self.i) {
                Some(Tok::Op(op)) if op.prec() >= min => *op,
                _ => break,
            };
            self.i += 1;
            let rhs = self.binary(op.prec() + 1)?;
            lhs = bin(op, lhs, rhs);
        }
        Some(lhs)
    }
}

fn climb(toks: &[Tok]) -> Option<E> {
    let mut c = Climb { t: toks, i: 0 };
    let e = c.expr()?;
    if c.i == toks.len() {
        Some(e)
    } else {
        None
    }
}

/// operand decorations: (label, expression built around identifier `n`)
fn decorations(n: &str) -> Vec<(&'static str, E)> {
    let v = || var(n);
    vec![
        ("ident", v()),
        ("lit", E::Lit(V::Int(7))),
        ("not1", E::Not(1, Box::new(v()))),
        ("not2", E::Not(2, Box::new(v()))),
        ("neg1", E::Neg(1, Box::new(v()))),
        ("neg2", E::Neg(2, Box::new(v()))),
        ("field", E::Field(Box::new(v()), "f".into())),
        ("index", E::Index(Box::new(v()), Box::new(E::Lit(V::Int(0))))),
        ("call", call("g", vec![v(), E::Lit(V::Int(1))])),
        ("method", method(v(), "m", vec![var("q")])),
        ("neg-field", E::Neg(1, Box::new(E::Field(Box::new(v()), "f".into())))),
        ("not-index", E::Not(1, Box::new(E::Index(Box::new(v()), Box::new(E::Lit(V::Int(0))))))),
        ("neg-method", E::Neg(1, Box::new(method(v(), "m", vec![])))),
        // rendered as `.5` (see flat_tokens): a literal that starts with a dot, next to `?` `:` `-` `<` ...
        ("dot-float", E::Lit(V::F(0.5))),
        ("float", E::Lit(V::F(1.5))),
    ]
}

fn flat_tokens(toks: &[Tok]) -> Vec<String> {
    let mut out = Vec::new();
    for t in toks {
        match t {
            Tok::Atom(e) => out.extend(tokens_of(e, Parens::Minimal, None).into_iter().map(|t| if t == "0.5" { ".5".to_string() } else { t })),
            Tok::Op(op) => out.push(op.sym().to_string()),
            Tok::Q => out.push("?".into()),
            Tok::Colon => out.push(":".into()),
        }
    }
    out
}

fn nontrivial_shape(e: &E) -> bool {
    // >= 2 operators of different precedence, or two of equal precedence where grouping is
    // observable, or a ?:
    let mut ops: Vec<Op> = Vec::new();
    let mut tern = false;
    e.walk(&mut |x| match x {
        E::Bin(op, ..) => ops.push(*op),
        E::Tern(..) => tern = true,
        _ => {}
    });
    if tern {
        return true;
    }
    if ops.len() < 2 {
        return false;
    }
    let precs: std::collections::BTreeSet<u8> = ops.iter().map(|o| o.prec()).collect();
    if precs.len() >= 2 {
        return true;
    }
    ops.iter()
        .any(|o| matches!(o, Op::Sub | Op::Div | Op::Rem) || o.prec() == 3)
}

fn parse_shape(src: &str) -> Result<Shape, String> {
    match compile(src) {
        Res2::Ok(p) => match p.ast() {
            Some(a) => Ok(shape_of(a)),
            None => Err("no ast".into()),
        },
        Res2::Err(e) => Err(format!("compile error: {}", e)),
        Res2::Panic(p) => Err(format!("PANIC {}", p.msg)),
    }
}

fn check_flat(toks: &[Tok], sub: &str, class: &str, acc: &mut Acc) -> Vec<Failure> {
    let Some(expected) = climb(toks) else { return vec![] };
    let src_tokens = flat_tokens(toks);
    let src = join_tokens(&src_tokens, Space::Single, None);
    acc.case(sub, &src, nontrivial_shape(&expected), class);
    let want = to_shape(&expected);
    acc.sample(class, || json!({"source": src, "expected_tree": want.show()}));
    let mut out = Vec::new();
    match parse_shape(&src) {
        Ok(got) => {
            if got != want {
                out.push(Failure::new(
                    format!("c02:flat:{}:wrong-tree", class),
                    format!("{} parsed as {} but the CEL grammar gives {}", src, got.show(), want.show()),
                    json!({"kind": "source", "source": src, "expected_tree": want.show(), "actual_tree": got.show()}),
                ));
            }
        }
        Err(e) => out.push(Failure::new(
            format!("c02:flat:{}:rejected", class),
            format!("{} is valid CEL but was rejected: {}", src, e),
            json!({"kind": "source", "source": src, "expected_tree": want.show(), "actual_tree": e}),
        )),
    }
    // tight rendering (no optional whitespace) must give the same tree
    let tight = join_tokens(&src_tokens, Space::Tight, None);
    if tight != src {
        acc.eval_only(sub, 1);
        match parse_shape(&tight) {
            Ok(got) => {
                if got != want && out.is_empty() {
                    out.push(Failure::new(
                        format!("c02:flat:{}:whitespace-changes-tree", class),
                        format!("{:?} parsed as {} but {:?} as {}", tight, got.show(), src, want.show()),
                        json!({"kind": "source", "source": tight, "expected_tree": want.show(), "actual_tree": got.show()}),
                    ));
                }
            }
            Err(e) => {
                if out.is_empty() {
                    out.push(Failure::new(
                        format!("c02:flat:{}:whitespace-changes-acceptance", class),
                        format!("{:?} was rejected ({}) although {:?}, which differs only in white space between tokens, parses as {}", tight, e, src, want.show()),
                        json!({"kind": "source", "source": tight, "expected_tree": want.show(), "actual_tree": e}),
                    ));
                }
            }
        }
    }
    out
}

// ---------------------------------------------------------------------------
// random trees

fn gen_atom(g: &mut G) -> E {
    let names = ["a", "b", "c", "d"];
    let n = *g.pick(&names);
    match g.below(10) {
        0 | 1 | 2 => var(n),
        3 => E::Lit(V::Int(g.below(10) as i64)),
        4 => E::Lit(V::Bool(g.flag())),
        5 => E::Field(Box::new(var(n)), "f".into()),
        6 => E::Index(Box::new(var(n)), Box::new(E::Lit(V::Int(g.below(3) as i64)))),
        7 => call("g", vec![var(n)]),
        8 => method(var(n), "m", vec![]),
        _ => E::Lit(V::F(g.below(8) as f64 / 2.0)),
    }
}

fn gen_tree(g: &mut G, depth: u32) -> E {
    if depth == 0 || g.below(6) == 0 {
        return gen_atom(g);
    }
    match g.below(12) {
        0 => E::Tern(
            Box::new(gen_tree(g, depth - 1)),
            Box::new(gen_tree(g, depth - 1)),
            Box::new(gen_tree(g, depth - 1)),
        ),
        1 => E::Not(1 + g.below(2) as u8, Box::new(gen_tree(g, depth - 1))),
        2 => E::Neg(1 + g.below(2) as u8, Box::new(gen_tree(g, depth - 1))),
        3 => E::Field(Box::new(gen_tree(g, depth - 1)), "f".into()),
        4 => E::Index(Box::new(gen_tree(g, depth - 1)), Box::new(gen_tree(g, depth - 1))),
        5 => E::List(vec![gen_tree(g, depth - 1), gen_tree(g, depth - 1)]),
        _ => {
            let op = *g.pick(ALL_OPS);
            bin(op, gen_tree(g, depth - 1), gen_tree(g, depth - 1))
        }
    }
}

fn check_tree(genome: &[u8], sub: &str, acc: &mut Acc) -> Vec<Failure> {
    let mut g = G::new(genome);
    let depth = 1 + g.below(8) as u32;
    let tree = gen_tree(&mut g, depth);
    let want = to_shape(&tree);
    let min = render(&tree, Parens::Minimal, Space::Single, &mut g);
    let class = format!("tree:depth{}", tree.depth().min(9));
    acc.case(sub, &min, nontrivial_shape(&tree), &class);
    acc.sample(&class, || json!({"minimal": min, "expected_tree": want.show()}));
    let mut out = Vec::new();
    let styles = [
        ("minimal-single", Parens::Minimal, Space::Single),
        ("minimal-tight", Parens::Minimal, Space::Tight),
        ("full-single", Parens::Full, Space::Single),
        ("random-random", Parens::Random, Space::Random),
        ("minimal-random", Parens::Minimal, Space::Random),
    ];
    for (name, p, s) in styles {
        let src = render(&tree, p, s, &mut g);
        acc.eval_only(sub, 1);
        match parse_shape(&src) {
            Ok(got) => {
                if got != want {
                    out.push(Failure::new(
                        format!("c02:tree:{}:wrong-tree", name),
                        format!("{:?} parsed as {} instead of {}", src, got.show(), want.show()),
                        json!({"kind": "source", "source": src, "expected_tree": want.show(), "actual_tree": got.show()}),
                    ));
                    break;
                }
            }
            Err(e) => {
                out.push(Failure::new(
                    format!("c02:tree:{}:rejected", name),
                    format!("{:?} was rejected: {}", src, e),
                    json!({"kind": "source", "source": src, "expected_tree": want.show(), "actual_tree": e}),
                ));
                break;
            }
        }
    }
    out
}

// ---------------------------------------------------------------------------
// typed trees with a reference evaluator (ints and bools only)

#[derive(Clone, Copy, PartialEq, Debug)]
enum Tv {
    I(i64),
    B(bool),
}

fn gen_int_tree(g: &mut G, depth: u32) -> E {
    if depth == 0 || g.below(4) == 0 {
        return if g.flag() {
            var(*g.pick(&["a", "b", "c", "d"]))
        } else {
            E::Lit(V::Int(g.below(9) as i64))
        };
    }
    match g.below(8) {
        0 => E::Neg(1 + g.below(2) as u8, Box::new(gen_int_tree(g, depth - 1))),
        1 => E::Tern(
            Box::new(gen_bool_tree(g, depth - 1)),
            Box::new(gen_int_tree(g, depth - 1)),
            Box::new(gen_int_tree(g, depth - 1)),
        ),
        _ => {
            let op = *g.pick(&[Op::Add, Op::Sub, Op::Mul, Op::Div, Op::Rem, Op::Sub, Op::Div]);
            bin(op, gen_int_tree(g, depth - 1), gen_int_tree(g, depth - 1))
        }
    }
}

fn gen_bool_tree(g: &mut G, depth: u32) -> E {
    if depth == 0 || g.below(5) == 0 {
        return if g.flag() {
            var(*g.pick(&["p", "q"]))
        } else {
            E::Lit(V::Bool(g.flag()))
        };
    }
    match g.below(8) {
        0 => E::Not(1 + g.below(2) as u8, Box::new(gen_bool_tree(g, depth - 1))),
        1 | 2 => bin(Op::Or, gen_bool_tree(g, depth - 1), gen_bool_tree(g, depth - 1)),
        3 | 4 => bin(Op::And, gen_bool_tree(g, depth - 1), gen_bool_tree(g, depth - 1)),
        5 => E::Tern(
            Box::new(gen_bool_tree(g, depth - 1)),
            Box::new(gen_bool_tree(g, depth - 1)),
            Box::new(gen_bool_tree(g, depth - 1)),
        ),
        6 => {
            // a chain of relations: `a < b < c` is `(a < b) < c` (a bool meets an int; the reference
            // evaluator is silent there, the renderings are still compared with each other)
            let op = *g.pick(&[Op::Lt, Op::Le, Op::Gt, Op::Ge, Op::Eq, Op::Ne]);
            let lhs = {
                let op1 = *g.pick(&[Op::Lt, Op::Le, Op::Gt, Op::Ge, Op::Eq, Op::Ne]);
                bin(op1, gen_int_tree(g, depth - 1), gen_int_tree(g, depth - 1))
            };
            bin(op, lhs, gen_int_tree(g, depth - 1))
        }
        _ => {
            let op = *g.pick(&[Op::Lt, Op::Le, Op::Gt, Op::Ge, Op::Eq, Op::Ne]);
            bin(op, gen_int_tree(g, depth - 1), gen_int_tree(g, depth - 1))
        }
    }
}

/// None = a failure (overflow, division by zero) somewhere; the reference does not model
/// which failures are absorbed by || and &&, so such cases only compare renderings.
fn ref_eval(e: &E, env: &[(String, Tv)]) -> Option<Tv> {
    Some(match e {
        E::Lit(V::Int(i)) => Tv::I(*i),
        E::Lit(V::Bool(b)) => Tv::B(*b),
        E::Var(n) => env.iter().find(|(k, _)| k == n)?.1,
        E::Neg(n, x) => {
            let mut v = match ref_eval(x, env)? {
                Tv::I(i) => i,
                _ => return None,
            };
            for _ in 0..*n {
                v = v.checked_neg()?;
            }
            Tv::I(v)
        }
        E::Not(n, x) => {
            let mut v = match ref_eval(x, env)? {
                Tv::B(b) => b,
                _ => return None,
            };
            for _ in 0..*n {
                v = !v;
            }
            Tv::B(v)
        }
        E::Tern(c, a, b) => match ref_eval(c, env)? {
            Tv::B(true) => ref_eval(a, env)?,
            Tv::B(false) => ref_eval(b, env)?,
            _ => return None,
        },
        E::Bin(op, a, b) => {
            // evaluate both sides eagerly: any failure anywhere makes the reference silent
            let x = ref_eval(a, env)?;
            let y = ref_eval(b, env)?;
            match (op, x, y) {
                (Op::Or, Tv::B(p), Tv::B(q)) => Tv::B(p || q),
                (Op::And, Tv::B(p), Tv::B(q)) => Tv::B(p && q),
                (Op::Add, Tv::I(p), Tv::I(q)) => Tv::I(p.checked_add(q)?),
                (Op::Sub, Tv::I(p), Tv::I(q)) => Tv::I(p.checked_sub(q)?),
                (Op::Mul, Tv::I(p), Tv::I(q)) => Tv::I(p.checked_mul(q)?),
                (Op::Div, Tv::I(p), Tv::I(q)) => Tv::I(p.checked_div(q)?),
                (Op::Rem, Tv::I(p), Tv::I(q)) => {
                    if q == 0 || (p == i64::MIN && q == -1) {
                        return None;
                    }
                    Tv::I(p % q)
                }
                (Op::Lt, Tv::I(p), Tv::I(q)) => Tv::B(p < q),
                (Op::Le, Tv::I(p), Tv::I(q)) => Tv::B(p <= q),
                (Op::Gt, Tv::I(p), Tv::I(q)) => Tv::B(p > q),
                (Op::Ge, Tv::I(p), Tv::I(q)) => Tv::B(p >= q),
                (Op::Eq, Tv::I(p), Tv::I(q)) => Tv::B(p == q),
                (Op::Ne, Tv::I(p), Tv::I(q)) => Tv::B(p != q),
                _ => return None,
            }
        }
        _ => return None,
    })
}

fn check_eval(genome: &[u8], sub: &str, acc: &mut Acc) -> Vec<Failure> {
    let mut g = G::new(genome);
    let depth = 1 + g.below(5) as u32;
    let tree = if g.flag() {
        gen_int_tree(&mut g, depth)
    } else {
        gen_bool_tree(&mut g, depth)
    };
    let mut env: Vec<(String, Tv)> = Vec::new();
    let mut binds: Vec<(String, V)> = Vec::new();
    for n in ["a", "b", "c", "d"] {
        let v = g.range(-6, 9);
        env.push((n.to_string(), Tv::I(v)));
        binds.push((n.to_string(), V::Int(v)));
    }
    for n in ["p", "q"] {
        let v = g.flag();
        env.push((n.to_string(), Tv::B(v)));
        binds.push((n.to_string(), V::Bool(v)));
    }
    let min = render(&tree, Parens::Minimal, Space::Single, &mut g);
    let class = "eval";
    acc.case(sub, &format!("{} @ {:?}", min, env), nontrivial_shape(&tree), class);
    let expected = ref_eval(&tree, &env).map(|t| match t {
        Tv::I(i) => V::Int(i).canon(),
        Tv::B(b) => V::Bool(b).canon(),
    });
    if expected.is_none() {
        acc.skip("reference evaluator: a sub-expression fails (overflow / zero divisor); only rendering agreement is compared");
    }
    let r0 = eval(&min, &binds).res.sum();
    acc.sample(class, || json!({"source": min, "bindings": format!("{:?}", env), "expected": expected, "actual": r0.show()}));
    let mut out = Vec::new();
    if let Sum::Panic(p) = &r0 {
        out.push(Failure::new(
            "c02:eval:panic",
            format!("{} panicked: {}", min, p),
            json!({"kind": "eval", "source": min, "bindings": binds_tv(&env)}),
        ));
        return out;
    }
    if let Some(x) = &expected {
        if r0 != Sum::Val(x.clone()) {
            out.push(Failure::new(
                "c02:eval:wrong-result",
                format!("{} with {:?} evaluated to {} but its grouping gives {}", min, env, r0.show(), x),
                json!({"kind": "eval", "source": min, "bindings": binds_tv(&env), "expected": x, "actual": r0.show()}),
            ));
            return out;
        }
    }
    for (name, p, s) in [
        ("full", Parens::Full, Space::Tight),
        ("random", Parens::Random, Space::Random),
    ] {
        let src = render(&tree, p, s, &mut g);
        let r = eval(&src, &binds).res.sum();
        acc.eval_only(sub, 1);
        if r != r0 {
            out.push(Failure::new(
                format!("c02:eval:{}-rendering-differs", name),
                format!("{:?} -> {} but {:?} -> {}", min, r0.show(), src, r.show()),
                json!({"kind": "eval2", "source": min, "other": src, "bindings": binds_tv(&env)}),
            ));
            break;
        }
    }
    out
}

fn binds_tv(env: &[(String, Tv)]) -> Value {
    let mut m = serde_json::Map::new();
    for (k, v) in env {
        m.insert(
            k.clone(),
            match v {
                Tv::I(i) => json!(i),
                Tv::B(b) => json!(b),
            },
        );
    }
    Value::Object(m)
}


// ---------------------------------------------------------------------------
// unary runs: "--x" is -(-x), "!!x" is !(!x) — whatever the operand

/// all ways of splitting a run of n signs into parenthesised groups (compositions of n)
fn compositions(n: usize) -> Vec<Vec<usize>> {
    if n == 0 {
        return vec![vec![]];
    }
    let mut out = Vec::new();
    for first in 1..=n {
        for mut rest in compositions(n - first) {
            let mut c = vec![first];
            c.append(&mut rest);
            out.push(c);
        }
    }
    out
}

fn run_text(sign: &str, comp: &[usize], operand: &str, spaced: bool) -> String {
    let sep = if spaced { " " } else { "" };
    let mut s = String::new();
    for (i, k) in comp.iter().enumerate() {
        if i > 0 {
            s.push('(');
        }
        for _ in 0..*k {
            s.push_str(sign);
            s.push_str(sep);
        }
    }
    s.push_str(operand);
    for _ in 1..comp.len() {
        s.push(')');
    }
    s
}

fn unary_pool() -> Vec<V> {
    let mut p = super::c03::numeric_pool();
    p.extend([
        V::Bool(true),
        V::Bool(false),
        V::s(""),
        V::s("s"),
        V::Null,
        V::List(vec![]),
        V::List(vec![V::Int(1)]),
        V::Bytes(vec![]),
        V::Bytes(vec![1]),
        V::Map(Default::default()),
    ]);
    p
}

/// one operand under a run of n signs: every grouping of the run evaluates alike
fn check_unary_run(sign: &str, n: usize, v: &V, sub: &str, acc: &mut Acc) -> Vec<Failure> {
    let Some(lit) = v.lit() else { return vec![] };
    let class = format!("unary-run:{}{}:{}", sign, n, v.type_name());
    acc.case(sub, &format!("{}x{} {}", sign, n, v.canon()), n >= 2, &class);
    let binds = vec![("x".to_string(), v.clone())];
    let mut out = Vec::new();
    for (form, operand, b) in [("lit", lit.as_str(), &[][..]), ("var", "x", &binds[..])] {
        let base_src = run_text(sign, &[n], operand, false);
        let base = eval(&base_src, b).res.sum();
        acc.sample(&class, || json!({"source": base_src, "x": v.canon(), "result": base.show()}));
        if base.is_panic() {
            out.push(Failure::new(
                "c02:unary-run:panic",
                format!("{} with x={} panicked: {}", base_src, v.canon(), base.show()),
                json!({"kind": "unary", "sign": sign, "n": n, "operand": super::c03::vjson(v)}),
            ));
            continue;
        }
        let mut variants: Vec<String> = compositions(n).iter().map(|c| run_text(sign, c, operand, false)).collect();
        variants.push(run_text(sign, &[n], operand, true));
        variants.push(format!("{}({})", sign.repeat(n), operand));
        for src in variants {
            if src == base_src {
                continue;
            }
            let r = eval(&src, b).res.sum();
            acc.eval_only(sub, 1);
            if r.coarse() != base.coarse() {
                out.push(Failure::new(
                    format!("c02:unary-run:{}:{}:grouping-differs", if sign == "!" { "not" } else { "neg" }, form),
                    format!("{:?} -> {} but {:?} -> {} (x={})", base_src, base.show(), src, r.show(), v.canon()),
                    json!({"kind": "unary", "sign": sign, "n": n, "operand": super::c03::vjson(v), "form": form,
                           "source": base_src, "other": src}),
                ));
                break;
            }
        }
    }
    out
}

/// a sign in front of a literal that carries a postfix chain: the chain binds tighter, so
/// `-1.5.max(2.0)` is `-(1.5.max(2.0))`, never `(-1.5).max(2.0)`
fn check_sign_postfix(sign: &str, n: usize, lit: &str, postfix: &str, acc: &mut Acc) -> Vec<Failure> {
    let run = sign.repeat(n);
    let a = format!("{}{}{}", run, lit, postfix);
    let b = format!("{}({}{})", run, lit, postfix);
    let c = format!("{} {}{}", run, lit, postfix);
    acc.case("sign-postfix", &a, true, &format!("sign-postfix:{}", sign));
    let ra = eval(&a, &[]).res.sum();
    let rb = eval(&b, &[]).res.sum();
    let rc = eval(&c, &[]).res.sum();
    acc.eval_only("sign-postfix", 2);
    acc.sample(&format!("sign-postfix:{}", sign), || json!({"source": a, "grouped": b, "result": ra.show(), "grouped_result": rb.show()}));
    if ra.coarse() != rb.coarse() || rc.coarse() != rb.coarse() {
        return vec![Failure::new(
            format!("c02:sign-postfix:{}:grouping-differs", if sign == "!" { "not" } else { "neg" }),
            format!("{:?} -> {} and {:?} -> {} but {:?} -> {}: a postfix chain binds tighter than the sign", a, ra.show(), c, rc.show(), b, rb.show()),
            json!({"kind": "sign-postfix", "sign": sign, "n": n, "lit": lit, "postfix": postfix}),
        )];
    }
    vec![]
}

fn sign_postfix(acc: &mut Acc) {
    let lits = ["1.5", "3", "2u", "0.5", "7", "'abc'", "true", "[1, 2]", "{'a': 1}"];
    let posts = [".max(2.0)", ".min(0)", ".max(1, 9)", ".size()", ".contains('b')", "[0]", ".a", ".abs()", ".floor()", ".string()", ".int()", ".type()"];
    for sign in ["-", "!"] {
        for n in 1..=2 {
            for l in lits {
                for p in posts {
                    for f in check_sign_postfix(sign, n, l, p, acc) {
                        acc.fail(f);
                    }
                }
            }
        }
    }
    acc.mark_exhaustive("sign-postfix", "1-2 signs x 9 literal receivers x 12 postfix chains (methods that use or ignore their receiver, index, field): bare, spaced and grouped spelling evaluate alike");
}

fn unary_runs(opts: &Opts, acc: &mut Acc) {
    let mut pts: Vec<(&'static str, usize, V)> = Vec::new();
    for v in unary_pool() {
        for sign in ["!", "-"] {
            for n in 1..=4 {
                pts.push((sign, n, v.clone()));
            }
        }
    }
    par_chunks(acc, opts.threads, &pts, |(s, n, v), a| {
        for f in check_unary_run(s, *n, v, "unary-runs", a) {
            a.fail(f);
        }
    });
    acc.mark_exhaustive("unary-runs", "runs of 1..4 '!' / '-' x every grouping of the run x operand pool (all types) x literal / bound form");
}

// ---------------------------------------------------------------------------

fn run(opts: &Opts, acc: &mut Acc) {
    unary_runs(opts, acc);
    sign_postfix(acc);
    if opts.is_dbg() {
        // parsing is profile independent; the dbg part only repeats the evaluation sub-run
        random_genomes(acc, opts, "eval", 3000, 96, |gn, a| check_eval(gn, "eval", a));
        return;
    }
    let names = ["a", "b", "c", "d"];
    let decs: Vec<Vec<(&'static str, E)>> = names.iter().map(|n| decorations(n)).collect();
    let nd = decs[0].len();

    // 1 and 2 operators: all operators x all decorations
    let mut seqs: Vec<Vec<Tok>> = Vec::new();
    for &o1 in ALL_OPS {
        for d0 in 0..nd {
            for d1 in 0..nd {
                seqs.push(vec![
                    Tok::Atom(decs[0][d0].1.clone()),
                    Tok::Op(o1),
                    Tok::Atom(decs[1][d1].1.clone()),
                ]);
            }
        }
    }
    par_chunks(acc, opts.threads, &seqs, |s, a| {
        for f in check_flat(s, "flat1", "1op", a) {
            a.fail(f);
        }
    });
    acc.mark_exhaustive("flat1", "14 operators x 15^2 operand decorations");

    let mut seqs: Vec<Vec<Tok>> = Vec::new();
    let dec2: Vec<usize> = if opts.tier == Tier::Thorough {
        (0..nd).collect()
    } else {
        // quick: all decorations in the middle position (where both neighbours compete for
        // it), ident / neg / field / call at the ends
        vec![0, 4, 6, 8, 13]
    };
    for &o1 in ALL_OPS {
        for &o2 in ALL_OPS {
            for &d0 in &dec2 {
                for d1 in 0..nd {
                    for &d2 in &dec2 {
                        seqs.push(vec![
                            Tok::Atom(decs[0][d0].1.clone()),
                            Tok::Op(o1),
                            Tok::Atom(decs[1][d1].1.clone()),
                            Tok::Op(o2),
                            Tok::Atom(decs[2][d2].1.clone()),
                        ]);
                    }
                }
            }
        }
    }
    par_chunks(acc, opts.threads, &seqs, |s, a| {
        for f in check_flat(s, "flat2", "2ops", a) {
            a.fail(f);
        }
    });
    acc.mark_exhaustive(
        "flat2",
        "all 196 operator pairs x operand decorations (all 15 in the middle; 5 (quick) / 15 (thorough) at the ends)",
    );

    // 3 operators: all triples, plain identifiers + one seeded decoration sample each
    let mut seqs: Vec<Vec<Tok>> = Vec::new();
    let mut k = opts.seed as usize;
    for &o1 in ALL_OPS {
        for &o2 in ALL_OPS {
            for &o3 in ALL_OPS {
                let mk = |d: [usize; 4]| {
                    vec![
                        Tok::Atom(decs[0][d[0]].1.clone()),
                        Tok::Op(o1),
                        Tok::Atom(decs[1][d[1]].1.clone()),
                        Tok::Op(o2),
                        Tok::Atom(decs[2][d[2]].1.clone()),
                        Tok::Op(o3),
                        Tok::Atom(decs[3][d[3]].1.clone()),
                    ]
                };
                seqs.push(mk([0, 0, 0, 0]));
                let reps = opts.tier.pick(2, 40);
                for _ in 0..reps {
                    k = k.wrapping_mul(6364136223846793005).wrapping_add(1442695040888963407);
                    let d = [(k >> 8) % nd, (k >> 20) % nd, (k >> 32) % nd, (k >> 44) % nd];
                    seqs.push(mk(d));
                }
            }
        }
    }
    par_chunks(acc, opts.threads, &seqs, |s, a| {
        for f in check_flat(s, "flat3", "3ops", a) {
            a.fail(f);
        }
    });
    acc.mark_exhaustive("flat3", "all 2744 operator triples over plain identifiers (+ sampled decorations)");

    // ternary placements: slot contents with 0 or 1 operator each, all combinations
    let mut slot: Vec<Vec<Tok>> = vec![vec![Tok::Atom(var("a"))]];
    for &o in ALL_OPS {
        slot.push(vec![Tok::Atom(var("a")), Tok::Op(o), Tok::Atom(var("b"))]);
    }
    // a slot that starts with a dot-leading float literal (`c?.5:.5`)
    slot.push(vec![Tok::Atom(E::Lit(V::F(0.5)))]);
    slot.push(vec![Tok::Atom(E::Lit(V::F(0.5))), Tok::Op(Op::Sub), Tok::Atom(var("b"))]);
    let rename = |s: &Vec<Tok>, x: &str, y: &str| -> Vec<Tok> {
        s.iter()
            .map(|t| match t {
                Tok::Atom(E::Var(n)) if n == "a" => Tok::Atom(var(x)),
                Tok::Atom(E::Var(n)) if n == "b" => Tok::Atom(var(y)),
                o => o.clone(),
            })
            .collect()
    };
    let mut seqs: Vec<Vec<Tok>> = Vec::new();
    for s1 in &slot {
        for s2 in &slot {
            for s3 in &slot {
                let mut v = rename(s1, "a", "b");
                v.push(Tok::Q);
                v.extend(rename(s2, "c", "d"));
                v.push(Tok::Colon);
                v.extend(rename(s3, "e", "f"));
                seqs.push(v);
            }
        }
    }
    // else-nested chains
    for s in &slot {
        let mut v = rename(s, "a", "b");
        v.extend([Tok::Q, Tok::Atom(var("c")), Tok::Colon]);
        v.extend(rename(s, "d", "e"));
        v.extend([Tok::Q, Tok::Atom(var("f")), Tok::Colon]);
        v.extend(rename(s, "g", "h"));
        v.extend([Tok::Q, Tok::Atom(var("i")), Tok::Colon, Tok::Atom(var("j"))]);
        seqs.push(v);
    }
    // two operators in one slot
    for &o1 in ALL_OPS {
        for &o2 in ALL_OPS {
            let two = vec![
                Tok::Atom(var("a")),
                Tok::Op(o1),
                Tok::Atom(var("b")),
                Tok::Op(o2),
                Tok::Atom(var("c")),
            ];
            let x = Tok::Atom(var("x"));
            let y = Tok::Atom(var("y"));
            let mut v = two.clone();
            v.extend([Tok::Q, x.clone(), Tok::Colon, y.clone()]);
            seqs.push(v);
            let mut v = vec![x.clone(), Tok::Q];
            v.extend(two.clone());
            v.extend([Tok::Colon, y.clone()]);
            seqs.push(v);
            let mut v = vec![x.clone(), Tok::Q, y.clone(), Tok::Colon];
            v.extend(two.clone());
            seqs.push(v);
        }
    }
    par_chunks(acc, opts.threads, &seqs, |s, a| {
        for f in check_flat(s, "ternary", "ternary", a) {
            a.fail(f);
        }
    });
    acc.mark_exhaustive("ternary", "17^3 slot fillings of one ?:, else-nested chains, 196 operator pairs in each slot");

    // random trees
    let n = opts.tier.pick(150_000, 2_000_000);
    random_genomes(acc, opts, "trees", n, 160, |gn, a| check_tree(gn, "trees", a));
    let n = opts.tier.pick(150_000, 400_000);
    random_genomes(acc, opts, "eval", n, 96, |gn, a| check_eval(gn, "eval", a));
}

fn replay(_opts: &Opts, d: &Value, acc: &mut Acc) {
    let kind = d.get("kind").and_then(|k| k.as_str()).unwrap_or("");
    match kind {
        "source" => {
            let src = d.get("source").and_then(|s| s.as_str()).unwrap_or("");
            let want = d.get("expected_tree").and_then(|s| s.as_str()).unwrap_or("");
            acc.case("replay", src, true, "replay");
            match parse_shape(src) {
                Ok(got) if got.show() == want => {}
                Ok(got) => acc.fail(Failure::new(
                    "c02:replay:wrong-tree",
                    format!("{:?} parsed as {} instead of {}", src, got.show(), want),
                    json!({"kind": "source", "source": src, "expected_tree": want, "actual_tree": got.show()}),
                )),
                Err(e) => acc.fail(Failure::new(
                    "c02:replay:rejected",
                    format!("{:?} rejected: {}", src, e),
                    json!({"kind": "source", "source": src, "expected_tree": want}),
                )),
            }
        }
        "eval" | "eval2" => {
            let src = d.get("source").and_then(|s| s.as_str()).unwrap_or("");
            let mut binds = Vec::new();
            if let Some(m) = d.get("bindings").and_then(|b| b.as_object()) {
                for (k, v) in m {
                    if let Some(i) = v.as_i64() {
                        binds.push((k.clone(), V::Int(i)));
                    } else if let Some(b) = v.as_bool() {
                        binds.push((k.clone(), V::Bool(b)));
                    }
                }
            }
            acc.case("replay", src, true, "replay");
            let r = eval(src, &binds).res.sum();
            let bad = if kind == "eval" {
                match d.get("expected").and_then(|e| e.as_str()) {
                    Some(x) => r != Sum::Val(x.to_string()),
                    None => r.is_panic(),
                }
            } else {
                let other = d.get("other").and_then(|s| s.as_str()).unwrap_or("");
                eval(other, &binds).res.sum() != r
            };
            if bad {
                acc.fail(Failure::new(
                    "c02:replay:eval",
                    format!("{:?} evaluated to {}", src, r.show()),
                    d.clone(),
                ));
            }
        }
        "sign-postfix" => {
            let sign = if d.get("sign").and_then(|s| s.as_str()) == Some("!") { "!" } else { "-" };
            let n = d.get("n").and_then(|n| n.as_u64()).unwrap_or(1) as usize;
            let lit = d.get("lit").and_then(|s| s.as_str()).unwrap_or("1.5");
            let postfix = d.get("postfix").and_then(|s| s.as_str()).unwrap_or(".max(2.0)");
            for f in check_sign_postfix(sign, n, lit, postfix, acc) {
                acc.fail(f);
            }
        }
        "unary" => {
            let sign = if d.get("sign").and_then(|s| s.as_str()) == Some("!") { "!" } else { "-" };
            let n = d.get("n").and_then(|n| n.as_u64()).unwrap_or(2) as usize;
            match d.get("operand").and_then(super::c03::vunjson) {
                Some(v) => {
                    for f in check_unary_run(sign, n, &v, "replay", acc) {
                        acc.fail(f);
                    }
                }
                None => acc.inconclusive.push("bad C02 unary replay file".into()),
            }
        }
        _ => acc.inconclusive.push(format!("unknown C02 replay kind {:?}", kind)),
    }
}

/// libFuzzer entry: first byte selects the tree-shape or the evaluation sub-check
pub fn fuzz_case(genome: &[u8], acc: &mut Acc) -> Vec<Failure> {
    match genome.first().map(|b| b % 2) {
        Some(0) => check_tree(&genome[1..], "fuzz", acc),
        Some(_) => check_eval(&genome[1..], "fuzz", acc),
        None => vec![],
    }
}
