//! Reference semantics written from the property statements (C03-C08), with an explicit
//! `Unspec`: whenever no sentence of a statement determines the result, the model says so
//! and the caller asserts nothing.

use crate::expr::*;
use crate::props::c03::{model_bin, model_neg, Exp};
use crate::val::V;
use std::cmp::Ordering;
use std::collections::BTreeMap;

#[derive(Clone, Copy, Debug, PartialEq, Eq)]
pub enum FailClass {
    /// unbound variable, absent field or key
    Absent,
    /// any other failure
    Other,
    /// several operands failed with different classes and no statement says which one wins
    Mixed,
}

#[derive(Clone, Debug, PartialEq)]
pub enum Out {
    Val(V),
    Fail(FailClass),
    Unspec,
}

impl Out {
    pub fn show(&self) -> String {
        match self {
            Out::Val(v) => v.canon(),
            Out::Fail(c) => format!("failure({:?})", c),
            Out::Unspec => "unspecified".into(),
        }
    }
    pub fn is_fail(&self) -> bool {
        matches!(self, Out::Fail(_))
    }
}

/// "non-zero numbers, true, non-empty strings/bytes/lists/maps, types, timestamps and
/// durations are truthy; zero, false, empties, null and failures are not" (C05)
pub fn truthy(v: &V) -> bool {
    match v {
        V::Int(i) => *i != 0,
        V::UInt(u) => *u != 0,
        V::F(f) => *f != 0.0,
        V::Bool(b) => *b,
        V::Str(s) => !s.is_empty(),
        V::Bytes(b) => !b.is_empty(),
        V::List(l) => !l.is_empty(),
        V::Map(m) => !m.is_empty(),
        V::Null => false,
        V::Type(_) | V::Ts(..) | V::Dur(_) => true,
    }
}

#[derive(Clone, Debug, PartialEq)]
pub enum Cmp {
    Ord(Option<Ordering>), // None = unordered (NaN)
    /// unrelated types: every ordering operator must fail
    Fail,
    Unspec,
}

fn int_of(v: &V) -> Option<i128> {
    match v {
        V::Int(i) => Some(*i as i128),
        V::UInt(u) => Some(*u as i128),
        _ => None,
    }
}

fn f_of(v: &V) -> Option<f64> {
    match v {
        V::Int(i) => Some(*i as f64),
        V::UInt(u) => Some(*u as f64),
        V::F(f) => Some(*f),
        _ => None,
    }
}

/// The one order behind < <= > >= (C04).
pub fn compare(a: &V, b: &V) -> Cmp {
    match (a, b) {
        (V::Int(_) | V::UInt(_), V::Int(_) | V::UInt(_)) => {
            Cmp::Ord(Some(int_of(a).unwrap().cmp(&int_of(b).unwrap())))
        }
        (V::Int(_) | V::UInt(_) | V::F(_), V::Int(_) | V::UInt(_) | V::F(_)) => {
            // "an integer meets a double as its nearest double"
            Cmp::Ord(f_of(a).unwrap().partial_cmp(&f_of(b).unwrap()))
        }
        (V::Str(x), V::Str(y)) => Cmp::Ord(Some(x.as_bytes().cmp(y.as_bytes()))),
        (V::Bytes(x), V::Bytes(y)) => Cmp::Ord(Some(x.cmp(y))),
        (V::Bool(x), V::Bool(y)) => Cmp::Ord(Some(x.cmp(y))),
        (V::Ts(s1, n1), V::Ts(s2, n2)) => Cmp::Ord(Some((s1, n1).cmp(&(s2, n2)))),
        (V::Dur(x), V::Dur(y)) => Cmp::Ord(Some(x.cmp(y))),
        // bool against numbers: bool "counts as 0/1" in arithmetic, comparisons are not mentioned
        (V::Bool(_), V::Int(_) | V::UInt(_) | V::F(_)) | (V::Int(_) | V::UInt(_) | V::F(_), V::Bool(_)) => Cmp::Unspec,
        _ => Cmp::Fail,
    }
}

#[derive(Clone, Copy, Debug, PartialEq)]
pub enum EqR {
    Yes,
    No,
    Unspec,
}

/// `==` (C04): same-type structural equality, numeric across int/uint/double.
pub fn equal(a: &V, b: &V) -> EqR {
    let yn = |c: bool| if c { EqR::Yes } else { EqR::No };
    match (a, b) {
        (V::Int(_) | V::UInt(_), V::Int(_) | V::UInt(_)) => yn(int_of(a) == int_of(b)),
        (V::Int(_) | V::UInt(_) | V::F(_), V::Int(_) | V::UInt(_) | V::F(_)) => yn(f_of(a).unwrap() == f_of(b).unwrap()),
        (V::Str(x), V::Str(y)) => yn(x == y),
        (V::Bytes(x), V::Bytes(y)) => yn(x == y),
        (V::Bool(x), V::Bool(y)) => yn(x == y),
        (V::Null, V::Null) => EqR::Yes,
        (V::Type(x), V::Type(y)) => yn(x == y),
        (V::Ts(s1, n1), V::Ts(s2, n2)) => yn((s1, n1) == (s2, n2)),
        (V::Dur(x), V::Dur(y)) => yn(x == y),
        (V::List(x), V::List(y)) => {
            if x.len() != y.len() {
                return EqR::No;
            }
            let mut all = EqR::Yes;
            for (p, q) in x.iter().zip(y) {
                match equal(p, q) {
                    EqR::No => return EqR::No,
                    EqR::Unspec => all = EqR::Unspec,
                    EqR::Yes => {}
                }
            }
            all
        }
        (V::Map(x), V::Map(y)) => {
            if x.len() != y.len() || x.keys().ne(y.keys()) {
                return EqR::No;
            }
            let mut all = EqR::Yes;
            for (k, p) in x {
                match equal(p, &y[k]) {
                    EqR::No => return EqR::No,
                    EqR::Unspec => all = EqR::Unspec,
                    EqR::Yes => {}
                }
            }
            all
        }
        // equality between unrelated types is not determined by any statement
        _ => EqR::Unspec,
    }
}

/// A bound recording function: what it returns when called (it also logs the call).
#[derive(Clone, Debug)]
pub enum FnResult {
    Val(V),
    Fail,
    /// returns its first argument (null without arguments)
    Echo,
}

/// how a call of a recording function appears in the log
pub fn log_entry(name: &str, args: &[String]) -> String {
    if args.is_empty() {
        name.to_string()
    } else {
        format!("{}({})", name, args.join(","))
    }
}

pub struct Ctx<'a> {
    pub vars: &'a BTreeMap<String, V>,
    /// stored programs (evaluated under the same bindings)
    pub progs: &'a BTreeMap<String, E>,
    /// recording functions p0.. : name -> configured result
    pub funcs: &'a BTreeMap<String, FnResult>,
    /// names of the functions called, in the order the model calls them
    pub log: Vec<String>,
    /// set when the call log is not determined (e.g. a failing ?: condition)
    pub log_unspecified: bool,
    pub depth: u32,
    /// C08 only: `.f` on a bound value that is not a map counts as an absent field (the
    /// configuration "intermediate not a map" of that property); elsewhere it is not asserted
    pub nonmap_field_absent: bool,
}

fn join_fail(a: FailClass, b: FailClass) -> FailClass {
    if a == b {
        a
    } else {
        FailClass::Mixed
    }
}

impl<'a> Ctx<'a> {
    pub fn new(
        vars: &'a BTreeMap<String, V>,
        progs: &'a BTreeMap<String, E>,
        funcs: &'a BTreeMap<String, FnResult>,
    ) -> Ctx<'a> {
        Ctx {
            vars,
            progs,
            funcs,
            log: Vec::new(),
            log_unspecified: false,
            depth: 0,
            nonmap_field_absent: false,
        }
    }

    /// evaluate all operands left to right; the first Unspec wins, then failures are joined
    fn strict(&mut self, es: &[&E], scope: &mut Vec<(String, V)>) -> Result<Vec<V>, Out> {
        let mut vals = Vec::new();
        let mut fail: Option<FailClass> = None;
        let mut unspec = false;
        for e in es {
            match self.eval(e, scope) {
                Out::Val(v) => vals.push(v),
                Out::Fail(c) => fail = Some(fail.map_or(c, |f| join_fail(f, c))),
                Out::Unspec => unspec = true,
            }
        }
        if unspec {
            return Err(Out::Unspec);
        }
        if let Some(f) = fail {
            return Err(Out::Fail(f));
        }
        Ok(vals)
    }

    pub fn eval(&mut self, e: &E, scope: &mut Vec<(String, V)>) -> Out {
        match e {
            E::Lit(v) => Out::Val(v.clone()),
            E::Var(n) => {
                if let Some((_, v)) = scope.iter().rev().find(|(k, _)| k == n) {
                    return Out::Val(v.clone());
                }
                if let Some(t) = type_value(n) {
                    return Out::Val(t);
                }
                if let Some(v) = self.vars.get(n) {
                    return Out::Val(v.clone());
                }
                if let Some(p) = self.progs.get(n) {
                    // "another program stored in the same context (evaluated under the same bindings)"
                    if self.depth >= 16 {
                        return Out::Unspec;
                    }
                    self.depth += 1;
                    let p = p.clone();
                    // the bindings in effect at the point of reference include the loop variables
                    // of enclosing macros
                    let mut inner = scope.clone();
                    let r = self.eval(&p, &mut inner);
                    self.depth -= 1;
                    return r;
                }
                Out::Fail(FailClass::Absent)
            }
            E::Not(n, x) => match self.eval(x, scope) {
                Out::Val(v) => {
                    let mut b = truthy(&v);
                    for _ in 0..*n {
                        b = !b;
                    }
                    Out::Val(V::Bool(b))
                }
                o => o,
            },
            E::Neg(n, x) => {
                let mut cur = self.eval(x, scope);
                for _ in 0..*n {
                    cur = match cur {
                        Out::Val(v) => match model_neg(&v) {
                            Exp::Val(r) => Out::Val(r),
                            Exp::Fail => Out::Fail(FailClass::Other),
                            _ => Out::Unspec,
                        },
                        o => o,
                    };
                }
                cur
            }
            E::Bin(Op::Or, a, b) => {
                // "a || b does not evaluate b when a is truthy ... yields true when either side is
                //  truthy even if the other side fails, otherwise a failing operand makes it fail"
                let ra = self.eval(a, scope);
                if let Out::Val(v) = &ra {
                    if truthy(v) {
                        return Out::Val(V::Bool(true));
                    }
                }
                if ra == Out::Unspec {
                    // whether b is evaluated depends on a value the model does not know
                    self.log_unspecified = true;
                }
                let rb = self.eval(b, scope);
                if let Out::Val(v) = &rb {
                    if truthy(v) {
                        return Out::Val(V::Bool(true));
                    }
                }
                match (ra, rb) {
                    (Out::Unspec, _) | (_, Out::Unspec) => Out::Unspec,
                    (Out::Fail(x), Out::Fail(y)) => Out::Fail(join_fail(x, y)),
                    (Out::Fail(x), _) | (_, Out::Fail(x)) => Out::Fail(x),
                    _ => Out::Val(V::Bool(false)),
                }
            }
            E::Bin(Op::And, a, b) => {
                // "a && b does not evaluate b when a is falsy or fails"
                match self.eval(a, scope) {
                    Out::Val(v) => {
                        if !truthy(&v) {
                            return Out::Val(V::Bool(false));
                        }
                    }
                    o => {
                        if o == Out::Unspec {
                            self.log_unspecified = true;
                        }
                        return o;
                    }
                }
                match self.eval(b, scope) {
                    Out::Val(v) => Out::Val(V::Bool(truthy(&v))),
                    o => o,
                }
            }
            E::Bin(op, a, b) => {
                let vals = match self.strict(&[a, b], scope) {
                    Ok(v) => v,
                    Err(o) => return o,
                };
                binop(*op, &vals[0], &vals[1])
            }
            E::Tern(c, a, b) => match self.eval(c, scope) {
                Out::Val(v) => {
                    if truthy(&v) {
                        self.eval(a, scope)
                    } else {
                        self.eval(b, scope)
                    }
                }
                Out::Fail(f) => {
                    // "fails when c fails"; whether a branch is evaluated is not stated
                    self.log_unspecified = true;
                    Out::Fail(f)
                }
                Out::Unspec => {
                    self.log_unspecified = true;
                    Out::Unspec
                }
            },
            E::List(l) => {
                let refs: Vec<&E> = l.iter().collect();
                match self.strict(&refs, scope) {
                    Ok(v) => Out::Val(V::List(v)),
                    // a failing element: rscel keeps errors as values inside containers; no
                    // statement covers this
                    Err(_) => Out::Unspec,
                }
            }
            E::Map(m) => {
                let mut out = BTreeMap::new();
                let mut bad = false;
                for (k, v) in m {
                    let kv = self.eval(k, scope);
                    let vv = self.eval(v, scope);
                    match (kv, vv) {
                        (Out::Val(V::Str(s)), Out::Val(x)) => {
                            // "for a repeated map key the last entry wins"
                            out.insert(s, x);
                        }
                        _ => bad = true,
                    }
                }
                if bad {
                    Out::Unspec
                } else {
                    Out::Val(V::Map(out))
                }
            }
            E::Index(a, i) => {
                let vals = match self.strict(&[a, i], scope) {
                    Ok(v) => v,
                    Err(o) => return o,
                };
                index(&vals[0], &vals[1])
            }
            E::Field(a, f) => match self.eval(a, scope) {
                Out::Val(V::Map(m)) => match m.get(f) {
                    Some(v) => Out::Val(v.clone()),
                    // "m.k returns the value stored under k or an absent-field error"; a name that
                    // is also a built-in method is a bound method, not a value
                    None => {
                        if is_builtin_name(f) {
                            Out::Unspec
                        } else {
                            Out::Fail(FailClass::Absent)
                        }
                    }
                },
                // field access on a non-map
                Out::Val(v) => {
                    let plain = matches!(v, V::Int(_) | V::UInt(_) | V::F(_) | V::Bool(_) | V::Str(_) | V::Bytes(_) | V::List(_) | V::Null);
                    if self.nonmap_field_absent && plain && !is_builtin_name(f) {
                        Out::Fail(FailClass::Absent)
                    } else {
                        Out::Unspec
                    }
                }
                o => o,
            },
            E::Call(f, args) => self.call(f, args, scope),
            E::FStr(_) => Out::Unspec,
            E::Match(s, cases) => {
                let sv = match self.eval(s, scope) {
                    Out::Val(v) => v,
                    _ => {
                        self.log_unspecified = true;
                        return Out::Unspec;
                    }
                };
                for (p, arm) in cases {
                    let hit = match p {
                        Pat::Any => Some(true),
                        Pat::Type(t) => Some(type_pattern_matches(t, &sv)),
                        Pat::Cmp(op, pe) => {
                            let pv = match self.eval(pe, scope) {
                                Out::Val(v) => v,
                                _ => {
                                    self.log_unspecified = true;
                                    return Out::Unspec;
                                }
                            };
                            match binop(op.unwrap_or(Op::Eq), &sv, &pv) {
                                Out::Val(V::Bool(b)) => Some(b),
                                _ => None,
                            }
                        }
                    };
                    match hit {
                        Some(true) => return self.eval(arm, scope),
                        Some(false) => {}
                        None => {
                            self.log_unspecified = true;
                            return Out::Unspec;
                        }
                    }
                }
                Out::Val(V::Null)
            }
        }
    }

    fn call(&mut self, f: &E, args: &[E], scope: &mut Vec<(String, V)>) -> Out {
        match f {
            E::Var(name) => {
                if let Some(r) = self.funcs.get(name.as_str()).cloned() {
                    // recording function: arguments first, then the call itself
                    let refs: Vec<&E> = args.iter().collect();
                    let a = self.strict(&refs, scope);
                    let vals = match a {
                        Ok(v) => v,
                        Err(_) => {
                            // whether a bound function runs at all when an argument fails is not stated
                            self.log_unspecified = true;
                            return Out::Unspec;
                        }
                    };
                    let texts: Vec<String> = vals.iter().map(|v| v.canon()).collect();
                    self.log.push(log_entry(name, &texts));
                    return match r {
                        FnResult::Val(v) => Out::Val(v),
                        FnResult::Fail => Out::Fail(FailClass::Other),
                        FnResult::Echo => Out::Val(vals.into_iter().next().unwrap_or(V::Null)),
                    };
                }
                match name.as_str() {
                    "has" if args.len() == 1 => match self.eval(&args[0], scope) {
                        // "true when e evaluates, false exactly when e fails because a variable is
                        //  unbound or a field/key is absent, and propagates every other failure"
                        Out::Val(_) => Out::Val(V::Bool(true)),
                        Out::Fail(FailClass::Absent) => Out::Val(V::Bool(false)),
                        Out::Fail(FailClass::Other) => Out::Fail(FailClass::Other),
                        Out::Fail(FailClass::Mixed) | Out::Unspec => Out::Unspec,
                    },
                    "coalesce" => {
                        for a in args {
                            match self.eval(a, scope) {
                                Out::Val(V::Null) | Out::Fail(FailClass::Absent) => {}
                                Out::Val(v) => return Out::Val(v),
                                Out::Fail(FailClass::Other) => return Out::Fail(FailClass::Other),
                                Out::Fail(FailClass::Mixed) | Out::Unspec => {
                                    self.log_unspecified = true;
                                    return Out::Unspec;
                                }
                            }
                        }
                        Out::Val(V::Null)
                    }
                    "size" if args.len() == 1 => match self.eval(&args[0], scope) {
                        Out::Val(v) => size_of(&v),
                        o => o,
                    },
                    "bool" if args.len() == 1 => match self.eval(&args[0], scope) {
                        // strings spelled like boolean literals are parsed; everything else is
                        // "the same truthiness everywhere"
                        Out::Val(V::Str(_)) => Out::Unspec,
                        Out::Val(v) => Out::Val(V::Bool(truthy(&v))),
                        o => o,
                    },
                    "dyn" if args.len() == 1 => self.eval(&args[0], scope),
                    // a name that is bound to nothing callable: the call fails, and that failure is
                    // not an absent variable / field (C08, C12)
                    n if n.starts_with("nosuchfn") => {
                        for a in args {
                            let _ = self.eval(a, scope);
                        }
                        if args.iter().any(|a| !matches!(a, E::Var(_) | E::Lit(_))) {
                            self.log_unspecified = true;
                        }
                        Out::Fail(FailClass::Other)
                    }
                    _ => {
                        for a in args {
                            let _ = self.eval(a, scope);
                        }
                        self.log_unspecified = true;
                        Out::Unspec
                    }
                }
            }
            E::Field(recv, name) => {
                if let Some((_, nv)) = MACROS_WITH_VAR.iter().find(|(m, _)| m == name) {
                    return self.macro_call(recv, name, *nv, args, scope);
                }
                match name.as_str() {
                    "size" if args.is_empty() => match self.eval(recv, scope) {
                        Out::Val(V::Map(_)) => Out::Unspec,
                        Out::Val(v) => size_of(&v),
                        o => o,
                    },
                    _ => {
                        let _ = self.eval(recv, scope);
                        for a in args {
                            let _ = self.eval(a, scope);
                        }
                        self.log_unspecified = true;
                        Out::Unspec
                    }
                }
            }
            _ => Out::Unspec,
        }
    }

    fn macro_call(&mut self, recv: &E, name: &str, nv: usize, args: &[E], scope: &mut Vec<(String, V)>) -> Out {
        let names: Vec<String> = args
            .iter()
            .take(nv)
            .filter_map(|a| if let E::Var(v) = a { Some(v.clone()) } else { None })
            .collect();
        let arity_ok = match name {
            "map" => args.len() == 2 || args.len() == 3,
            "reduce" => args.len() == 4,
            _ => args.len() == 2,
        };
        if names.len() != nv || !arity_ok {
            return Out::Unspec;
        }
        let range = match self.eval(recv, scope) {
            Out::Val(V::List(l)) => l,
            Out::Val(V::Map(_)) => return Out::Unspec, // key order is checked separately (C07)
            Out::Val(_) => return Out::Fail(FailClass::Other),
            o => return o,
        };
        let x = names[0].clone();
        match name {
            "all" | "exists" | "exists_one" | "filter" => {
                let mut hits = 0usize;
                let mut kept = Vec::new();
                for el in range {
                    scope.push((x.clone(), el.clone()));
                    let r = self.eval(&args[1], scope);
                    scope.pop();
                    let t = match r {
                        Out::Val(v) => truthy(&v),
                        // "stops at the first element ... whose body fails, which makes the macro fail"
                        o => {
                            if o == Out::Unspec {
                                self.log_unspecified = true;
                            }
                            return o;
                        }
                    };
                    match name {
                        "all" => {
                            if !t {
                                return Out::Val(V::Bool(false));
                            }
                        }
                        "exists" => {
                            if t {
                                return Out::Val(V::Bool(true));
                            }
                        }
                        "exists_one" => {
                            if t {
                                hits += 1;
                                if hits > 1 {
                                    // "stops at the first element that decides the result"
                                    return Out::Val(V::Bool(false));
                                }
                            }
                        }
                        _ => {
                            if t {
                                kept.push(el);
                            }
                        }
                    }
                }
                match name {
                    "all" => Out::Val(V::Bool(true)),
                    "exists" => Out::Val(V::Bool(false)),
                    "exists_one" => Out::Val(V::Bool(hits == 1)),
                    _ => Out::Val(V::List(kept)),
                }
            }
            "map" => {
                let mut out = Vec::new();
                for el in range {
                    scope.push((x.clone(), el));
                    let r = if args.len() == 3 {
                        match self.eval(&args[1], scope) {
                            Out::Val(v) => {
                                if truthy(&v) {
                                    Some(self.eval(&args[2], scope))
                                } else {
                                    None
                                }
                            }
                            o => Some(o),
                        }
                    } else {
                        Some(self.eval(&args[1], scope))
                    };
                    scope.pop();
                    match r {
                        None => {}
                        Some(Out::Val(v)) => out.push(v),
                        Some(o) => return o,
                    }
                }
                Out::Val(V::List(out))
            }
            "reduce" => {
                // reduce(acc, x, step, seed): "threads acc from seed through step left to right"
                let acc_name = names[0].clone();
                let x = names[1].clone();
                let mut acc = match self.eval(&args[3], scope) {
                    Out::Val(v) => v,
                    o => return o,
                };
                for el in range {
                    scope.push((x.clone(), el));
                    scope.push((acc_name.clone(), acc.clone()));
                    let r = self.eval(&args[2], scope);
                    scope.pop();
                    scope.pop();
                    acc = match r {
                        Out::Val(v) => v,
                        o => return o,
                    };
                }
                Out::Val(acc)
            }
            _ => Out::Unspec,
        }
    }
}

pub fn type_value(n: &str) -> Option<V> {
    Some(V::Type(
        match n {
            "bool" => "bool",
            "int" => "int",
            "uint" => "uint",
            "float" | "double" => "float",
            "string" => "string",
            "bytes" => "bytes",
            "type" => "type",
            "timestamp" => "timestamp",
            "duration" => "duration",
            "null_type" => "null",
            "dyn" => "dyn",
            _ => return None,
        }
        .to_string(),
    ))
}

pub fn is_builtin_name(n: &str) -> bool {
    crate::props::c17::DEFAULT_FUNCS.contains(&n) || crate::props::c17::DEFAULT_MACROS.contains(&n)
}

fn type_pattern_matches(t: &str, v: &V) -> bool {
    let want = match t {
        "double" => "float",
        o => o,
    };
    v.type_name() == want
}

pub fn size_of(v: &V) -> Out {
    match v {
        // "size of a list, string or bytes value is its element count (UTF-8 length for strings)"
        V::List(l) => Out::Val(V::UInt(l.len() as u64)),
        V::Str(s) => Out::Val(V::UInt(s.len() as u64)),
        V::Bytes(b) => Out::Val(V::UInt(b.len() as u64)),
        _ => Out::Unspec,
    }
}

/// `l[i]`, `m[k]` (C06)
pub fn index(c: &V, i: &V) -> Out {
    match (c, i) {
        (V::List(l), V::Int(i)) => {
            let n = l.len() as i128;
            let i = *i as i128;
            // "the i-th element for 0 <= i < size, the (size+i)-th for -size <= i < 0, and an
            //  error outside that range"
            let k = if i >= 0 { i } else { n + i };
            if k >= 0 && k < n {
                Out::Val(l[k as usize].clone())
            } else {
                Out::Fail(FailClass::Other)
            }
        }
        (V::List(l), V::UInt(u)) => {
            if (*u as u128) < l.len() as u128 {
                Out::Val(l[*u as usize].clone())
            } else {
                Out::Fail(FailClass::Other)
            }
        }
        // "or for a non-integer index"
        (V::List(_), _) => Out::Fail(FailClass::Other),
        (V::Map(m), V::Str(k)) => match m.get(k) {
            Some(v) => Out::Val(v.clone()),
            None => Out::Fail(FailClass::Absent),
        },
        // non-string map keys, indexing strings/bytes/other values
        _ => Out::Unspec,
    }
}

pub fn binop(op: Op, a: &V, b: &V) -> Out {
    match op {
        Op::Add | Op::Sub | Op::Mul | Op::Div | Op::Rem => {
            if op == Op::Add {
                // "+ concatenates lists, strings and bytes preserving order"
                match (a, b) {
                    (V::Str(x), V::Str(y)) => return Out::Val(V::Str(format!("{}{}", x, y))),
                    (V::Bytes(x), V::Bytes(y)) => {
                        let mut v = x.clone();
                        v.extend(y);
                        return Out::Val(V::Bytes(v));
                    }
                    (V::List(x), V::List(y)) => {
                        let mut v = x.clone();
                        v.extend(y.iter().cloned());
                        return Out::Val(V::List(v));
                    }
                    _ => {}
                }
            }
            match model_bin(op.sym(), a, b) {
                Exp::Val(v) => Out::Val(v),
                Exp::Fail => Out::Fail(FailClass::Other),
                Exp::ValOrFail(_) | Exp::Unspecified => Out::Unspec,
            }
        }
        Op::Lt | Op::Le | Op::Gt | Op::Ge => match compare(a, b) {
            Cmp::Ord(o) => Out::Val(V::Bool(match op {
                Op::Lt => o == Some(Ordering::Less),
                Op::Le => matches!(o, Some(Ordering::Less) | Some(Ordering::Equal)),
                Op::Gt => o == Some(Ordering::Greater),
                _ => matches!(o, Some(Ordering::Greater) | Some(Ordering::Equal)),
            })),
            Cmp::Fail => Out::Fail(FailClass::Other),
            Cmp::Unspec => Out::Unspec,
        },
        Op::Eq | Op::Ne => match equal(a, b) {
            EqR::Yes => Out::Val(V::Bool(op == Op::Eq)),
            EqR::No => Out::Val(V::Bool(op == Op::Ne)),
            EqR::Unspec => Out::Unspec,
        },
        Op::In => match b {
            // "in tests list membership, map-key presence and substring containment and is an
            //  error for other operand types"
            V::List(l) => {
                let mut unspec = false;
                for x in l {
                    // membership on same-type elements; cross-type comparisons are left open - also
                    // when they happen inside nested containers (`[2u] in [[2]]`): only an element
                    // that is identical, types included, is certainly a member
                    if std::mem::discriminant(x) == std::mem::discriminant(a) {
                        match equal(a, x) {
                            EqR::Yes if a.canon() == x.canon() => return Out::Val(V::Bool(true)),
                            EqR::Yes => unspec = true,
                            EqR::Unspec => unspec = true,
                            EqR::No => {}
                        }
                    } else {
                        unspec = true;
                    }
                }
                if unspec {
                    Out::Unspec
                } else {
                    Out::Val(V::Bool(false))
                }
            }
            V::Map(m) => match a {
                V::Str(k) => Out::Val(V::Bool(m.contains_key(k))),
                _ => Out::Fail(FailClass::Other),
            },
            V::Str(s) => match a {
                V::Str(n) => Out::Val(V::Bool(s.contains(n.as_str()))),
                _ => Out::Fail(FailClass::Other),
            },
            _ => Out::Fail(FailClass::Other),
        },
        Op::Or | Op::And => Out::Unspec,
    }
}

/// Compare a model outcome with what rscel returned. `None` = agrees (or unspecified).
pub fn judge(exp: &Out, got: &crate::run::Res) -> Option<String> {
    use crate::run::Res;
    if let Res::Panic(p) = got {
        return Some(format!("panic-{}", p.kind()));
    }
    match exp {
        Out::Unspec => None,
        Out::Val(v) => match got {
            Res::Ok(c) => match V::from_cel(c) {
                Some(x) if x.same(v) => None,
                _ => Some("wrong-value".into()),
            },
            _ => Some("error-instead-of-value".into()),
        },
        Out::Fail(class) => match got {
            Res::Ok(_) => Some("value-instead-of-error".into()),
            Res::Err(e) => {
                let absent = matches!(e, rscel::CelError::Binding { .. } | rscel::CelError::Attribute { .. });
                match class {
                    FailClass::Absent if !absent => Some("wrong-error-class(expected-absent)".into()),
                    FailClass::Other if absent => Some("wrong-error-class(expected-non-absent)".into()),
                    _ => None,
                }
            }
            Res::Panic(_) => unreachable!(),
        },
    }
}
