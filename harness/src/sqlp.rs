//! Independent re-parser for the SQL text emitted by `rscel-to-sql` (used by C20).
//!
//! The tokenizer applies STANDARD SQL lexical rules and knows nothing about how the text was
//! produced: a string literal starts at `'` and ends at the first `'` that is not doubled
//! (`''` is one embedded quote), backslash is an ordinary character, `--` starts a comment to
//! the end of the line and `/* .. */` is a (nesting) block comment — both only outside string
//! literals —, `"` delimits a quoted identifier and `;` terminates the statement.
//!
//! The parser is a small recursive descent over exactly the emitted dialect:
//! `(lhs) op (rhs)`, `(op-run operand)`, `case (c)::bool when true then (a) else (b) end`,
//! `f(args)`, `value::type`, `(obj)->'f'`, `(obj)->>'f'`, `(arr[idx])`, `ARRAY[..]`,
//! `json_build_object(k, v, ..)`, `'{}'::json`, redundant parentheses, integer / decimal /
//! TRUE / FALSE / NULL / string literals. Where the emitted text leaves grouping to
//! precedence the parser takes the most lenient conventional reading: all postfix forms
//! (`::type`, `->`, `->>`, `[i]`, `(args)`) apply left to right and bind tighter than a
//! prefix run, which binds tighter than every binary operator; binary operators follow the
//! SQL levels OR < AND < comparison < IN < + - < * / %. It must consume the WHOLE input.

use crate::expr::Shape;
use crate::val::V;

// ---------------------------------------------------------------------------
// Tokens

#[derive(Clone, Debug, PartialEq)]
pub enum Tok {
    /// string literal; the payload is the literal's CONTENT (`''` already collapsed)
    Str(String),
    /// numeric literal, raw text
    Num(String),
    /// identifier or key word as written
    Word(String),
    /// `"quoted identifier"` (never part of the dialect)
    QIdent(String),
    /// operator / punctuation
    Sym(&'static str),
    /// `;`
    Semi,
    /// comment, raw text including the opener
    Comment(String),
    /// any other character
    Other(char),
}

impl Tok {
    pub fn show(&self) -> String {
        match self {
            Tok::Str(s) => format!("string {:?}", s),
            Tok::Num(s) => format!("number {}", s),
            Tok::Word(s) => format!("word {}", s),
            Tok::QIdent(s) => format!("quoted identifier {:?}", s),
            Tok::Sym(s) => format!("`{}`", s),
            Tok::Semi => "`;`".to_string(),
            Tok::Comment(s) => format!("comment {:?}", s),
            Tok::Other(c) => format!("character {:?}", c),
        }
    }
}

#[derive(Clone, Debug, PartialEq)]
pub enum LexError {
    UnterminatedString(usize),
    UnterminatedComment(usize),
    UnterminatedQuotedIdent(usize),
}

#[derive(Clone, Copy, Debug, PartialEq, Eq)]
pub enum Dash {
    /// standard SQL: `--` opens a comment
    Standard,
    /// recovery mode only: a `-` never opens a comment (every `-` is a minus sign or part of
    /// an arrow); used to keep checking the rest of an output behind the `--` finding
    NeverComment,
}

#[derive(Clone, Debug)]
pub struct Lexed {
    /// token and the byte offset it starts at
    pub toks: Vec<(Tok, usize)>,
    pub error: Option<LexError>,
}

impl Lexed {
    pub fn has_comment(&self) -> bool {
        self.toks.iter().any(|(t, _)| matches!(t, Tok::Comment(_)))
    }
    pub fn has_dash_comment(&self) -> bool {
        self.toks.iter().any(|(t, _)| matches!(t, Tok::Comment(c) if c.starts_with("--")))
    }
    pub fn has_semi(&self) -> bool {
        self.toks.iter().any(|(t, _)| matches!(t, Tok::Semi))
    }
    /// `(` directly followed by two or more minus signs with nothing between them: the
    /// shape of an emitted prefix run, which standard SQL reads as `(` and a `--` comment
    pub fn has_adjacent_minus(&self) -> bool {
        self.toks.windows(3).any(|w| {
            matches!((&w[0].0, &w[1].0, &w[2].0), (Tok::Sym("("), Tok::Sym("-"), Tok::Sym("-")))
                && w[1].1 == w[0].1 + 1
                && w[2].1 == w[1].1 + 1
        })
    }
}

fn is_word_start(c: char) -> bool {
    c.is_alphabetic() || c == '_'
}
fn is_word_char(c: char) -> bool {
    c.is_alphanumeric() || c == '_' || c == '$'
}

pub fn lex(s: &str, dash: Dash) -> Lexed {
    let cs: Vec<(usize, char)> = s.char_indices().collect();
    let n = cs.len();
    let at = |i: usize| -> Option<char> { cs.get(i).map(|x| x.1) };
    let mut toks: Vec<(Tok, usize)> = Vec::new();
    let mut i = 0usize;
    while i < n {
        let (off, c) = cs[i];
        // white space
        if c == ' ' || c == '\t' || c == '\n' || c == '\r' || c == '\u{0c}' {
            i += 1;
            continue;
        }
        // string literal
        if c == '\'' {
            let mut content = String::new();
            let mut j = i + 1;
            let mut closed = false;
            while j < n {
                let d = cs[j].1;
                if d == '\'' {
                    if at(j + 1) == Some('\'') {
                        content.push('\'');
                        j += 2;
                        continue;
                    }
                    closed = true;
                    j += 1;
                    break;
                }
                content.push(d);
                j += 1;
            }
            if !closed {
                return Lexed {
                    toks,
                    error: Some(LexError::UnterminatedString(off)),
                };
            }
            toks.push((Tok::Str(content), off));
            i = j;
            continue;
        }
        // quoted identifier
        if c == '"' {
            let mut content = String::new();
            let mut j = i + 1;
            let mut closed = false;
            while j < n {
                let d = cs[j].1;
                if d == '"' {
                    if at(j + 1) == Some('"') {
                        content.push('"');
                        j += 2;
                        continue;
                    }
                    closed = true;
                    j += 1;
                    break;
                }
                content.push(d);
                j += 1;
            }
            if !closed {
                return Lexed {
                    toks,
                    error: Some(LexError::UnterminatedQuotedIdent(off)),
                };
            }
            toks.push((Tok::QIdent(content), off));
            i = j;
            continue;
        }
        // comments
        if c == '-' && at(i + 1) == Some('-') && dash == Dash::Standard {
            let mut j = i;
            let mut text = String::new();
            while j < n && cs[j].1 != '\n' {
                text.push(cs[j].1);
                j += 1;
            }
            toks.push((Tok::Comment(text), off));
            i = j;
            continue;
        }
        if c == '/' && at(i + 1) == Some('*') {
            let mut depth = 1usize;
            let mut j = i + 2;
            let mut text = String::from("/*");
            while j < n && depth > 0 {
                if cs[j].1 == '/' && at(j + 1) == Some('*') {
                    depth += 1;
                    text.push_str("/*");
                    j += 2;
                } else if cs[j].1 == '*' && at(j + 1) == Some('/') {
                    depth -= 1;
                    text.push_str("*/");
                    j += 2;
                } else {
                    text.push(cs[j].1);
                    j += 1;
                }
            }
            if depth > 0 {
                toks.push((Tok::Comment(text), off));
                return Lexed {
                    toks,
                    error: Some(LexError::UnterminatedComment(off)),
                };
            }
            toks.push((Tok::Comment(text), off));
            i = j;
            continue;
        }
        // numbers: digits [. digits] [e [+-] digits]
        if c.is_ascii_digit() {
            let mut j = i;
            let mut text = String::new();
            while j < n && cs[j].1.is_ascii_digit() {
                text.push(cs[j].1);
                j += 1;
            }
            if at(j) == Some('.') && at(j + 1).map_or(false, |d| d.is_ascii_digit()) {
                text.push('.');
                j += 1;
                while j < n && cs[j].1.is_ascii_digit() {
                    text.push(cs[j].1);
                    j += 1;
                }
            }
            if matches!(at(j), Some('e') | Some('E')) {
                let mut k = j + 1;
                if matches!(at(k), Some('+') | Some('-')) {
                    k += 1;
                }
                if at(k).map_or(false, |d| d.is_ascii_digit()) {
                    for x in j..k {
                        text.push(cs[x].1);
                    }
                    j = k;
                    while j < n && cs[j].1.is_ascii_digit() {
                        text.push(cs[j].1);
                        j += 1;
                    }
                }
            }
            toks.push((Tok::Num(text), off));
            i = j;
            continue;
        }
        if is_word_start(c) {
            let mut j = i;
            let mut text = String::new();
            while j < n && is_word_char(cs[j].1) {
                text.push(cs[j].1);
                j += 1;
            }
            toks.push((Tok::Word(text), off));
            i = j;
            continue;
        }
        if c == ';' {
            toks.push((Tok::Semi, off));
            i += 1;
            continue;
        }
        // operators and punctuation, longest match first
        let two = at(i + 1);
        let three = at(i + 2);
        let (sym, len): (Option<&'static str>, usize) = match (c, two, three) {
            ('-', Some('>'), Some('>')) => (Some("->>"), 3),
            ('-', Some('>'), _) => (Some("->"), 2),
            (':', Some(':'), _) => (Some("::"), 2),
            ('<', Some('='), _) => (Some("<="), 2),
            ('>', Some('='), _) => (Some(">="), 2),
            ('<', Some('>'), _) => (Some("<>"), 2),
            ('!', Some('='), _) => (Some("!="), 2),
            ('|', Some('|'), _) => (Some("||"), 2),
            ('(', _, _) => (Some("("), 1),
            (')', _, _) => (Some(")"), 1),
            ('[', _, _) => (Some("["), 1),
            (']', _, _) => (Some("]"), 1),
            (',', _, _) => (Some(","), 1),
            ('<', _, _) => (Some("<"), 1),
            ('>', _, _) => (Some(">"), 1),
            ('=', _, _) => (Some("="), 1),
            ('+', _, _) => (Some("+"), 1),
            ('-', _, _) => (Some("-"), 1),
            ('*', _, _) => (Some("*"), 1),
            ('/', _, _) => (Some("/"), 1),
            ('%', _, _) => (Some("%"), 1),
            ('!', _, _) => (Some("!"), 1),
            (':', _, _) => (Some(":"), 1),
            ('.', _, _) => (Some("."), 1),
            _ => (None, 1),
        };
        match sym {
            Some(sy) => toks.push((Tok::Sym(sy), off)),
            None => toks.push((Tok::Other(c), off)),
        }
        i += len;
    }
    Lexed { toks, error: None }
}

// ---------------------------------------------------------------------------
// Syntax tree of the emitted dialect

#[derive(Clone, Debug, PartialEq)]
pub enum Sq {
    Num(String),
    Str(String),
    Bool(bool),
    Null,
    Ident(String),
    /// SQL operator text (`OR`, `AND`, `=`, `<>`, `in`, `<`, ..), lhs, rhs
    Bin(String, Box<Sq>, Box<Sq>),
    /// run of `!` or of `-`, its length, operand
    Prefix(char, usize, Box<Sq>),
    /// condition (the `::bool` wrapper of the simple-case form already removed), then, else
    Case(Box<Sq>, Box<Sq>, Box<Sq>),
    /// operand, SQL type name (lower case, words joined by one space)
    Cast(Box<Sq>, String),
    Call(Box<Sq>, Vec<Sq>),
    /// object, field, `->>` (text extraction) rather than `->`
    Arrow(Box<Sq>, String, bool),
    Index(Box<Sq>, Box<Sq>),
    Array(Vec<Sq>),
    JsonObj(Vec<(Sq, Sq)>),
}

/// CEL type constructor -> SQL type of the cast (the documented mapping)
pub const CTOR_TYPES: &[(&str, &str)] = &[
    ("int", "integer"),
    ("uint", "bigint"),
    ("float", "double precision"),
    ("double", "double precision"),
    ("string", "text"),
    ("bool", "boolean"),
    ("bytes", "bytea"),
    ("timestamp", "timestamp"),
    ("duration", "interval"),
];

pub fn sql_type_of_ctor(name: &str) -> Option<&'static str> {
    CTOR_TYPES.iter().find(|(c, _)| *c == name).map(|(_, t)| *t)
}

/// SQL type -> the (first) CEL constructor that maps to it; `float` and `double` share one
/// SQL type, the canonical name is `double`
pub fn ctor_of_sql_type(ty: &str) -> Option<&'static str> {
    match ty {
        "double precision" => Some("double"),
        _ => CTOR_TYPES.iter().find(|(_, t)| *t == ty).map(|(c, _)| *c),
    }
}

/// fixed operator renaming SQL -> CEL
pub fn cel_op_of_sql(op: &str) -> Option<&'static str> {
    Some(match op {
        "OR" => "||",
        "AND" => "&&",
        "=" => "==",
        "<>" => "!=",
        "<" => "<",
        "<=" => "<=",
        ">" => ">",
        ">=" => ">=",
        "in" => "in",
        "+" => "+",
        "-" => "-",
        "*" => "*",
        "/" => "/",
        "%" => "%",
        _ => return None,
    })
}

impl Sq {
    pub fn class(&self) -> &'static str {
        match self {
            Sq::Num(_) | Sq::Str(_) | Sq::Bool(_) | Sq::Null => "literal",
            Sq::Ident(_) => "ident",
            Sq::Bin(..) => "binary",
            Sq::Prefix('!', ..) => "not-run",
            Sq::Prefix(..) => "minus-run",
            Sq::Case(..) => "case",
            Sq::Cast(..) => "cast",
            Sq::Call(..) => "call",
            Sq::Arrow(..) => "field",
            Sq::Index(..) => "index",
            Sq::Array(_) => "array",
            Sq::JsonObj(_) => "json-object",
        }
    }

    /// The tree in the `Shape` vocabulary of `expr.rs` after the fixed renaming:
    /// `=`→`==`, `<>`→`!=`, `OR`→`||`, `AND`→`&&`, `case..end`→Tern, `x::type`→
    /// Call(Ident(constructor), [x]) (`double precision` → `double`), `->`/`->>`→Field,
    /// `ARRAY[..]`→List, `json_build_object`/`'{}'::json`→Map, prefix runs→Not/Neg.
    /// Numeric literals keep their raw text, strings get the canonical text of `V::Str`.
    pub fn to_shape(&self) -> Shape {
        match self {
            Sq::Num(t) => Shape::Lit(t.clone()),
            Sq::Str(s) => Shape::Lit(V::Str(s.clone()).canon()),
            Sq::Bool(b) => Shape::Lit(V::Bool(*b).canon()),
            Sq::Null => Shape::Lit(V::Null.canon()),
            Sq::Ident(n) => Shape::Ident(n.clone()),
            Sq::Bin(op, a, b) => Shape::Bin(
                cel_op_of_sql(op).map(|s| s.to_string()).unwrap_or_else(|| format!("sql:{}", op)),
                Box::new(a.to_shape()),
                Box::new(b.to_shape()),
            ),
            Sq::Prefix('!', n, x) => Shape::Not(*n, Box::new(x.to_shape())),
            Sq::Prefix(_, n, x) => Shape::Neg(*n, Box::new(x.to_shape())),
            Sq::Case(c, a, b) => Shape::Tern(Box::new(c.to_shape()), Box::new(a.to_shape()), Box::new(b.to_shape())),
            Sq::Cast(x, ty) => {
                if ty == "json" {
                    if let Sq::Str(s) = x.as_ref() {
                        if s == "{}" {
                            return Shape::Map(vec![]);
                        }
                    }
                }
                let name = ctor_of_sql_type(ty).map(|s| s.to_string()).unwrap_or_else(|| format!("::{}", ty));
                Shape::Call(Box::new(Shape::Ident(name)), vec![x.to_shape()])
            }
            Sq::Call(f, args) => Shape::Call(Box::new(f.to_shape()), args.iter().map(|a| a.to_shape()).collect()),
            Sq::Arrow(o, f, _) => Shape::Field(Box::new(o.to_shape()), f.clone()),
            Sq::Index(a, i) => Shape::Index(Box::new(a.to_shape()), Box::new(i.to_shape())),
            Sq::Array(l) => Shape::List(l.iter().map(|x| x.to_shape()).collect()),
            Sq::JsonObj(m) => Shape::Map(m.iter().map(|(k, v)| (k.to_shape(), v.to_shape())).collect()),
        }
    }

    /// contents of every string literal that is an expression of its own (field names after
    /// an arrow and the `'{}'` of the empty-object form are not expression literals)
    pub fn string_literals(&self, out: &mut Vec<String>) {
        match self {
            Sq::Str(s) => out.push(s.clone()),
            Sq::Num(_) | Sq::Bool(_) | Sq::Null | Sq::Ident(_) => {}
            Sq::Bin(_, a, b) | Sq::Index(a, b) => {
                a.string_literals(out);
                b.string_literals(out);
            }
            Sq::Prefix(_, _, x) => x.string_literals(out),
            Sq::Case(c, a, b) => {
                c.string_literals(out);
                a.string_literals(out);
                b.string_literals(out);
            }
            Sq::Cast(x, ty) => {
                if ty == "json" && matches!(x.as_ref(), Sq::Str(s) if s == "{}") {
                    return;
                }
                x.string_literals(out);
            }
            Sq::Call(f, args) => {
                f.string_literals(out);
                for a in args {
                    a.string_literals(out);
                }
            }
            Sq::Arrow(o, _, _) => o.string_literals(out),
            Sq::Array(l) => {
                for x in l {
                    x.string_literals(out);
                }
            }
            Sq::JsonObj(m) => {
                for (k, v) in m {
                    k.string_literals(out);
                    v.string_literals(out);
                }
            }
        }
    }
}

// ---------------------------------------------------------------------------
// Parser

#[derive(Clone, Debug, PartialEq)]
pub struct ParseError {
    /// coarse, value-free class (usable in signatures)
    pub kind: &'static str,
    pub msg: String,
}

fn perr<T>(kind: &'static str, msg: String) -> Result<T, ParseError> {
    Err(ParseError { kind, msg })
}

const MAX_DEPTH: usize = 400;

struct P<'a> {
    t: &'a [(Tok, usize)],
    i: usize,
    depth: usize,
}

fn kw(w: &str, k: &str) -> bool {
    w.eq_ignore_ascii_case(k)
}

const RESERVED: &[&str] = &[
    "case", "when", "then", "else", "end", "or", "and", "in", "not", "true", "false", "null", "array", "is", "select",
    "from", "where",
];

impl<'a> P<'a> {
    fn peek(&self) -> Option<&'a Tok> {
        self.t.get(self.i).map(|x| &x.0)
    }
    fn peek_at(&self, k: usize) -> Option<&'a Tok> {
        self.t.get(self.i + k).map(|x| &x.0)
    }
    fn here(&self) -> String {
        match self.t.get(self.i) {
            Some((t, off)) => format!("{} at byte {}", t.show(), off),
            None => "end of input".to_string(),
        }
    }
    fn is_sym(&self, s: &str) -> bool {
        matches!(self.peek(), Some(Tok::Sym(x)) if *x == s)
    }
    fn is_kw(&self, k: &str) -> bool {
        matches!(self.peek(), Some(Tok::Word(w)) if kw(w, k))
    }
    fn eat_sym(&mut self, s: &str) -> bool {
        if self.is_sym(s) {
            self.i += 1;
            true
        } else {
            false
        }
    }
    fn expect_sym(&mut self, s: &'static str) -> Result<(), ParseError> {
        if self.eat_sym(s) {
            Ok(())
        } else {
            perr("expected-punctuation", format!("expected `{}`, found {}", s, self.here()))
        }
    }
    fn expect_kw(&mut self, k: &'static str) -> Result<(), ParseError> {
        if self.is_kw(k) {
            self.i += 1;
            Ok(())
        } else {
            perr("expected-keyword", format!("expected `{}`, found {}", k, self.here()))
        }
    }

    fn enter(&mut self) -> Result<(), ParseError> {
        self.depth += 1;
        if self.depth > MAX_DEPTH {
            return perr("too-deep", "nesting deeper than the re-parser's limit".to_string());
        }
        Ok(())
    }

    /// binary operator at the cursor: (SQL spelling, level)
    fn binop(&self) -> Option<(&'static str, u8)> {
        match self.peek()? {
            Tok::Word(w) if kw(w, "or") => Some(("OR", 1)),
            Tok::Word(w) if kw(w, "and") => Some(("AND", 2)),
            Tok::Word(w) if kw(w, "in") => Some(("in", 4)),
            Tok::Sym("=") => Some(("=", 3)),
            Tok::Sym("<>") | Tok::Sym("!=") => Some(("<>", 3)),
            Tok::Sym("<") => Some(("<", 3)),
            Tok::Sym("<=") => Some(("<=", 3)),
            Tok::Sym(">") => Some((">", 3)),
            Tok::Sym(">=") => Some((">=", 3)),
            Tok::Sym("+") => Some(("+", 5)),
            Tok::Sym("-") => Some(("-", 5)),
            Tok::Sym("*") => Some(("*", 6)),
            Tok::Sym("/") => Some(("/", 6)),
            Tok::Sym("%") => Some(("%", 6)),
            _ => None,
        }
    }

    fn expr(&mut self) -> Result<Sq, ParseError> {
        self.enter()?;
        let r = self.binary(1);
        self.depth -= 1;
        r
    }

    fn binary(&mut self, min: u8) -> Result<Sq, ParseError> {
        let mut lhs = self.prefix()?;
        loop {
            let Some((op, lvl)) = self.binop() else { break };
            if lvl < min {
                break;
            }
            self.i += 1;
            let rhs = self.binary(lvl + 1)?;
            lhs = Sq::Bin(op.to_string(), Box::new(lhs), Box::new(rhs));
        }
        Ok(lhs)
    }

    fn prefix(&mut self) -> Result<Sq, ParseError> {
        for (sym, ch) in [("!", '!'), ("-", '-')] {
            if self.is_sym(sym) {
                let mut n = 0usize;
                while self.eat_sym(sym) {
                    n += 1;
                }
                self.enter()?;
                let x = self.prefix();
                self.depth -= 1;
                return Ok(Sq::Prefix(ch, n, Box::new(x?)));
            }
        }
        self.postfix()
    }

    fn type_name(&mut self) -> Result<String, ParseError> {
        match self.peek() {
            Some(Tok::Word(w)) => {
                let first = w.to_ascii_lowercase();
                self.i += 1;
                let mut name = first.clone();
                if first == "double" && self.is_kw("precision") {
                    self.i += 1;
                    name = "double precision".to_string();
                }
                // In SQL a type name absorbs what follows it directly: `x::bytea[0]` casts to the
                // array type bytea[0] and `x::timestamp(3)` to timestamp(3) - neither indexes nor
                // calls the cast value. Keep the text as part of the type so the trees differ.
                while self.is_sym("[") || self.is_sym("(") {
                    let (open, close) = if self.is_sym("[") { ("[", "]") } else { ("(", ")") };
                    let mut depth = 0usize;
                    let mut text = String::new();
                    loop {
                        let Some(t) = self.peek().cloned() else {
                            return perr("unterminated-type-modifier", "type modifier is not closed".to_string());
                        };
                        self.i += 1;
                        match &t {
                            Tok::Sym(s) if *s == open => depth += 1,
                            Tok::Sym(s) if *s == close => depth -= 1,
                            _ => {}
                        }
                        text.push_str(&format!("{:?}", t));
                        if depth == 0 {
                            break;
                        }
                    }
                    name = format!("{}{}", name, text);
                }
                Ok(name)
            }
            _ => perr("expected-type", format!("expected a type name after `::`, found {}", self.here())),
        }
    }

    fn args(&mut self, close: &'static str) -> Result<Vec<Sq>, ParseError> {
        let mut out = Vec::new();
        if self.eat_sym(close) {
            return Ok(out);
        }
        loop {
            out.push(self.expr()?);
            if self.eat_sym(",") {
                continue;
            }
            self.expect_sym(close)?;
            return Ok(out);
        }
    }

    fn postfix(&mut self) -> Result<Sq, ParseError> {
        let mut cur = self.primary()?;
        loop {
            if self.eat_sym("::") {
                let ty = self.type_name()?;
                cur = Sq::Cast(Box::new(cur), ty);
            } else if self.is_sym("->") || self.is_sym("->>") {
                let text = self.is_sym("->>");
                self.i += 1;
                match self.peek() {
                    Some(Tok::Str(f)) => {
                        self.i += 1;
                        cur = Sq::Arrow(Box::new(cur), f.clone(), text);
                    }
                    _ => {
                        return perr(
                            "expected-field-name",
                            format!("expected a quoted field name after the arrow, found {}", self.here()),
                        )
                    }
                }
            } else if self.eat_sym("[") {
                let idx = self.expr()?;
                self.expect_sym("]")?;
                cur = Sq::Index(Box::new(cur), Box::new(idx));
            } else if self.eat_sym("(") {
                let a = self.args(")")?;
                cur = Sq::Call(Box::new(cur), a);
            } else {
                return Ok(cur);
            }
        }
    }

    fn primary(&mut self) -> Result<Sq, ParseError> {
        match self.peek() {
            None => perr("unexpected-end", "expected an expression, found end of input".to_string()),
            Some(Tok::Sym("(")) => {
                self.i += 1;
                let e = self.expr()?;
                self.expect_sym(")")?;
                Ok(e)
            }
            Some(Tok::Num(t)) => {
                self.i += 1;
                Ok(Sq::Num(t.clone()))
            }
            Some(Tok::Str(s)) => {
                self.i += 1;
                Ok(Sq::Str(s.clone()))
            }
            Some(Tok::Word(w)) => {
                if kw(w, "true") {
                    self.i += 1;
                    return Ok(Sq::Bool(true));
                }
                if kw(w, "false") {
                    self.i += 1;
                    return Ok(Sq::Bool(false));
                }
                if kw(w, "null") {
                    self.i += 1;
                    return Ok(Sq::Null);
                }
                if kw(w, "array") {
                    self.i += 1;
                    self.expect_sym("[")?;
                    return Ok(Sq::Array(self.args("]")?));
                }
                if kw(w, "case") {
                    self.i += 1;
                    return self.case();
                }
                if w == "json_build_object" && matches!(self.peek_at(1), Some(Tok::Sym("("))) {
                    self.i += 2;
                    let a = self.args(")")?;
                    if a.len() % 2 != 0 {
                        return perr(
                            "odd-json-object",
                            format!("json_build_object with an odd number ({}) of arguments", a.len()),
                        );
                    }
                    let mut m = Vec::new();
                    let mut it = a.into_iter();
                    while let (Some(k), Some(v)) = (it.next(), it.next()) {
                        m.push((k, v));
                    }
                    return Ok(Sq::JsonObj(m));
                }
                if RESERVED.iter().any(|r| kw(w, r)) {
                    return perr("unexpected-keyword", format!("expected an expression, found {}", self.here()));
                }
                self.i += 1;
                Ok(Sq::Ident(w.clone()))
            }
            Some(_) => perr("unexpected-token", format!("expected an expression, found {}", self.here())),
        }
    }

    /// after `case`: `X when true then A else B end` (X must be `(c)::bool`) or
    /// `when C then A else B end`
    fn case(&mut self) -> Result<Sq, ParseError> {
        let cond = if self.is_kw("when") {
            self.i += 1;
            self.expr()?
        } else {
            let x = self.expr()?;
            self.expect_kw("when")?;
            self.expect_kw("true")?;
            match x {
                Sq::Cast(inner, ty) if ty == "bool" || ty == "boolean" => *inner,
                other => {
                    return perr(
                        "case-without-bool-cast",
                        format!("`case X when true` whose X is not cast to bool: {:?}", other.class()),
                    )
                }
            }
        };
        self.expect_kw("then")?;
        let a = self.expr()?;
        self.expect_kw("else")?;
        let b = self.expr()?;
        self.expect_kw("end")?;
        Ok(Sq::Case(Box::new(cond), Box::new(a), Box::new(b)))
    }
}

/// Parse a token sequence that must be exactly one expression: no comment, no `;`, nothing
/// left over.
pub fn parse_tokens(toks: &[(Tok, usize)]) -> Result<Sq, ParseError> {
    for (t, off) in toks {
        match t {
            Tok::Comment(c) => return perr("comment", format!("comment {:?} at byte {}", c, off)),
            Tok::Semi => return perr("semicolon", format!("`;` at byte {}", off)),
            Tok::QIdent(q) => return perr("quoted-identifier", format!("quoted identifier {:?} at byte {}", q, off)),
            Tok::Other(c) => return perr("stray-character", format!("character {:?} at byte {}", c, off)),
            _ => {}
        }
    }
    let mut p = P { t: toks, i: 0, depth: 0 };
    let e = p.expr()?;
    if p.i != toks.len() {
        return perr("trailing-tokens", format!("complete expression followed by {}", p.here()));
    }
    Ok(e)
}

/// Tokenize with the standard rules and parse; the whole text must be one expression.
pub fn parse(sql: &str) -> Result<Sq, ParseError> {
    let lx = lex(sql, Dash::Standard);
    if let Some(e) = &lx.error {
        return perr("lexical", format!("{:?}", e));
    }
    parse_tokens(&lx.toks)
}

// ---------------------------------------------------------------------------
// Self-test of the lexical rules and the dialect (run at the start of C20; a failure here
// makes the check inconclusive instead of producing alarms from a broken re-parser)

pub fn selftest() -> Vec<String> {
    let mut bad = Vec::new();
    let strs = |s: &str| -> Result<Vec<Tok>, LexError> {
        let l = lex(s, Dash::Standard);
        match l.error {
            Some(e) => Err(e),
            None => Ok(l.toks.into_iter().map(|x| x.0).collect()),
        }
    };
    let s = |x: &str| Tok::Str(x.to_string());
    let lex_cases: Vec<(&str, Result<Vec<Tok>, LexError>)> = vec![
        ("'a''b'", Ok(vec![s("a'b")])),
        ("''", Ok(vec![s("")])),
        ("''''", Ok(vec![s("'")])),
        ("'a\\'", Ok(vec![s("a\\")])),
        ("'x; -- /* y'", Ok(vec![s("x; -- /* y")])),
        ("'a\nb'", Ok(vec![s("a\nb")])),
        ("'a' -- c\n1", Ok(vec![s("a"), Tok::Comment("-- c".into()), Tok::Num("1".into())])),
        ("1 /* a /* b */ c */ 2", Ok(vec![Tok::Num("1".into()), Tok::Comment("/* a /* b */ c */".into()), Tok::Num("2".into())])),
        ("'abc", Err(LexError::UnterminatedString(0))),
        ("'b'; DROP", Ok(vec![s("b"), Tok::Semi, Tok::Word("DROP".into())])),
        ("(x['k''])", Err(LexError::UnterminatedString(3))),
        ("(--5)", Ok(vec![Tok::Sym("("), Tok::Comment("--5)".into())])),
        ("a->>'f'", Ok(vec![Tok::Word("a".into()), Tok::Sym("->>"), s("f")])),
        ("3.14::double precision", Ok(vec![Tok::Num("3.14".into()), Tok::Sym("::"), Tok::Word("double".into()), Tok::Word("precision".into())])),
        ("/* open", Err(LexError::UnterminatedComment(0))),
    ];
    for (src, want) in lex_cases {
        let got = strs(src);
        if got != want {
            bad.push(format!("lex {:?}: got {:?}, want {:?}", src, got, want));
        }
    }
    let l = lex("(--5)", Dash::NeverComment);
    if !(l.has_adjacent_minus() && !l.has_comment()) {
        bad.push("recovery lexing of (--5)".to_string());
    }
    let parse_cases: &[(&str, &str)] = &[
        ("(1) + ((2) * (3))", "(+ 1 (* 2 3))"),
        ("((a) AND (b)) OR (c)", "(|| (&& a b) c)"),
        ("(x) = (y)", "(== x y)"),
        ("(x) <> (y)", "(!= x y)"),
        ("(x) in (ARRAY[1, 2])", "(in x [1 2])"),
        ("case ((x) > (5))::bool when true then (10) else (0) end", "(?: (> x 5) 10 0)"),
        ("(!!TRUE)", "(not*2 true)"),
        ("((-x)) + (y)", "(+ (neg*1 x) y)"),
        ("42::text::integer", "(call int (call string 42))"),
        ("NULL::double precision", "(call double null)"),
        ("max((x) + (1), (y) - (1))", "(call max (+ x 1) (- y 1))"),
        ("now()", "(call now )"),
        ("ARRAY[ARRAY[], ARRAY[1]]", "[[] [1]]"),
        ("'{}'::json", "{}"),
        ("json_build_object('a', 1, 'b', json_build_object('c', TRUE))", "{\"a\": 1, \"b\": {\"c\": true}}"),
        ("(((obj)->'inner')->'deep')->>'value'", "(. (. (. obj inner) deep) value)"),
        ("((a)->'b'[0])", "(idx (. a b) 0)"),
        ("(x)->'f'(2, 1)", "(call (. x f) 2 1)"),
        ("(f(2, 1))->>'g'", "(. (call f 2 1) g)"),
        ("(x) + (y)::integer", "(+ x (call int y))"),
        ("(-(x)->>'f')", "(neg*1 (. x f))"),
        ("'it''s'", "\"it's\""),
    ];
    for (src, want) in parse_cases {
        match parse(src) {
            Ok(t) => {
                let got = t.to_shape().show();
                if got != *want {
                    bad.push(format!("parse {:?}: got {}, want {}", src, got, want));
                }
            }
            Err(e) => bad.push(format!("parse {:?}: rejected: {}", src, e.msg)),
        }
    }
    let reject: &[(&str, &str)] = &[
        ("(1) + (2) 3", "trailing-tokens"),
        ("1; 2", "semicolon"),
        ("1 -- x", "comment"),
        ("'a' 'b'", "trailing-tokens"),
        ("(1", "expected-punctuation"),
        ("(--5)", "comment"),
        ("'b'; DROP TABLE x; --'", "semicolon"),
        ("\"x\"", "quoted-identifier"),
        ("", "unexpected-end"),
    ];
    for (src, want) in reject {
        match parse(src) {
            Ok(t) => bad.push(format!("parse {:?}: accepted as {}", src, t.to_shape().show())),
            Err(e) => {
                if e.kind != *want {
                    bad.push(format!("parse {:?}: rejected as {}, want {}", src, e.kind, want));
                }
            }
        }
    }
    bad
}
