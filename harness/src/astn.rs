// placeholder
