//! rscel's public AST -> span-free `Shape`, and a walker that yields every node with its
//! source range (for C18).

// Every match over one of rscel's public enums has a catch-all arm: a change that adds a variant
// (new syntax) must not stop the harness from compiling — an unknown node becomes an opaque shape.
#![allow(unreachable_patterns)]

use crate::expr::{SPat, SSeg, Shape};
use crate::val::V;
use rscel::{
    AddOp, Addition, AstNode, ConditionalAnd, ConditionalOr, Expr, ExprList, LiteralsAndKeywords,
    MatchCmpOp, MatchPattern, MatchTypePattern, Member, MemberPrime, MultOp, Multiplication,
    NegList, NotList, ObjInits, Primary, Relation, Relop, SourceRange, Unary,
};

pub fn shape_expr(e: &Expr) -> Shape {
    match e {
        Expr::Ternary {
            condition,
            true_clause,
            false_clause,
        } => Shape::Tern(
            Box::new(shape_or(condition.node())),
            Box::new(shape_or(true_clause.node())),
            Box::new(shape_expr(false_clause.node())),
        ),
        Expr::Match { condition, cases } => Shape::Match(
            Box::new(shape_expr(condition.node())),
            cases
                .iter()
                .map(|c| {
                    let c = c.node();
                    (shape_pat(c.pattern.node()), shape_expr(c.expr.node()))
                })
                .collect(),
        ),
        Expr::Unary(o) => shape_or(o.node()),
        _ => Shape::Ident("<unknown-expr>".into()),
    }
}

fn shape_pat(p: &MatchPattern) -> SPat {
    match p {
        MatchPattern::Any(_) => SPat::Any,
        MatchPattern::Type(t) => SPat::Type(
            match t.node() {
                MatchTypePattern::Int => "int",
                MatchTypePattern::Uint => "uint",
                MatchTypePattern::Float => "float",
                MatchTypePattern::String => "string",
                MatchTypePattern::Bool => "bool",
                MatchTypePattern::Bytes => "bytes",
                MatchTypePattern::List => "list",
                MatchTypePattern::Object => "object",
                MatchTypePattern::Null => "null",
                MatchTypePattern::Timestamp => "timestamp",
                MatchTypePattern::Duration => "duration",
                _ => "<unknown-type-pattern>",
            }
            .to_string(),
        ),
        MatchPattern::Cmp { op, or } => SPat::Cmp(
            match op.node() {
                MatchCmpOp::Eq => "==",
                MatchCmpOp::Neq => "!=",
                MatchCmpOp::Gt => ">",
                MatchCmpOp::Ge => ">=",
                MatchCmpOp::Lt => "<",
                MatchCmpOp::Le => "<=",
                _ => "<unknown-op>",
            }
            .to_string(),
            shape_or(or.node()),
        ),
        _ => SPat::Cmp("<unknown-pattern>".to_string(), Shape::Ident("<unknown-pattern>".into())),
    }
}

pub fn shape_or(o: &ConditionalOr) -> Shape {
    match o {
        ConditionalOr::Binary { lhs, rhs } => Shape::Bin(
            "||".into(),
            Box::new(shape_or(lhs.node())),
            Box::new(shape_and(rhs.node())),
        ),
        ConditionalOr::Unary(a) => shape_and(a.node()),
        _ => Shape::Ident("<unknown-or>".into()),
    }
}

fn shape_and(o: &ConditionalAnd) -> Shape {
    match o {
        ConditionalAnd::Binary { lhs, rhs } => Shape::Bin(
            "&&".into(),
            Box::new(shape_and(lhs.node())),
            Box::new(shape_rel(rhs.node())),
        ),
        ConditionalAnd::Unary(a) => shape_rel(a.node()),
        _ => Shape::Ident("<unknown-and>".into()),
    }
}

pub fn relop_sym(op: &Relop) -> &'static str {
    match op {
        Relop::Le => "<=",
        Relop::Lt => "<",
        Relop::Ge => ">=",
        Relop::Gt => ">",
        Relop::Eq => "==",
        Relop::Ne => "!=",
        Relop::In => "in",
        _ => "<unknown-relop>",
    }
}

fn shape_rel(o: &Relation) -> Shape {
    match o {
        Relation::Binary { lhs, op, rhs } => Shape::Bin(
            relop_sym(op).into(),
            Box::new(shape_rel(lhs.node())),
            Box::new(shape_add(rhs.node())),
        ),
        Relation::Unary(a) => shape_add(a.node()),
        _ => Shape::Ident("<unknown-relation>".into()),
    }
}

fn shape_add(o: &Addition) -> Shape {
    match o {
        Addition::Binary { lhs, op, rhs } => Shape::Bin(
            match op {
                AddOp::Add => "+",
                AddOp::Sub => "-",
                _ => "<unknown-addop>",
            }
            .into(),
            Box::new(shape_add(lhs.node())),
            Box::new(shape_mul(rhs.node())),
        ),
        Addition::Unary(a) => shape_mul(a.node()),
        _ => Shape::Ident("<unknown-addition>".into()),
    }
}

fn shape_mul(o: &Multiplication) -> Shape {
    match o {
        Multiplication::Binary { lhs, op, rhs } => Shape::Bin(
            match op {
                MultOp::Mult => "*",
                MultOp::Div => "/",
                MultOp::Mod => "%",
                _ => "<unknown-multop>",
            }
            .into(),
            Box::new(shape_mul(lhs.node())),
            Box::new(shape_unary(rhs.node())),
        ),
        Multiplication::Unary(a) => shape_unary(a.node()),
        _ => Shape::Ident("<unknown-multiplication>".into()),
    }
}

fn not_len(n: &NotList) -> usize {
    match n {
        NotList::List { tail } => 1 + not_len(tail.node()),
        NotList::EmptyList => 0,
        _ => 0,
    }
}

fn neg_len(n: &NegList) -> usize {
    match n {
        NegList::List { tail } => 1 + neg_len(tail.node()),
        NegList::EmptyList => 0,
        _ => 0,
    }
}

fn shape_unary(u: &Unary) -> Shape {
    match u {
        Unary::Member(m) => shape_member(m.node()),
        Unary::NotMember { nots, member } => {
            Shape::Not(not_len(nots.node()), Box::new(shape_member(member.node())))
        }
        Unary::NegMember { negs, member } => {
            Shape::Neg(neg_len(negs.node()), Box::new(shape_member(member.node())))
        }
        _ => Shape::Ident("<unknown-unary>".into()),
    }
}

fn shape_exprlist_rev(l: &ExprList) -> Vec<Shape> {
    // the parser stores call arguments in reverse order
    l.exprs.iter().rev().map(|e| shape_expr(e.node())).collect()
}

fn shape_member(m: &Member) -> Shape {
    let mut cur = shape_primary(m.primary.node());
    for p in &m.member {
        cur = match p.node() {
            MemberPrime::MemberAccess { ident } => Shape::Field(Box::new(cur), ident.node().0.clone()),
            MemberPrime::Call { call } => Shape::Call(Box::new(cur), shape_exprlist_rev(call.node())),
            MemberPrime::ArrayAccess { access } => {
                Shape::Index(Box::new(cur), Box::new(shape_expr(access.node())))
            }
            MemberPrime::Empty => cur,
            // an unknown postfix piece: keep the receiver, mark the step
            _ => Shape::Field(Box::new(cur), "<unknown-postfix>".to_string()),
        };
    }
    cur
}

fn shape_objinits(o: &ObjInits) -> Vec<(Shape, Shape)> {
    o.inits
        .iter()
        .map(|i| (shape_expr(i.node().key.node()), shape_expr(i.node().value.node())))
        .collect()
}

fn shape_primary(p: &Primary) -> Shape {
    match p {
        Primary::Type => Shape::Ident("<type>".into()),
        Primary::Ident(i) => Shape::Ident(i.0.clone()),
        Primary::Parens(e) => shape_expr(e.node()),
        Primary::ListConstruction(l) => {
            Shape::List(l.node().exprs.iter().map(|e| shape_expr(e.node())).collect())
        }
        Primary::ObjectInit(o) => Shape::Map(shape_objinits(o.node())),
        Primary::Literal(l) => shape_lit(l),
        _ => Shape::Ident("<unknown-primary>".into()),
    }
}

fn shape_lit(l: &LiteralsAndKeywords) -> Shape {
    match l {
        LiteralsAndKeywords::NullLit => Shape::Lit(V::Null.canon()),
        LiteralsAndKeywords::IntegerLit(i) => Shape::Lit(V::Int(*i).canon()),
        LiteralsAndKeywords::UnsignedLit(u) => Shape::Lit(V::UInt(*u).canon()),
        LiteralsAndKeywords::FloatingLit(f) => Shape::Lit(V::F(*f).canon()),
        LiteralsAndKeywords::StringLit(s) => Shape::Lit(V::Str(s.clone()).canon()),
        LiteralsAndKeywords::ByteStringLit(b) => Shape::Lit(V::Bytes(b.clone()).canon()),
        LiteralsAndKeywords::BooleanLit(b) => Shape::Lit(V::Bool(*b).canon()),
        LiteralsAndKeywords::FStringList(segs) => {
            // the segment type is not nameable from outside the crate: go through serde
            let j = serde_json::to_value(segs).unwrap_or(serde_json::Value::Null);
            let mut out = Vec::new();
            if let Some(a) = j.as_array() {
                for s in a {
                    if let Some(l) = s.get("Lit").and_then(|x| x.as_str()) {
                        out.push(SSeg::Lit(l.to_string()));
                    } else if let Some(e) = s.get("Expr").and_then(|x| x.as_str()) {
                        out.push(SSeg::Expr(e.to_string()));
                    }
                }
            }
            Shape::FStr(out)
        }
        other => Shape::Ident(format!("<{:?}>", other)),
    }
}

pub fn shape_of(ast: &AstNode<Expr>) -> Shape {
    shape_expr(ast.node())
}

// ---------------------------------------------------------------------------
// Span walker

#[derive(Clone, Copy, Debug, PartialEq, Eq)]
pub enum Kind {
    /// Expr .. Primary: the span must be exact
    Expr,
    /// NotList / NegList: look-ahead dependent by construction; only "inside the source"
    OpRun,
    /// MemberPrime (postfix piece), ExprList, ObjInits, ObjInit, MatchCase, Ident of a field
    Part,
    /// match pattern nodes: not checked (the project does not consume them)
    Pattern,
}

#[derive(Clone, Debug)]
pub struct SpanNode {
    pub kind: Kind,
    pub label: &'static str,
    /// (start line, start col, end line, end col) in characters
    pub range: (usize, usize, usize, usize),
    pub parent: Option<usize>,
    /// expression nodes carry the normalised shape of the subtree they represent
    pub shape: Option<Shape>,
    /// a wrapper level that denotes the same sub-expression as its only child
    /// (Expr::Unary(ConditionalOr::Unary(..)) chains): siblings are counted below it
    pub transparent: bool,
}

pub fn rng(r: SourceRange) -> (usize, usize, usize, usize) {
    (r.start().line(), r.start().col(), r.end().line(), r.end().col())
}

pub struct Walker {
    pub nodes: Vec<SpanNode>,
}

impl Walker {
    fn push(
        &mut self,
        kind: Kind,
        label: &'static str,
        r: SourceRange,
        parent: Option<usize>,
        shape: Option<Shape>,
        transparent: bool,
    ) -> usize {
        self.nodes.push(SpanNode {
            kind,
            label,
            range: rng(r),
            parent,
            shape,
            transparent,
        });
        self.nodes.len() - 1
    }

    pub fn expr(&mut self, n: &AstNode<Expr>, parent: Option<usize>) {
        let sh = shape_expr(n.node());
        match n.node() {
            Expr::Unary(o) => {
                let me = self.push(Kind::Expr, "Expr", n.range(), parent, Some(sh), true);
                self.or(o, Some(me));
            }
            Expr::Ternary {
                condition,
                true_clause,
                false_clause,
            } => {
                let me = self.push(Kind::Expr, "Ternary", n.range(), parent, Some(sh), false);
                self.or(condition, Some(me));
                self.or(true_clause, Some(me));
                self.expr(false_clause, Some(me));
            }
            Expr::Match { condition, cases } => {
                let me = self.push(Kind::Expr, "Match", n.range(), parent, Some(sh), false);
                self.expr(condition, Some(me));
                for c in cases {
                    let cn = self.push(Kind::Part, "MatchCase", c.range(), Some(me), None, false);
                    let pat = &c.node().pattern;
                    let pn = self.push(Kind::Pattern, "MatchPattern", pat.range(), Some(cn), None, false);
                    if let MatchPattern::Cmp { or, .. } = pat.node() {
                        self.or(or, Some(pn));
                    }
                    self.expr(&c.node().expr, Some(cn));
                }
            }
            _ => {
                self.push(Kind::Expr, "UnknownExpr", n.range(), parent, Some(sh), false);
            }
        }
    }

    fn or(&mut self, n: &AstNode<ConditionalOr>, parent: Option<usize>) {
        let sh = shape_or(n.node());
        match n.node() {
            ConditionalOr::Unary(a) => {
                let me = self.push(Kind::Expr, "Or", n.range(), parent, Some(sh), true);
                self.and(a, Some(me));
            }
            ConditionalOr::Binary { lhs, rhs } => {
                let me = self.push(Kind::Expr, "Or", n.range(), parent, Some(sh), false);
                self.or(lhs, Some(me));
                self.and(rhs, Some(me));
            }
            _ => {
                self.push(Kind::Expr, "Or", n.range(), parent, Some(sh), false);
            }
        }
    }

    fn and(&mut self, n: &AstNode<ConditionalAnd>, parent: Option<usize>) {
        let sh = shape_and(n.node());
        match n.node() {
            ConditionalAnd::Unary(a) => {
                let me = self.push(Kind::Expr, "And", n.range(), parent, Some(sh), true);
                self.rel(a, Some(me));
            }
            ConditionalAnd::Binary { lhs, rhs } => {
                let me = self.push(Kind::Expr, "And", n.range(), parent, Some(sh), false);
                self.and(lhs, Some(me));
                self.rel(rhs, Some(me));
            }
            _ => {
                self.push(Kind::Expr, "And", n.range(), parent, Some(sh), false);
            }
        }
    }

    fn rel(&mut self, n: &AstNode<Relation>, parent: Option<usize>) {
        let sh = shape_rel(n.node());
        match n.node() {
            Relation::Unary(a) => {
                let me = self.push(Kind::Expr, "Rel", n.range(), parent, Some(sh), true);
                self.add(a, Some(me));
            }
            Relation::Binary { lhs, rhs, .. } => {
                let me = self.push(Kind::Expr, "Rel", n.range(), parent, Some(sh), false);
                self.rel(lhs, Some(me));
                self.add(rhs, Some(me));
            }
            _ => {
                self.push(Kind::Expr, "Rel", n.range(), parent, Some(sh), false);
            }
        }
    }

    fn add(&mut self, n: &AstNode<Addition>, parent: Option<usize>) {
        let sh = shape_add(n.node());
        match n.node() {
            Addition::Unary(a) => {
                let me = self.push(Kind::Expr, "Add", n.range(), parent, Some(sh), true);
                self.mul(a, Some(me));
            }
            Addition::Binary { lhs, rhs, .. } => {
                let me = self.push(Kind::Expr, "Add", n.range(), parent, Some(sh), false);
                self.add(lhs, Some(me));
                self.mul(rhs, Some(me));
            }
            _ => {
                self.push(Kind::Expr, "Add", n.range(), parent, Some(sh), false);
            }
        }
    }

    fn mul(&mut self, n: &AstNode<Multiplication>, parent: Option<usize>) {
        let sh = shape_mul(n.node());
        match n.node() {
            Multiplication::Unary(a) => {
                let me = self.push(Kind::Expr, "Mul", n.range(), parent, Some(sh), true);
                self.unary(a, Some(me));
            }
            Multiplication::Binary { lhs, rhs, .. } => {
                let me = self.push(Kind::Expr, "Mul", n.range(), parent, Some(sh), false);
                self.mul(lhs, Some(me));
                self.unary(rhs, Some(me));
            }
            _ => {
                self.push(Kind::Expr, "Mul", n.range(), parent, Some(sh), false);
            }
        }
    }

    fn unary(&mut self, n: &AstNode<Unary>, parent: Option<usize>) {
        let sh = shape_unary(n.node());
        match n.node() {
            Unary::Member(m) => {
                let me = self.push(Kind::Expr, "Unary", n.range(), parent, Some(sh), true);
                self.member(m, Some(me));
            }
            Unary::NotMember { nots, member } => {
                let me = self.push(Kind::Expr, "Unary", n.range(), parent, Some(sh), false);
                self.push(Kind::OpRun, "NotList", nots.range(), Some(me), None, false);
                self.member(member, Some(me));
            }
            Unary::NegMember { negs, member } => {
                let me = self.push(Kind::Expr, "Unary", n.range(), parent, Some(sh), false);
                self.push(Kind::OpRun, "NegList", negs.range(), Some(me), None, false);
                self.member(member, Some(me));
            }
            _ => {
                self.push(Kind::Expr, "Unary", n.range(), parent, Some(sh), false);
            }
        }
    }

    fn member(&mut self, n: &AstNode<Member>, parent: Option<usize>) {
        let sh = shape_member(n.node());
        let m = n.node();
        let me = self.push(Kind::Expr, "Member", n.range(), parent, Some(sh), m.member.is_empty());
        self.primary(&m.primary, Some(me));
        for p in &m.member {
            let pn = self.push(Kind::Part, "MemberPrime", p.range(), Some(me), None, false);
            match p.node() {
                MemberPrime::MemberAccess { ident } => {
                    self.push(Kind::Part, "FieldIdent", ident.range(), Some(pn), None, false);
                }
                MemberPrime::Call { call } => {
                    let ln = self.push(Kind::Part, "ExprList", call.range(), Some(pn), None, false);
                    for a in call.node().exprs.iter().rev() {
                        self.expr(a, Some(ln));
                    }
                }
                MemberPrime::ArrayAccess { access } => {
                    self.expr(access, Some(pn));
                }
                MemberPrime::Empty => {}
                _ => {}
            }
        }
    }

    fn primary(&mut self, n: &AstNode<Primary>, parent: Option<usize>) {
        let sh = shape_primary(n.node());
        match n.node() {
            Primary::Parens(e) => {
                let me = self.push(Kind::Expr, "Parens", n.range(), parent, Some(sh), false);
                self.expr(e, Some(me));
            }
            Primary::ListConstruction(l) => {
                let me = self.push(Kind::Expr, "ListLit", n.range(), parent, Some(sh), false);
                let ln = self.push(Kind::Part, "ExprList", l.range(), Some(me), None, false);
                for e in &l.node().exprs {
                    self.expr(e, Some(ln));
                }
            }
            Primary::ObjectInit(o) => {
                let me = self.push(Kind::Expr, "MapLit", n.range(), parent, Some(sh), false);
                let on = self.push(Kind::Part, "ObjInits", o.range(), Some(me), None, false);
                for i in &o.node().inits {
                    let inn = self.push(Kind::Part, "ObjInit", i.range(), Some(on), None, false);
                    self.expr(&i.node().key, Some(inn));
                    self.expr(&i.node().value, Some(inn));
                }
            }
            _ => {
                self.push(Kind::Expr, "Atom", n.range(), parent, Some(sh), false);
            }
        }
    }
}

pub fn walk(ast: &AstNode<Expr>) -> Vec<SpanNode> {
    let mut w = Walker { nodes: Vec::new() };
    w.expr(ast, None);
    w.nodes
}
