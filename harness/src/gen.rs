//! Grammar-directed, typed-by-intent expression generator over the whole language surface.
//!
//! `gen_expr` is asked for "an expression of type T" and obliges most of the time
//! (`Cfg::illtyped` per 256 of the requests are deliberately answered with another type).
//! All choices come from the genome.

use crate::expr::*;
use crate::g::G;
use crate::val::*;
use std::collections::BTreeMap;

#[derive(Clone, Copy, Debug, PartialEq, Eq)]
pub enum Ty {
    Any,
    Int,
    UInt,
    F,
    Num,
    Bool,
    Str,
    Bytes,
    List,
    Map,
    Ts,
    Dur,
    Null,
}

pub const CONCRETE: &[Ty] = &[
    Ty::Int,
    Ty::UInt,
    Ty::F,
    Ty::Bool,
    Ty::Str,
    Ty::Bytes,
    Ty::List,
    Ty::Map,
    Ty::Ts,
    Ty::Dur,
    Ty::Null,
];

#[derive(Clone, Debug)]
pub struct VarInfo {
    pub name: String,
    pub ty: Ty,
    /// bound value (None for loop variables and for variables left unbound)
    pub value: Option<V>,
    pub loop_var: bool,
}

#[derive(Clone, Debug, Default)]
pub struct Env {
    pub vars: Vec<VarInfo>,
    /// stored programs usable as identifiers: (name, source, type)
    pub progs: Vec<(String, String, Ty)>,
}

impl Env {
    pub fn bindings(&self) -> Vec<(String, V)> {
        self.vars
            .iter()
            .filter(|v| !v.loop_var)
            .filter_map(|v| v.value.clone().map(|x| (v.name.clone(), x)))
            .collect()
    }
    pub fn of_type(&self, ty: Ty) -> Vec<&VarInfo> {
        // an outer variable shadowed by a loop variable of the same name is not visible
        self.vars
            .iter()
            .enumerate()
            .filter(|(i, v)| ty_matches(v.ty, ty) && !self.vars[i + 1..].iter().any(|w| w.name == v.name))
            .map(|(_, v)| v)
            .collect()
    }
    pub fn lookup(&self, n: &str) -> Option<&VarInfo> {
        self.vars.iter().rev().find(|v| v.name == n)
    }
}

fn ty_matches(have: Ty, want: Ty) -> bool {
    want == Ty::Any
        || have == want
        || (want == Ty::Num && matches!(have, Ty::Int | Ty::UInt | Ty::F))
}

#[derive(Clone, Debug)]
pub struct Cfg {
    pub max_depth: u32,
    /// per 256: answer a typed request with a different type
    pub illtyped: u32,
    pub macros: bool,
    pub calls: bool,
    pub fstrings: bool,
    pub matches: bool,
    pub time: bool,
    /// allow `m.map(k, ..)` / `m.filter(k, ..)` over maps (iteration order!)
    pub map_iter: bool,
    /// allow identifiers that are never bound
    pub unbound: bool,
    /// boundary-heavy numeric literals (overflow-prone) vs small ones
    pub big_numbers: bool,
    /// allow now() / timestamp()
    pub clock: bool,
}

impl Cfg {
    pub fn full() -> Cfg {
        Cfg {
            max_depth: 5,
            illtyped: 30,
            macros: true,
            calls: true,
            fstrings: true,
            matches: true,
            time: true,
            map_iter: false,
            unbound: true,
            big_numbers: true,
            clock: false,
        }
    }
}

pub fn value_of_type(g: &mut G, ty: Ty, big: bool) -> V {
    match ty {
        Ty::Int => V::Int(if big { gen_int(g) } else { g.range(-9, 20) }),
        Ty::UInt => V::UInt(if big { gen_uint(g) } else { g.below(20) as u64 }),
        Ty::F => V::F(if big { gen_f64(g) } else { g.range(-20, 40) as f64 / 4.0 }),
        Ty::Num => match g.below(3) {
            0 => value_of_type(g, Ty::Int, big),
            1 => value_of_type(g, Ty::UInt, big),
            _ => value_of_type(g, Ty::F, big),
        },
        Ty::Bool => V::Bool(g.flag()),
        Ty::Str => V::Str(gen_string(g, 5)),
        Ty::Bytes => V::Bytes(gen_bytes(g, 5)),
        Ty::List => {
            let n = g.below(5);
            let et = *g.pick(&[Ty::Int, Ty::Int, Ty::Str, Ty::F, Ty::Bool, Ty::Any]);
            V::List(
                (0..n)
                    .map(|_| {
                        if et == Ty::Any {
                            gen_value(g, 1)
                        } else {
                            value_of_type(g, et, false)
                        }
                    })
                    .collect(),
            )
        }
        Ty::Map => {
            let n = g.below(4);
            let mut m = BTreeMap::new();
            for _ in 0..n {
                let k = g.pick_str(&["a", "b", "c", "k"]).to_string();
                let v = match g.below(4) {
                    0 => value_of_type(g, Ty::Int, false),
                    1 => value_of_type(g, Ty::Str, false),
                    2 => V::Null,
                    _ => {
                        let mut inner = BTreeMap::new();
                        inner.insert("a".to_string(), value_of_type(g, Ty::Int, false));
                        V::Map(inner)
                    }
                };
                m.insert(k, v);
            }
            V::Map(m)
        }
        Ty::Ts => {
            let (s, n) = gen_ts(g);
            // literal-expressible: keep away from the range edges unless `big`
            if big {
                V::Ts(s, n)
            } else {
                V::Ts(s.clamp(-60_000_000_000, 250_000_000_000), n)
            }
        }
        Ty::Dur => {
            let d = clamp_dur(gen_dur(g));
            if big {
                V::Dur(d)
            } else {
                V::Dur(d.clamp(-4_000_000_000_000_000_000, 4_000_000_000_000_000_000))
            }
        }
        Ty::Null => V::Null,
        Ty::Any => gen_value(g, 2),
    }
}

/// A standard environment: a few variables of every type, some of them bound.
pub fn gen_env(g: &mut G, cfg: &Cfg) -> Env {
    let mut env = Env::default();
    let decl: &[(&str, Ty)] = &[
        ("i", Ty::Int),
        ("j", Ty::Int),
        ("u", Ty::UInt),
        ("d", Ty::F),
        ("p", Ty::Bool),
        ("q", Ty::Bool),
        ("s", Ty::Str),
        ("t", Ty::Str),
        ("y", Ty::Bytes),
        ("l", Ty::List),
        ("ls", Ty::List),
        ("m", Ty::Map),
        ("ts", Ty::Ts),
        ("du", Ty::Dur),
        ("n", Ty::Null),
    ];
    for (name, ty) in decl {
        if !cfg.time && matches!(ty, Ty::Ts | Ty::Dur) {
            continue;
        }
        let v = match *name {
            "l" => {
                let n = g.below(6);
                V::List((0..n).map(|_| V::Int(g.range(-5, 12))).collect())
            }
            "ls" => {
                let n = g.below(4);
                V::List((0..n).map(|_| V::Str(gen_string(g, 3))).collect())
            }
            _ => { let big = cfg.big_numbers && g.chance(96); value_of_type(g, *ty, big) }
        };
        // a variable is occasionally left unbound
        let bound = !(cfg.unbound && g.chance(12));
        env.vars.push(VarInfo {
            name: name.to_string(),
            ty: *ty,
            value: if bound { Some(v) } else { None },
            loop_var: false,
        });
    }
    env
}

pub struct Gen<'a, 'c> {
    pub cfg: &'c Cfg,
    pub fuel: i32,
    pub fresh: u32,
    _p: std::marker::PhantomData<&'a ()>,
}

pub fn gen_expr(g: &mut G, cfg: &Cfg, env: &Env, ty: Ty) -> E {
    let mut st = Gen {
        cfg,
        fuel: 60,
        fresh: 0,
        _p: std::marker::PhantomData,
    };
    let d = 1 + g.below(cfg.max_depth as usize) as u32;
    st.expr(g, env, ty, d)
}

const UNITS: &[&str] = &["kg", "lb", "g", "oz", "l", "gal", "cup", "m/s", "mph", "c", "f", "k", "stone", "nope"];
const ZONES: &[&str] = &["UTC", "US/Pacific", "Europe/Berlin", "Asia/Kolkata", "Australia/Lord_Howe", "Nowhere/Land"];
const PATTERNS: &[&str] = &["a", "a+", "^a.*b$", "(a)(b)?", "[0-9]+", "\\d", "(", "x|y", ""];

impl<'a, 'c> Gen<'a, 'c> {
    fn leaf(&mut self, g: &mut G, env: &Env, ty: Ty) -> E {
        let ty = if ty == Ty::Any { *g.pick(CONCRETE) } else { ty };
        let cands = env.of_type(ty);
        if !cands.is_empty() && g.below(5) < 3 {
            let v = g.pick(&cands);
            return var(&v.name);
        }
        // stored programs behave like variables
        let progs: Vec<&(String, String, Ty)> = env.progs.iter().filter(|p| ty_matches(p.2, ty)).collect();
        if !progs.is_empty() && g.chance(48) {
            return var(&g.pick(&progs).0);
        }
        if self.cfg.unbound && g.chance(6) {
            return var("zz");
        }
        if !self.cfg.time && matches!(ty, Ty::Ts | Ty::Dur) {
            return E::Lit(V::Null);
        }
        let big = self.cfg.big_numbers && g.chance(64);
        E::from_value(&value_of_type(g, ty, big))
    }

    fn small_int(&mut self, g: &mut G) -> E {
        ilit(g.range(-2, 6))
    }

    fn fresh_var(&mut self, g: &mut G) -> String {
        self.fresh += 1;
        // re-using the same loop variable name in nested macros is deliberate; so is, now and then,
        // the name of an outer variable (shadowing; the name may also occur free in the range)
        if g.chance(40) {
            return g.pick_str(&["i", "l", "s", "m", "p"]).to_string();
        }
        g.pick_str(&["x", "x", "e", "it"]).to_string()
    }

    fn expr_of(&mut self, g: &mut G, env: &Env, tys: &[Ty], depth: u32) -> E {
        let t = *g.pick(tys);
        self.expr(g, env, t, depth)
    }

    pub fn expr(&mut self, g: &mut G, env: &Env, ty: Ty, depth: u32) -> E {
        self.fuel -= 1;
        // byte 0 (and an exhausted genome) selects the simplest alternative: a leaf
        if depth == 0 || self.fuel <= 0 || g.below(10) == 0 {
            return self.leaf(g, env, ty);
        }
        let mut ty = ty;
        if self.cfg.illtyped > 0 && g.chance(self.cfg.illtyped) {
            ty = *g.pick(CONCRETE);
        }
        if ty == Ty::Any {
            ty = *g.pick(CONCRETE);
        }
        if ty == Ty::Num {
            ty = *g.pick(&[Ty::Int, Ty::Int, Ty::UInt, Ty::F]);
        }
        if !self.cfg.time && matches!(ty, Ty::Ts | Ty::Dur) {
            ty = Ty::Int;
        }
        let d = depth - 1;
        // generic productions available at every type
        match g.below(16) {
            0 => {
                return E::Tern(
                    Box::new(self.expr_of(g, env, &[Ty::Bool, Ty::Bool, Ty::Bool, Ty::Bool, Ty::Bool, Ty::Any], d)),
                    Box::new(self.expr(g, env, ty, d)),
                    Box::new(self.expr(g, env, ty, d)),
                )
            }
            1 if self.cfg.matches => return self.match_expr(g, env, ty, d),
            2 => {
                // index into a list literal of the wanted type
                let n = 1 + g.below(3);
                let items: Vec<E> = (0..n).map(|_| self.expr(g, env, ty, d)).collect();
                let idx = if g.chance(40) {
                    self.expr(g, env, Ty::Int, d)
                } else {
                    ilit(g.range(-(n as i64) - 1, n as i64))
                };
                return E::Index(Box::new(E::List(items)), Box::new(idx));
            }
            3 => {
                // field of a map literal
                let key = g.pick_str(&["a", "b", "k"]);
                let val = self.expr(g, env, ty, d);
                let mut entries = vec![(slit(key), val)];
                if g.flag() {
                    entries.push((slit(g.pick_str(&["a", "c"])), self.expr(g, env, Ty::Any, d)));
                }
                let m = E::Map(entries);
                return if g.flag() {
                    E::Field(Box::new(m), key.to_string())
                } else {
                    E::Index(Box::new(m), Box::new(slit(key)))
                };
            }
            4 if self.cfg.macros => {
                // coalesce(...) of the wanted type
                let n = 1 + g.below(3);
                let mut args: Vec<E> = Vec::new();
                for _ in 0..n {
                    args.push(match g.below(4) {
                        0 => E::Lit(V::Null),
                        1 => E::Field(Box::new(var("m")), g.pick_str(&["a", "zz", "b"]).to_string()),
                        _ => self.expr(g, env, ty, d),
                    });
                }
                return call("coalesce", args);
            }
            5 => return call("dyn", vec![self.expr(g, env, ty, d)]),
            _ => {}
        }
        match ty {
            Ty::Int => self.int_expr(g, env, d),
            Ty::UInt => self.uint_expr(g, env, d),
            Ty::F => self.f_expr(g, env, d),
            Ty::Bool => self.bool_expr(g, env, d),
            Ty::Str => self.str_expr(g, env, d),
            Ty::Bytes => match g.below(4) {
                0 => call("bytes", vec![self.expr(g, env, Ty::Str, d)]),
                1 => bin(Op::Add, self.expr(g, env, Ty::Bytes, d), self.expr(g, env, Ty::Bytes, d)),
                _ => self.leaf(g, env, Ty::Bytes),
            },
            Ty::List => self.list_expr(g, env, d),
            Ty::Map => self.map_expr(g, env, d),
            Ty::Ts => match g.below(5) {
                0 => bin(Op::Add, self.expr(g, env, Ty::Ts, d), self.expr(g, env, Ty::Dur, d)),
                1 => bin(Op::Sub, self.expr(g, env, Ty::Ts, d), self.expr(g, env, Ty::Dur, d)),
                // timestamp(null) reads the clock (missing arguments are padded with null), so the
                // argument is forced to be an int or a failure unless clock reads are allowed
                2 if self.cfg.clock => call("timestamp", vec![self.expr(g, env, Ty::Int, d)]),
                2 => call("timestamp", vec![call("int", vec![self.expr(g, env, Ty::Int, d)])]),
                3 if self.cfg.clock => call(g.pick_str(&["now", "timestamp"]), vec![]),
                _ => self.leaf(g, env, Ty::Ts),
            },
            Ty::Dur => match g.below(5) {
                0 => bin(Op::Add, self.expr(g, env, Ty::Dur, d), self.expr(g, env, Ty::Dur, d)),
                1 => bin(Op::Sub, self.expr(g, env, Ty::Ts, d), self.expr(g, env, Ty::Ts, d)),
                2 => call("duration", vec![self.expr(g, env, Ty::Int, d)]),
                3 => call("duration", vec![slit(g.pick_str(&["1h", "90s", "2h30m", "1d", "bogus"]))]),
                _ => self.leaf(g, env, Ty::Dur),
            },
            Ty::Null => self.leaf(g, env, Ty::Null),
            Ty::Any | Ty::Num => self.leaf(g, env, ty),
        }
    }

    fn arith(&mut self, g: &mut G, env: &Env, ty: Ty, d: u32) -> E {
        let op = *g.pick(&[Op::Add, Op::Sub, Op::Mul, Op::Div, Op::Rem]);
        let rt = if g.chance(40) { Ty::Num } else { ty };
        bin(op, self.expr(g, env, ty, d), self.expr(g, env, rt, d))
    }

    fn int_expr(&mut self, g: &mut G, env: &Env, d: u32) -> E {
        match g.below(16) {
            0..=3 => self.arith(g, env, Ty::Int, d),
            4 => E::Neg(1 + g.below(2) as u8, Box::new(self.expr(g, env, Ty::Int, d))),
            5 => call("int", vec![self.expr_of(g, env, &[Ty::Str, Ty::F, Ty::UInt, Ty::Bool, Ty::Ts, Ty::Int], d)]),
            6 if self.cfg.calls => {
                let n = 1 + g.below(3);
                call(g.pick_str(&["min", "max"]), (0..n).map(|_| self.expr(g, env, Ty::Int, d)).collect())
            }
            7 if self.cfg.calls => call("abs", vec![self.expr(g, env, Ty::Int, d)]),
            8 if self.cfg.calls => call("pow", vec![self.expr(g, env, Ty::Int, d), self.small_int(g)]),
            9 if self.cfg.calls => call(g.pick_str(&["ceil", "floor", "round"]), vec![self.expr(g, env, Ty::F, d)]),
            10 if self.cfg.calls => call(g.pick_str(&["log", "lg"]), vec![self.expr(g, env, Ty::Int, d)]),
            11 if self.cfg.macros => {
                let acc = "acc".to_string();
                let x = self.fresh_var(g);
                let mut inner = env.clone();
                inner.vars.push(VarInfo { name: acc.clone(), ty: Ty::Int, value: None, loop_var: true });
                inner.vars.push(VarInfo { name: x.clone(), ty: Ty::Int, value: None, loop_var: true });
                let step = if g.flag() {
                    bin(Op::Add, var(&acc), var(&x))
                } else {
                    self.expr(g, &inner, Ty::Int, d)
                };
                let seed = self.expr(g, env, Ty::Int, d);
                method(self.int_list(g, env, d), "reduce", vec![var(&acc), var(&x), step, seed])
            }
            12 if self.cfg.time && self.cfg.calls => {
                let f = g.pick_str(&[
                    "getDate", "getDayOfMonth", "getDayOfWeek", "getDayOfYear", "getFullYear", "getHours",
                    "getMilliseconds", "getMinutes", "getMonth", "getSeconds",
                ]);
                let recv = if matches!(f, "getHours" | "getMilliseconds" | "getMinutes" | "getSeconds") && g.flag() {
                    self.expr(g, env, Ty::Dur, d)
                } else {
                    self.expr(g, env, Ty::Ts, d)
                };
                let args = if g.chance(80) { vec![slit(g.pick_str(ZONES))] } else { vec![] };
                method(recv, f, args)
            }
            13 => E::Index(Box::new(self.int_list(g, env, d)), Box::new(self.small_int(g))),
            _ => self.leaf(g, env, Ty::Int),
        }
    }

    fn int_list(&mut self, g: &mut G, env: &Env, d: u32) -> E {
        if g.flag() && env.lookup("l").is_some() {
            var("l")
        } else {
            let n = g.below(5);
            E::List((0..n).map(|_| self.expr(g, env, Ty::Int, d.min(1))).collect())
        }
    }

    fn uint_expr(&mut self, g: &mut G, env: &Env, d: u32) -> E {
        match g.below(8) {
            0 | 1 => self.arith(g, env, Ty::UInt, d),
            2 => {
                let a = self.expr_of(g, env, &[Ty::Str, Ty::List, Ty::Bytes, Ty::Map], d);
                if g.flag() {
                    call("size", vec![a])
                } else {
                    method(a, "size", vec![])
                }
            }
            3 => call("uint", vec![self.expr_of(g, env, &[Ty::Str, Ty::F, Ty::Int, Ty::Bool, Ty::UInt], d)]),
            4 if self.cfg.calls => call("abs", vec![self.expr(g, env, Ty::UInt, d)]),
            _ => self.leaf(g, env, Ty::UInt),
        }
    }

    fn f_expr(&mut self, g: &mut G, env: &Env, d: u32) -> E {
        match g.below(10) {
            0..=2 => self.arith(g, env, Ty::F, d),
            3 => E::Neg(1, Box::new(self.expr(g, env, Ty::F, d))),
            4 => call(g.pick_str(&["double", "float"]), vec![self.expr_of(g, env, &[Ty::Str, Ty::Int, Ty::UInt, Ty::Bool, Ty::F], d)]),
            5 if self.cfg.calls => call("sqrt", vec![self.expr(g, env, Ty::Num, d)]),
            6 if self.cfg.calls => call("pow", vec![self.expr(g, env, Ty::F, d), self.expr(g, env, Ty::Num, d)]),
            7 if self.cfg.calls => call(
                "uomConvert",
                vec![self.expr(g, env, Ty::Num, d), slit(g.pick_str(UNITS)), slit(g.pick_str(UNITS))],
            ),
            8 if self.cfg.calls => call(g.pick_str(&["log", "lg", "abs"]), vec![self.expr(g, env, Ty::F, d)]),
            _ => self.leaf(g, env, Ty::F),
        }
    }

    fn bool_expr(&mut self, g: &mut G, env: &Env, d: u32) -> E {
        match g.below(20) {
            0..=2 => {
                let t = *g.pick(&[Ty::Int, Ty::Num, Ty::Str, Ty::F, Ty::UInt, Ty::Bytes, Ty::Bool, Ty::Ts, Ty::Dur]);
                let op = *g.pick(&[Op::Lt, Op::Le, Op::Gt, Op::Ge, Op::Eq, Op::Ne]);
                bin(op, self.expr(g, env, t, d), self.expr(g, env, t, d))
            }
            3 => bin(*g.pick(&[Op::Eq, Op::Ne]), self.expr(g, env, Ty::Any, d), self.expr(g, env, Ty::Any, d)),
            4 | 5 => bin(Op::Or, self.truthy(g, env, d), self.truthy(g, env, d)),
            6 | 7 => bin(Op::And, self.truthy(g, env, d), self.truthy(g, env, d)),
            8 => E::Not(1 + g.below(2) as u8, Box::new(self.truthy(g, env, d))),
            9 => match g.below(3) {
                0 => bin(Op::In, self.expr(g, env, Ty::Int, d), self.int_list(g, env, d)),
                1 => bin(Op::In, self.expr(g, env, Ty::Str, d), self.expr(g, env, Ty::Str, d)),
                _ => bin(Op::In, self.expr(g, env, Ty::Str, d), self.expr(g, env, Ty::Map, d)),
            },
            10 if self.cfg.macros => {
                // has(path)
                let path = match g.below(4) {
                    0 => var(g.pick_str(&["m", "zz", "i", "s"])),
                    1 => E::Field(Box::new(var("m")), g.pick_str(&["a", "b", "zz", "k"]).to_string()),
                    2 => E::Field(
                        Box::new(E::Field(Box::new(var("m")), g.pick_str(&["a", "k", "zz"]).to_string())),
                        "a".to_string(),
                    ),
                    _ => self.expr(g, env, Ty::Any, d),
                };
                call("has", vec![path])
            }
            11 | 12 if self.cfg.macros => {
                let x = self.fresh_var(g);
                let (range, et) = if g.flag() {
                    (self.int_list(g, env, d), Ty::Int)
                } else if env.lookup("ls").is_some() && g.flag() {
                    (var("ls"), Ty::Str)
                } else {
                    (self.expr(g, env, Ty::List, d), Ty::Any)
                };
                let mut inner = env.clone();
                inner.vars.push(VarInfo { name: x.clone(), ty: et, value: None, loop_var: true });
                let body = self.expr(g, &inner, Ty::Bool, d);
                method(range, g.pick_str(&["all", "exists", "exists_one"]), vec![var(&x), body])
            }
            13 if self.cfg.calls => {
                let f = g.pick_str(&["contains", "containsI", "startsWith", "endsWith", "startsWithI", "endsWithI"]);
                method(self.expr(g, env, Ty::Str, d), f, vec![self.expr(g, env, Ty::Str, d)])
            }
            14 if self.cfg.calls => method(self.expr(g, env, Ty::Str, d), "matches", vec![slit(g.pick_str(PATTERNS))]),
            15 => call("bool", vec![self.expr_of(g, env, &[Ty::Str, Ty::Bool, Ty::Int, Ty::Any], d)]),
            16 => {
                // type comparison
                let tn = g.pick_str(&["int", "uint", "double", "string", "bool", "bytes", "timestamp", "duration", "null_type", "type"]);
                bin(Op::Eq, call("type", vec![self.expr(g, env, Ty::Any, d)]), var(tn))
            }
            _ => self.leaf(g, env, Ty::Bool),
        }
    }

    /// an operand for || && ! — usually boolean, sometimes any truthy/falsy value
    fn truthy(&mut self, g: &mut G, env: &Env, d: u32) -> E {
        if g.chance(48) {
            self.expr(g, env, Ty::Any, d)
        } else {
            self.expr(g, env, Ty::Bool, d)
        }
    }

    fn str_expr(&mut self, g: &mut G, env: &Env, d: u32) -> E {
        match g.below(14) {
            0 | 1 => bin(Op::Add, self.expr(g, env, Ty::Str, d), self.expr(g, env, Ty::Str, d)),
            2 => call("string", vec![self.expr_of(g, env, &[Ty::Int, Ty::UInt, Ty::F, Ty::Str, Ty::Bytes, Ty::Ts, Ty::Dur, Ty::Bool], d)]),
            3 | 4 if self.cfg.fstrings => {
                let n = 1 + g.below(3);
                let mut segs = Vec::new();
                for k in 0..n {
                    if k % 2 == 0 && g.flag() {
                        segs.push(FSeg::Lit(g.pick_str(&["a", "x=", " ", "{", "}", "é", "q'q"]).to_string()));
                    }
                    // embedded expressions avoid braces inside string literals and maps
                    let t = *g.pick(&[Ty::Int, Ty::Str, Ty::F, Ty::UInt, Ty::Bool]);
                    let e = self.expr(g, env, t, d.min(1));
                    if !render_min(&e).contains(['{', '}', '"', '\\']) {
                        segs.push(FSeg::Expr(e));
                    } else {
                        segs.push(FSeg::Expr(self.leaf_nobrace(g, env)));
                    }
                }
                if !segs.iter().any(|s| matches!(s, FSeg::Expr(_))) {
                    segs.push(FSeg::Expr(var("i")));
                }
                E::FStr(segs)
            }
            5 if self.cfg.calls => method(
                self.expr(g, env, Ty::Str, d),
                g.pick_str(&["toLower", "toUpper", "trim", "trimStart", "trimEnd"]),
                vec![],
            ),
            6 if self.cfg.calls => method(
                self.expr(g, env, Ty::Str, d),
                g.pick_str(&["replace", "matchReplace", "matchReplaceOnce"]),
                vec![self.expr(g, env, Ty::Str, d), self.expr(g, env, Ty::Str, d)],
            ),
            7 if self.cfg.calls => method(
                self.expr(g, env, Ty::Str, d),
                g.pick_str(&["remove", "trimStartMatches", "trimEndMatches"]),
                vec![self.expr(g, env, Ty::Str, d)],
            ),
            8 => E::Index(Box::new(self.expr(g, env, Ty::List, d)), Box::new(self.small_int(g))),
            _ => self.leaf(g, env, Ty::Str),
        }
    }

    fn leaf_nobrace(&mut self, g: &mut G, env: &Env) -> E {
        let c: Vec<&VarInfo> = env
            .vars
            .iter()
            .filter(|v| matches!(v.ty, Ty::Int | Ty::Str | Ty::F | Ty::UInt))
            .collect();
        if c.is_empty() {
            ilit(g.below(9) as i64)
        } else {
            var(&g.pick(&c).name)
        }
    }

    fn list_expr(&mut self, g: &mut G, env: &Env, d: u32) -> E {
        match g.below(14) {
            0..=2 => {
                let n = g.below(4);
                let t = *g.pick(&[Ty::Int, Ty::Str, Ty::Any, Ty::F]);
                E::List((0..n).map(|_| self.expr(g, env, t, d)).collect())
            }
            3 => bin(Op::Add, self.expr(g, env, Ty::List, d), self.expr(g, env, Ty::List, d)),
            4 | 5 if self.cfg.macros => {
                let x = self.fresh_var(g);
                let range = self.int_list(g, env, d);
                let mut inner = env.clone();
                inner.vars.push(VarInfo { name: x.clone(), ty: Ty::Int, value: None, loop_var: true });
                match g.below(3) {
                    0 => method(range, "filter", vec![var(&x), self.expr(g, &inner, Ty::Bool, d)]),
                    1 => method(range, "map", vec![var(&x), self.expr(g, &inner, Ty::Any, d)]),
                    _ => method(
                        range,
                        "map",
                        vec![var(&x), self.expr(g, &inner, Ty::Bool, d), self.expr(g, &inner, Ty::Int, d)],
                    ),
                }
            }
            6 if self.cfg.macros && self.cfg.map_iter => {
                let x = self.fresh_var(g);
                let mut inner = env.clone();
                inner.vars.push(VarInfo { name: x.clone(), ty: Ty::Str, value: None, loop_var: true });
                let body = self.expr(g, &inner, Ty::Any, d);
                method(self.expr(g, env, Ty::Map, d), g.pick_str(&["map", "filter"]), vec![var(&x), body])
            }
            7 if self.cfg.calls => method(
                self.expr(g, env, Ty::Str, d),
                g.pick_str(&["split", "rsplit"]),
                vec![self.expr(g, env, Ty::Str, d)],
            ),
            8 if self.cfg.calls => method(self.expr(g, env, Ty::Str, d), "splitWhiteSpace", vec![]),
            9 if self.cfg.calls => method(self.expr(g, env, Ty::List, d), "sort", vec![]),
            10 if self.cfg.calls => call("zip", vec![self.expr(g, env, Ty::List, d), self.expr(g, env, Ty::List, d)]),
            11 if self.cfg.calls => method(self.expr(g, env, Ty::Str, d), "splitAt", vec![self.small_int(g)]),
            12 if self.cfg.calls => method(self.expr(g, env, Ty::Str, d), "matchCaptures", vec![slit(g.pick_str(PATTERNS))]),
            _ => self.leaf(g, env, Ty::List),
        }
    }

    fn map_expr(&mut self, g: &mut G, env: &Env, d: u32) -> E {
        match g.below(4) {
            0 | 1 => {
                let n = g.below(4);
                let mut entries = Vec::new();
                for _ in 0..n {
                    let k = if g.chance(40) {
                        self.expr(g, env, Ty::Str, d.min(1))
                    } else {
                        slit(g.pick_str(&["a", "b", "c", "k"]))
                    };
                    entries.push((k, self.expr(g, env, Ty::Any, d)));
                }
                E::Map(entries)
            }
            _ => self.leaf(g, env, Ty::Map),
        }
    }

    fn match_expr(&mut self, g: &mut G, env: &Env, ty: Ty, d: u32) -> E {
        let st = *g.pick(&[Ty::Int, Ty::Str, Ty::F, Ty::Any, Ty::Bool]);
        let scrut = self.expr(g, env, st, d);
        let n = 1 + g.below(3);
        let mut cases = Vec::new();
        for _ in 0..n {
            let pat = match g.below(6) {
                0 => Pat::Any,
                1 => Pat::Type(
                    g.pick_str(&["int", "uint", "float", "double", "string", "bool", "bytes", "timestamp", "duration"])
                        .to_string(),
                ),
                2 => Pat::Cmp(None, self.pat_operand(g, env, st, d)),
                _ => Pat::Cmp(
                    Some(*g.pick(&[Op::Eq, Op::Ne, Op::Lt, Op::Le, Op::Gt, Op::Ge])),
                    self.pat_operand(g, env, st, d),
                ),
            };
            cases.push((pat, self.expr(g, env, ty, d)));
        }
        E::Match(Box::new(scrut), cases)
    }

    /// a pattern operand must not start with an identifier that is a type name or `_`
    fn pat_operand(&mut self, g: &mut G, env: &Env, st: Ty, d: u32) -> E {
        let e = self.expr(g, env, st, d.min(1));
        match &e {
            E::Var(n) if is_type_name(n) || n == "_" => E::Lit(V::Int(0)),
            _ => e,
        }
    }
}

pub fn is_type_name(n: &str) -> bool {
    matches!(
        n,
        "bool" | "int" | "uint" | "float" | "double" | "string" | "bytes" | "type" | "timestamp" | "duration" | "null_type" | "dyn"
    )
}

/// Replace every occurrence of the (non-loop) variable `name` by a constant expression.
pub fn substitute(e: &E, name: &str, value: &V) -> E {
    subst_inner(e, name, value, &mut Vec::new())
}

fn subst_inner(e: &E, name: &str, value: &V, bound: &mut Vec<String>) -> E {
    let rec = |x: &E, b: &mut Vec<String>| subst_inner(x, name, value, b);
    match e {
        E::Var(n) if n == name && !bound.contains(n) => E::from_value(value),
        E::Lit(_) | E::Var(_) => e.clone(),
        E::Not(n, x) => E::Not(*n, Box::new(rec(x, bound))),
        E::Neg(n, x) => E::Neg(*n, Box::new(rec(x, bound))),
        E::Bin(op, a, b) => E::Bin(*op, Box::new(rec(a, bound)), Box::new(rec(b, bound))),
        E::Tern(c, a, b) => E::Tern(Box::new(rec(c, bound)), Box::new(rec(a, bound)), Box::new(rec(b, bound))),
        E::List(l) => E::List(l.iter().map(|x| rec(x, bound)).collect()),
        E::Map(m) => E::Map(m.iter().map(|(k, v)| (rec(k, bound), rec(v, bound))).collect()),
        E::Index(a, i) => E::Index(Box::new(rec(a, bound)), Box::new(rec(i, bound))),
        E::Field(a, f) => E::Field(Box::new(rec(a, bound)), f.clone()),
        E::FStr(segs) => E::FStr(
            segs.iter()
                .map(|s| match s {
                    FSeg::Lit(l) => FSeg::Lit(l.clone()),
                    FSeg::Expr(x) => {
                        // the tokenizer scans placeholders lexically: braces, quotes and
                        // backslashes inside them are outside the f-string syntax, so a value
                        // whose literal needs one stays a variable in this placeholder
                        let y = rec(x, bound);
                        if render_min(&y).contains(['{', '}', '"', '\\', '\'']) {
                            FSeg::Expr(x.clone())
                        } else {
                            FSeg::Expr(y)
                        }
                    }
                })
                .collect(),
        ),
        E::Match(s, cases) => E::Match(
            Box::new(rec(s, bound)),
            cases
                .iter()
                .map(|(p, x)| {
                    let p2 = match p {
                        Pat::Cmp(op, pe) => {
                            // a pattern that begins with a type name (timestamp(0), int(..)) is
                            // read as a type pattern: such a substitution is left out
                            let y = rec(pe, bound);
                            let head: String = render_min(&y).chars().take_while(|c| c.is_ascii_alphanumeric() || *c == '_').collect();
                            if op.is_none() && (is_type_name(&head) || head == "_") {
                                Pat::Cmp(*op, pe.clone())
                            } else {
                                Pat::Cmp(*op, y)
                            }
                        }
                        o => o.clone(),
                    };
                    (p2, rec(x, bound))
                })
                .collect(),
        ),
        E::Call(f, args) => {
            if let E::Field(recv, mname) = f.as_ref() {
                if let Some((_, nvars)) = MACROS_WITH_VAR.iter().find(|(m, _)| m == mname) {
                    let names: Vec<String> = args
                        .iter()
                        .take(*nvars)
                        .filter_map(|a| if let E::Var(v) = a { Some(v.clone()) } else { None })
                        .collect();
                    if names.len() == *nvars && args.len() > *nvars {
                        let recv2 = rec(recv, bound);
                        let mut out: Vec<E> = args.iter().take(*nvars).cloned().collect();
                        let n0 = bound.len();
                        for (k, a) in args.iter().enumerate().skip(*nvars) {
                            let in_scope = !(mname == "reduce" && k >= 3);
                            if in_scope {
                                bound.extend(names.iter().cloned());
                            }
                            out.push(rec(a, bound));
                            bound.truncate(n0);
                        }
                        return E::Call(Box::new(E::Field(Box::new(recv2), mname.clone())), out);
                    }
                }
                let recv2 = rec(recv, bound);
                return E::Call(
                    Box::new(E::Field(Box::new(recv2), mname.clone())),
                    args.iter().map(|x| rec(x, bound)).collect(),
                );
            }
            let f2 = if let E::Var(_) = f.as_ref() { (**f).clone() } else { rec(f, bound) };
            E::Call(Box::new(f2), args.iter().map(|x| rec(x, bound)).collect())
        }
    }
}
