//! Isolated child runs: inputs whose purpose is to exhaust the stack (depth ladders,
//! cyclic program references) are evaluated in a separate process so that an abort is an
//! observation, not the end of the check.
//!
//! Protocol: `rscel-verif child -` reads a JSON spec from stdin, evaluates it once on the
//! requested kind of stack and prints exactly one line `RESULT OK <text>` / `RESULT ERR
//! <class>` / `RESULT PANIC <text>`; death by signal is visible to the parent as such.

use crate::engine::{guard, run_child};
use rscel::{BindContext, CelContext};
use serde_json::{json, Value};

/// source text of a nesting ladder
pub fn ladder_source(construct: &str, depth: usize) -> String {
    let d = depth;
    match construct {
        "paren" => format!("{}1{}", "(".repeat(d), ")".repeat(d)),
        "list" => format!("{}1{}", "[".repeat(d), "]".repeat(d)),
        "map" => format!("{}1{}", "{'k':".repeat(d), "}".repeat(d)),
        "not" => format!("{}true", "!".repeat(d)),
        "neg" => format!("{}1", "-".repeat(d)),
        "not-var" => format!("{}x", "!".repeat(d)),
        "ternary-right" => format!("{}0", "x ? 1 : ".repeat(d)),
        "ternary-paren" => format!("{}0{}", "x ? (".repeat(d), ") : 1".repeat(d)),
        "add-chain" => format!("1{}", " + 1".repeat(d)),
        "add-chain-var" => format!("x{}", " + x".repeat(d)),
        "or-chain" => format!("x{}", " || x".repeat(d)),
        "and-chain" => format!("x{}", " && x".repeat(d)),
        "rel-chain" => format!("1{}", " < 2".repeat(d)),
        "field-chain" => format!("m{}", ".a".repeat(d)),
        "index-chain" => format!("l{}", "[0]".repeat(d)),
        "call-nest" => format!("{}'a'{}", "size(".repeat(d), ")".repeat(d)),
        "dyn-nest-var" => format!("{}x{}", "dyn(".repeat(d), ")".repeat(d)),
        "method-chain" => format!("'a'{}", ".trim()".repeat(d)),
        "macro-nest" => format!("{}1{}", "[1].map(e, ".repeat(d), ")".repeat(d)),
        "macro-nest-var" => format!("{}x{}", "[x].all(e, ".repeat(d), ")".repeat(d)),
        "has-nest" => format!("{}x{}", "has(".repeat(d), ")".repeat(d)),
        "coalesce-nest" => format!("{}x{}", "coalesce(".repeat(d), ")".repeat(d)),
        // the tokenizer only counts braces inside a placeholder, so f-strings nest to any depth
        "fstring-nest" => format!("{}1{}", "f'{".repeat(d), "}'".repeat(d)),
        "fstring-nest-var" => format!("{}x{}", "f'{".repeat(d), "}'".repeat(d)),
        "match-nest" => format!("{}1{}", "match x { case _: ".repeat(d), " }".repeat(d)),
        "match-scrutinee-nest" => format!("{}x{}", "match ".repeat(d), " { case _: 1 }".repeat(d)),
        // two kinds of nesting per level
        "ternary-call" => format!("{}1{}", "x ? dyn(".repeat(d), ") : 1".repeat(d)),
        "ternary-list" => format!("{}1{}", "x ? [".repeat(d), "] : 1".repeat(d)),
        "index-nest" => format!("{}0{}", "l[".repeat(d), "]".repeat(d)),
        "map-in-list" => format!("{}1{}", "[{'k': ".repeat(d), "}]".repeat(d)),
        "macro-ternary" => format!("{}1{}", "[1].map(e, x ? ".repeat(d), " : 1)".repeat(d)),
        "fstring-ternary" => format!("{}1{}", "f'{x ? ".repeat(d), " : 1}'".repeat(d)),
        "match-arm-paren" => format!("{}1{}", "match x { case _: (".repeat(d), ") }".repeat(d)),
        "else-chain-paren" => format!("{}1{}", "x ? 1 : (".repeat(d), ")".repeat(d)),
        "list-wide" => format!("[{}]", vec!["1"; d].join(",")),
        "list-wide-var" => format!("[{}]", vec!["x"; d].join(",")),
        "map-wide" => format!("{{{}}}", (0..d).map(|i| format!("'k{}': x", i)).collect::<Vec<_>>().join(",")),
        "args-wide" => format!("max({})", vec!["x"; d.max(1)].join(",")),
        "string-long" => format!("'{}'", "a".repeat(d)),
        "ident-long" => "x".repeat(d.max(1)),
        _ => "1".to_string(),
    }
}

pub const LADDER_CONSTRUCTS: &[&str] = &[
    "paren", "list", "map", "not", "neg", "not-var", "ternary-right", "ternary-paren", "add-chain", "add-chain-var",
    "or-chain", "and-chain", "rel-chain", "field-chain", "index-chain", "call-nest", "dyn-nest-var", "method-chain",
    "macro-nest", "macro-nest-var", "has-nest", "coalesce-nest", "fstring-nest", "fstring-nest-var", "match-nest", "match-scrutinee-nest",
    "ternary-call", "ternary-list", "index-nest", "map-in-list", "macro-ternary", "fstring-ternary", "match-arm-paren", "else-chain-paren", "list-wide",
    "list-wide-var", "map-wide", "args-wide", "string-long", "ident-long",
];

fn eval_spec(spec: &Value) -> String {
    let mut ctx = CelContext::new();
    let mut progs: Vec<(String, String)> = Vec::new();
    match spec.get("kind").and_then(|k| k.as_str()).unwrap_or("") {
        "ladder" => {
            let c = spec.get("construct").and_then(|c| c.as_str()).unwrap_or("paren");
            let d = spec.get("depth").and_then(|d| d.as_u64()).unwrap_or(1) as usize;
            progs.push(("main".into(), ladder_source(c, d)));
        }
        "programs" => {
            if let Some(arr) = spec.get("programs").and_then(|p| p.as_array()) {
                for p in arr {
                    if let (Some(n), Some(s)) = (p.get(0).and_then(|x| x.as_str()), p.get(1).and_then(|x| x.as_str())) {
                        progs.push((n.to_string(), s.to_string()));
                    }
                }
            }
        }
        other => return format!("RESULT ERR bad-spec-{}", other),
    }
    let entry = spec.get("entry").and_then(|e| e.as_str()).unwrap_or("main").to_string();
    let r = guard(|| {
        for (n, s) in &progs {
            ctx.add_program_str(n, s)?;
        }
        let mut b = BindContext::new();
        // the standard bindings every ladder may mention
        b.bind_param("x", rscel::CelValue::Bool(true));
        let mut m = std::collections::HashMap::new();
        m.insert("a".to_string(), rscel::CelValue::Int(1));
        b.bind_param("m", rscel::CelValue::Map(m));
        b.bind_param("l", rscel::CelValue::List(vec![rscel::CelValue::Int(1)]));
        if let Some(extra) = spec.get("binds").and_then(|b| b.as_object()) {
            for (k, v) in extra {
                b.bind_param(k, rscel::CelValue::from(v));
            }
        }
        ctx.exec(&entry, &b)
    });
    // dropping deep structures can overflow too: do it before reporting
    drop(ctx);
    match r {
        Ok(Ok(v)) => {
            let mut t = crate::run::canon_cel(&v);
            t.truncate(200);
            format!("RESULT OK {}", t)
        }
        Ok(Err(e)) => format!("RESULT ERR {}", crate::run::err_class(&e)),
        Err(p) => format!("RESULT PANIC {} @ {}", p.msg, p.loc),
    }
}

pub fn child_main(_arg: &str) {
    use std::io::Read;
    let mut s = String::new();
    let _ = std::io::stdin().read_to_string(&mut s);
    let spec: Value = match serde_json::from_str(&s) {
        Ok(v) => v,
        Err(_) => {
            println!("RESULT ERR bad-spec");
            return;
        }
    };
    let stack = spec.get("stack").and_then(|s| s.as_str()).unwrap_or("main").to_string();
    let line = if stack == "main" {
        // the process's main thread: the default 8 MiB stack
        eval_spec(&spec)
    } else {
        // a thread with Rust's default stack size (2 MiB)
        let sp = spec.clone();
        match std::thread::Builder::new().spawn(move || eval_spec(&sp)) {
            Ok(h) => h.join().unwrap_or_else(|_| "RESULT PANIC thread".to_string()),
            Err(_) => "RESULT ERR spawn".to_string(),
        }
    };
    println!("{}", line);
}

#[derive(Debug, Clone)]
pub enum ChildVerdict {
    /// returned a value or an error: (kind, text)
    Returned(String),
    Panicked(String),
    /// killed by a signal / aborted (stack overflow)
    Died(String),
    Timeout,
    Broken(String),
}

/// Evaluate a spec in an isolated child of the given profile.
pub fn run_spec(profile: &str, spec: &Value, timeout_s: u64) -> ChildVerdict {
    let out = run_child(profile, &["child".to_string(), "-".to_string()], timeout_s, Some(&spec.to_string()));
    if out.status == "timeout" {
        return ChildVerdict::Timeout;
    }
    let line = out.stdout.lines().find(|l| l.starts_with("RESULT ")).map(|l| l.to_string());
    match (out.status.as_str(), line) {
        ("ok", Some(l)) => {
            if let Some(rest) = l.strip_prefix("RESULT PANIC ") {
                ChildVerdict::Panicked(rest.to_string())
            } else {
                ChildVerdict::Returned(l["RESULT ".len()..].to_string())
            }
        }
        (st, _) if st.starts_with("signal:") || st.starts_with("exit:") => {
            let why = if out.stderr_tail.contains("overflowed its stack") {
                "stack overflow".to_string()
            } else {
                out.stderr_tail.lines().last().unwrap_or("").to_string()
            };
            ChildVerdict::Died(format!("{} ({})", st, why))
        }
        (st, l) => ChildVerdict::Broken(format!("status {} line {:?}", st, l)),
    }
}

pub fn ladder_spec(construct: &str, depth: usize, stack: &str) -> Value {
    json!({"kind": "ladder", "construct": construct, "depth": depth, "stack": stack})
}
