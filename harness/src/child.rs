//! Isolated child runs (stack exhaustion, cycles). Filled in with C01/C12.
pub fn child_main(_spec: &str) {
    println!("ERR unsupported");
}
