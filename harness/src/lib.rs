//! rscel-verif: property-based checks for 1BADragon/rscel (library part, shared by the
//! `rscel-verif` binary and the libFuzzer targets under /verif/fuzz).

pub mod astn;
pub mod bcv;
pub mod child;
pub mod engine;
pub mod expr;
pub mod g;
pub mod gen;
pub mod model;
pub mod props;
pub mod rec;
pub mod run;
pub mod sqlp;
pub mod val;
